"""C01 robustness round: behaviour-preserving refactorings of render.rs / terminal.rs that must stay silent ("benign": True) and, next to
them, breaking twins written in the same refactored style that must still be reported.  (The first C01 mutants live in selftest/mutants.py.)"""
import re

R_ = "src/render.rs"
T_ = "src/terminal.rs"

_AREA = """                    let size = image.size_cells(self.size.pixels_per_cell());
                    self.marks
                        .view_mut(
                            pos.row..pos.row + size.height,
                            pos.col..pos.col + size.width,
                        )
                        .fill(CellMark::Ignored);
                }
                continue;"""
_AREA_DMG = """                let size = image.size_cells(self.size.pixels_per_cell());
                self.marks
                    .view_mut(
                        pos.row..pos.row + size.height,
                        pos.col..pos.col + size.width,
                    )
                    .fill(CellMark::Damaged);"""
_AREA_PUSH = """                self.images.push((pos, new.face, image.clone()));
                let size = image.size_cells(self.size.pixels_per_cell());
                self.marks
                    .view_mut(
                        pos.row..pos.row + size.height,
                        pos.col..pos.col + size.width,
                    )
                    .fill(CellMark::Ignored);"""
_MARK_AREA_FN = """pub type TerminalSurface<'a> = SurfaceMutView<'a, Cell>;

fn mark_area(marks: &mut SurfaceOwned<CellMark>, origin: Position, extent: Size, mark: CellMark) {
    let rows = origin.row..origin.row + extent.height;
    let cols = origin.col..origin.col + extent.width;
    marks.view_mut(rows, cols).fill(mark);
}
"""
_TS = "pub type TerminalSurface<'a> = SurfaceMutView<'a, Cell>;\n"


def _mark_area(dmg="CellMark::Damaged", push="CellMark::Ignored"):
    return [(R_, _AREA, "                    let extent = image.size_cells(self.size.pixels_per_cell());\n                    mark_area(&mut self.marks, pos, extent, CellMark::Ignored);\n                }\n                continue;"),
            (R_, _AREA_DMG, "                let extent = image.size_cells(self.size.pixels_per_cell());\n                mark_area(&mut self.marks, pos, extent, %s);" % dmg),
            (R_, _AREA_PUSH, "                self.images.push((pos, new.face, image.clone()));\n                let extent = image.size_cells(self.size.pixels_per_cell());\n                mark_area(&mut self.marks, pos, extent, %s);" % push),
            (R_, _TS, _MARK_AREA_FN)]


_ERASE_OLD = """            if let CellKind::Image(image) = &old.kind {
                term.execute(TerminalCommand::ImageErase(image.clone(), Some(pos)))?;
""" + _AREA_DMG + "\n            }\n"
_ERASE_FN = """pub type TerminalSurface<'a> = SurfaceMutView<'a, Cell>;

fn erase_image<T: Terminal + ?Sized>(
    term: &mut T,
    marks: &mut SurfaceOwned<CellMark>,
    image: &Image,
    pos: Position,
    pixels_per_cell: Size,
) -> Result<(), Error> {
    term.execute(TerminalCommand::ImageErase(image.clone(), Some(pos)))?;
    let size = image.size_cells(pixels_per_cell);
    marks
        .view_mut(pos.row..pos.row + size.height, pos.col..pos.col + size.width)
        .fill(%s);
    Ok(())
}
"""
_ERASE_CALL = """            if let CellKind::Image(image) = &old.kind {
                erase_image(term, &mut self.marks, image, pos, self.size.pixels_per_cell())?;
            }
"""

_CLEAR_LOOP = """        for (pos, cell) in self.back.iter().with_position() {
            if let CellKind::Image(img) = &cell.kind {
                term.execute(TerminalCommand::ImageErase(img.clone(), Some(pos)))?;
            }
        }
"""
_CLEAR_TAIL = "        self.marks.fill(CellMark::Damaged);\n        self.back.fill(Cell::default());\n\n        Ok(())\n    }\n"
_NEW_MARK = "        let mark = if clear {\n            CellMark::Damaged\n        } else {\n            CellMark::Empty\n        };\n"
_NEW_WITH = "            marks: SurfaceOwned::new_with(size.cells, |_| mark),\n"
_RESET = "        for mark in self.marks.iter_mut() {\n            if !matches!(mark, CellMark::Damaged) {\n                *mark = CellMark::Empty;\n            }\n        }\n"
_P1 = "if old == new && self.marks.get(pos) != Some(&CellMark::Damaged) {"
_P2 = "if mark != CellMark::Damaged && (mark == CellMark::Ignored || old == new) {"
_SCAN = "                        if next == new && next_mark != CellMark::Ignored {\n                            repeats += 1;\n                        } else {\n                            break;\n                        }\n"
_FLIP = "        std::mem::swap(&mut self.front, &mut self.back);\n        self.front.clear();\n\n        Ok(())\n    }\n}\n"
_SKIP_STEP = """                    pos.col += match &new.kind {
                        CellKind::Char(character) if mark != CellMark::Ignored => {
                            character.width().unwrap_or(0).max(1)
                        }
                        _ => 1,
                    };
"""


def _second_pass_renamed():
    src = open("/repo/" + R_).read()
    i0, i1 = src.index("        let mut pos = Position::origin();\n        while pos.row < self.front.height() {"), src.index("        // Render images\n")
    old = src[i0:i1]
    new = re.sub(r"\bpos\b", "at", old)
    return [(R_, old, new)]


MUTANTS = [
    # ---- R4: helper extraction (seeded/benign C01-A) and variations -----------------------------------------------------------
    {"id": "C01-benign-mark-area-helper", "prop": "C01", "benign": True, "edits": _mark_area()},
    {"id": "C01-mark-area-helper-erase-ignored", "prop": "C01", "expect": "R4-IMAGES", "edits": _mark_area(dmg="CellMark::Ignored")},
    {"id": "C01-mark-area-helper-new-image-damaged", "prop": "C01", "expect": "R4-IMAGES", "edits": _mark_area(push="CellMark::Damaged")},
    {"id": "C01-benign-erase-image-helper", "prop": "C01", "benign": True,
     "edits": [(R_, _ERASE_OLD, _ERASE_CALL), (R_, _TS, _ERASE_FN % "CellMark::Damaged")]},
    {"id": "C01-erase-image-helper-marks-empty", "prop": "C01", "expect": "R4-IMAGES",
     "edits": [(R_, _ERASE_OLD, _ERASE_CALL), (R_, _TS, _ERASE_FN % "CellMark::Empty")]},
    # ---- R1: clear() ----------------------------------------------------------------------------------------------------------
    {"id": "C01-benign-clear-reset-helper", "prop": "C01", "benign": True,
     "edits": [(R_, _CLEAR_TAIL, "        self.reset_buffers();\n        Ok(())\n    }\n\n    fn reset_buffers(&mut self) {\n        self.marks.fill(CellMark::Damaged);\n        self.back.fill(Cell::default());\n    }\n")]},
    {"id": "C01-clear-reset-helper-no-damage", "prop": "C01", "expect": "R1-CLEAR",
     "edits": [(R_, _CLEAR_TAIL, "        self.reset_buffers();\n        Ok(())\n    }\n\n    fn reset_buffers(&mut self) {\n        self.marks.fill(CellMark::Empty);\n        self.back.fill(Cell::default());\n    }\n")]},
    {"id": "C01-benign-clear-try-for-each", "prop": "C01", "benign": True,
     "edits": [(R_, _CLEAR_LOOP, "        self.back.iter().with_position().try_for_each(|(pos, cell)| {\n            if let CellKind::Image(img) = &cell.kind {\n                term.execute(TerminalCommand::ImageErase(img.clone(), Some(pos)))?;\n            }\n            Ok::<(), Error>(())\n        })?;\n")]},
    {"id": "C01-clear-try-for-each-front", "prop": "C01", "expect": "R1-CLEAR",
     "edits": [(R_, _CLEAR_LOOP, "        self.front.iter().with_position().try_for_each(|(pos, cell)| {\n            if let CellKind::Image(img) = &cell.kind {\n                term.execute(TerminalCommand::ImageErase(img.clone(), Some(pos)))?;\n            }\n            Ok::<(), Error>(())\n        })?;\n")]},
    # ---- R2: new(term, clear) -------------------------------------------------------------------------------------------------
    {"id": "C01-benign-new-negated-if", "prop": "C01", "benign": True,
     "edits": [(R_, _NEW_MARK, "        let mark = if !clear {\n            CellMark::Empty\n        } else {\n            CellMark::Damaged\n        };\n")]},
    {"id": "C01-benign-new-match-flag", "prop": "C01", "benign": True,
     "edits": [(R_, _NEW_MARK, "        let keep = !clear;\n        let mark = match keep {\n            false => CellMark::Damaged,\n            true => CellMark::Empty,\n        };\n")]},
    {"id": "C01-new-negated-if-swapped", "prop": "C01", "expect": "R2-NEW",
     "edits": [(R_, _NEW_MARK, "        let mark = if !clear {\n            CellMark::Damaged\n        } else {\n            CellMark::Empty\n        };\n")]},
    {"id": "C01-benign-new-fill", "prop": "C01", "benign": True,
     "edits": [(R_, _NEW_MARK, "        let mut marks = SurfaceOwned::new(size.cells);\n        if clear {\n            marks.fill(CellMark::Damaged);\n        }\n"), (R_, _NEW_WITH, "            marks,\n")]},
    {"id": "C01-new-fill-when-not-clear", "prop": "C01", "expect": "R2-NEW",
     "edits": [(R_, _NEW_MARK, "        let mut marks = SurfaceOwned::new(size.cells);\n        if !clear {\n            marks.fill(CellMark::Damaged);\n        }\n"), (R_, _NEW_WITH, "            marks,\n")]},
    # ---- R1b: damage survives the per-frame reset of marks --------------------------------------------------------------------
    {"id": "C01-benign-marks-reset-ne", "prop": "C01", "benign": True,
     "edits": [(R_, _RESET, "        for mark in self.marks.iter_mut() {\n            if *mark != CellMark::Damaged {\n                *mark = CellMark::Empty;\n            }\n        }\n")]},
    {"id": "C01-benign-marks-reset-continue", "prop": "C01", "benign": True,
     "edits": [(R_, _RESET, "        for mark in self.marks.iter_mut() {\n            if *mark == CellMark::Damaged {\n                continue;\n            }\n            *mark = CellMark::Empty;\n        }\n")]},
    {"id": "C01-benign-marks-reset-match", "prop": "C01", "benign": True,
     "edits": [(R_, _RESET, "        for mark in self.marks.iter_mut() {\n            match mark {\n                CellMark::Damaged => {}\n                CellMark::Empty | CellMark::Ignored => *mark = CellMark::Empty,\n            }\n        }\n")]},
    {"id": "C01-benign-marks-reset-for-each", "prop": "C01", "benign": True,
     "edits": [(R_, _RESET, "        self.marks.iter_mut().for_each(|mark| {\n            if !matches!(mark, CellMark::Damaged) {\n                *mark = CellMark::Empty;\n            }\n        });\n")]},
    {"id": "C01-benign-marks-reset-filter", "prop": "C01", "benign": True,
     "edits": [(R_, _RESET, "        self.marks\n            .iter_mut()\n            .filter(|mark| **mark != CellMark::Damaged)\n            .for_each(|mark| *mark = CellMark::Empty);\n")]},
    {"id": "C01-marks-reset-for-each-unguarded", "prop": "C01", "expect": "R1b-MARKS-LIVE",
     "edits": [(R_, _RESET, "        self.marks.iter_mut().for_each(|mark| *mark = CellMark::Empty);\n")]},
    {"id": "C01-marks-reset-filter-ignored", "prop": "C01", "expect": "R1b-MARKS-LIVE",
     "edits": [(R_, _RESET, "        self.marks\n            .iter_mut()\n            .filter(|mark| **mark != CellMark::Ignored)\n            .for_each(|mark| *mark = CellMark::Empty);\n")]},
    {"id": "C01-marks-reset-continue-on-ignored", "prop": "C01", "expect": "R1b-MARKS-LIVE",
     "edits": [(R_, _RESET, "        for mark in self.marks.iter_mut() {\n            if *mark == CellMark::Ignored {\n                continue;\n            }\n            *mark = CellMark::Empty;\n        }\n")]},
    # ---- R3: skip tests ----------------------------------------------------------------------------------------------------------
    {"id": "C01-benign-pass1-matches", "prop": "C01", "benign": True,
     "edits": [(R_, _P1, "if old == new && !matches!(self.marks.get(pos), Some(CellMark::Damaged)) {")]},
    {"id": "C01-benign-pass1-unchanged-flag", "prop": "C01", "benign": True,
     "edits": [(R_, _P1, "let unchanged = old == new && self.marks.get(pos) != Some(&CellMark::Damaged);\n            if unchanged {")]},
    {"id": "C01-benign-pass1-damaged-flag", "prop": "C01", "benign": True,
     "edits": [(R_, _P1, "let damaged = self.marks.get(pos) == Some(&CellMark::Damaged);\n            if !damaged && old == new {")]},
    {"id": "C01-benign-pass1-same-flag", "prop": "C01", "benign": True,
     "edits": [(R_, _P1, "let same = old == new;\n            let damaged = self.marks.get(pos).copied() == Some(CellMark::Damaged);\n            if same && !damaged {")]},
    {"id": "C01-pass1-damaged-flag-tests-ignored", "prop": "C01", "expect": "R3-SKIP",
     "edits": [(R_, _P1, "let damaged = self.marks.get(pos) == Some(&CellMark::Ignored);\n            if !damaged && old == new {")]},
    {"id": "C01-pass1-damaged-flag-unused", "prop": "C01", "expect": "R3-SKIP",
     "edits": [(R_, _P1, "let damaged = self.marks.get(pos) == Some(&CellMark::Damaged);\n            if damaged || old == new {")]},
    {"id": "C01-benign-pass2-matches", "prop": "C01", "benign": True,
     "edits": [(R_, _P2, "if !matches!(mark, CellMark::Damaged) && (mark == CellMark::Ignored || old == new) {")]},
    {"id": "C01-benign-pass2-ne-cells", "prop": "C01", "benign": True,
     "edits": [(R_, _P2, "if mark != CellMark::Damaged && (mark == CellMark::Ignored || !(old != new)) {")]},
    {"id": "C01-benign-pass2-skip-flag", "prop": "C01", "benign": True,
     "edits": [(R_, _P2, "let skip = match mark {\n                    CellMark::Damaged => false,\n                    CellMark::Ignored => true,\n                    CellMark::Empty => old == new,\n                };\n                if skip {")]},
    {"id": "C01-pass2-skip-flag-damaged-compares", "prop": "C01", "expect": "R3-SKIP",
     "edits": [(R_, _P2, "let skip = match mark {\n                    CellMark::Ignored => true,\n                    CellMark::Damaged | CellMark::Empty => old == new,\n                };\n                if skip {")]},
    # ---- R5: epilogue / run_render -------------------------------------------------------------------------------------------------
    {"id": "C01-benign-flip-helper", "prop": "C01", "benign": True,
     "edits": [(R_, _FLIP, "        self.flip();\n\n        Ok(())\n    }\n\n    fn flip(&mut self) {\n        std::mem::swap(&mut self.front, &mut self.back);\n        self.front.clear();\n    }\n}\n")]},
    {"id": "C01-flip-helper-no-clear", "prop": "C01", "expect": "R5-EPILOGUE",
     "edits": [(R_, _FLIP, "        self.flip();\n\n        Ok(())\n    }\n\n    fn flip(&mut self) {\n        std::mem::swap(&mut self.front, &mut self.back);\n    }\n}\n")]},
    {"id": "C01-benign-resize-flag-local", "prop": "C01", "benign": True,
     "edits": [(T_, "renderer = TerminalRenderer::new(self, true)?;", "let repaint = true;\n                        renderer = TerminalRenderer::new(self, repaint)?;")]},
    # ---- R6: face / cursor reconciliation --------------------------------------------------------------------------------------------
    {"id": "C01-benign-face-test-negated-eq", "prop": "C01", "benign": True,
     "edits": [(R_, "                if face != new.face {\n                    face = new.face;", "                if !(face == new.face) {\n                    face = new.face;")]},
    {"id": "C01-benign-cursor-test-eq-else", "prop": "C01", "benign": True,
     "edits": [(R_, "                if cursor != pos {\n                    cursor = pos;\n                    term.execute(TerminalCommand::CursorTo(cursor))?;\n                }\n", "                if cursor == pos {\n                    // already there\n                } else {\n                    cursor = pos;\n                    term.execute(TerminalCommand::CursorTo(cursor))?;\n                }\n")]},
    # ---- R7: blank runs ----------------------------------------------------------------------------------------------------------------
    {"id": "C01-benign-scan-matches-reordered", "prop": "C01", "benign": True,
     "edits": [(R_, _SCAN, "                        if !matches!(next_mark, CellMark::Ignored) && next == new {\n                            repeats += 1;\n                        } else {\n                            break;\n                        }\n")]},
    {"id": "C01-benign-scan-early-break", "prop": "C01", "benign": True,
     "edits": [(R_, _SCAN, "                        if next_mark == CellMark::Ignored || next != new {\n                            break;\n                        }\n                        repeats += 1;\n")]},
    {"id": "C01-scan-early-break-on-damaged", "prop": "C01", "expect": "R7-RUN",
     "edits": [(R_, _SCAN, "                        if next_mark == CellMark::Damaged || next != new {\n                            break;\n                        }\n                        repeats += 1;\n")]},
    # ---- R9: wide characters --------------------------------------------------------------------------------------------------------------
    {"id": "C01-benign-walker-renamed", "prop": "C01", "benign": True, "edits": _second_pass_renamed()},
    {"id": "C01-benign-width-zero-lt", "prop": "C01", "benign": True,
     "edits": [(R_, "                if character_width == 0 {\n                    pos.col += 1;", "                if character_width < 1 {\n                    pos.col += 1;")]},
    {"id": "C01-benign-skip-step-if-let", "prop": "C01", "benign": True,
     "edits": [(R_, _SKIP_STEP, "                    let mut step = 1;\n                    if let CellKind::Char(character) = &new.kind {\n                        if mark != CellMark::Ignored {\n                            step = character.width().unwrap_or(0).max(1);\n                        }\n                    }\n                    pos.col += step;\n")]},
    {"id": "C01-skip-step-only-when-ignored", "prop": "C01", "expect": "R9-WIDE",
     "edits": [(R_, _SKIP_STEP, "                    let mut step = 1;\n                    if let CellKind::Char(character) = &new.kind {\n                        if mark == CellMark::Ignored {\n                            step = character.width().unwrap_or(0).max(1);\n                        }\n                    }\n                    pos.col += step;\n")]},
]

MUTANTS += [
    # ---- added debug assertions / reordered independent statements -------------------------------------------------------------------
    {"id": "C01-benign-debug-assert-pass1", "prop": "C01", "benign": True,
     "edits": [(R_, "            // erase and damage area under old image\n", "            debug_assert!(pos.row < self.size.cells.height && pos.col < self.size.cells.width);\n            // erase and damage area under old image\n")]},
    {"id": "C01-benign-debug-assert-pass2", "prop": "C01", "benign": True,
     "edits": [(R_, "                // skip conditions\n", "                debug_assert!(offset < self.marks.data().len());\n                // skip conditions\n")]},
    {"id": "C01-benign-epilogue-reordered", "prop": "C01", "benign": True,
     "edits": [(R_, "        self.marks.fill(CellMark::Empty);\n        self.frame_count += 1;\n        std::mem::swap(&mut self.front, &mut self.back);\n        self.front.clear();\n",
                "        std::mem::swap(&mut self.front, &mut self.back);\n        self.front.clear();\n        self.frame_count += 1;\n        self.marks.fill(CellMark::Empty);\n")]},
    {"id": "C01-benign-images-reserve", "prop": "C01", "benign": True,
     "edits": [(R_, "        self.images.clear();\n        for mark in self.marks.iter_mut() {", "        self.images.clear();\n        self.images.reserve(4);\n        for mark in self.marks.iter_mut() {")]},
]

# ---- R7: the blank-run scan written as an iterator chain / with the cell comparison in a closure / in an extracted helper ------------------
_SCAN_LOOP = ("                    let mut repeats = 1;\n"
              "                    for col in pos.col + 1..self.front.width() {\n"
              "                        let pos = Position::new(pos.row, col);\n"
              "                        let Some(next) = self.front.get(pos) else {\n"
              "                            break;\n"
              "                        };\n"
              "                        let next_mark = self.marks.get(pos).copied().unwrap_or_default();\n"
              "                        if next == new && next_mark != CellMark::Ignored {\n"
              "                            repeats += 1;\n"
              "                        } else {\n"
              "                            break;\n"
              "                        }\n"
              "                    }\n")


def _scan_chain(tail):
    return ("                    let following = (pos.col + 1..self.front.width())\n"
            "                        .map(|col| Position::new(pos.row, col))\n" + tail +
            "                    let repeats = following + 1;\n")


MUTANTS += [
    {"id": "C01-benign-scan-take-while-count", "prop": "C01", "benign": True,
     "edits": [(R_, _SCAN_LOOP, _scan_chain(
         "                        .take_while(|&next| {\n"
         "                            self.front.get(next) == Some(new)\n"
         "                                && self.marks.get(next) != Some(&CellMark::Ignored)\n"
         "                        })\n"
         "                        .count();\n"))]},
    {"id": "C01-benign-scan-take-while-mark-first", "prop": "C01", "benign": True,
     "edits": [(R_, _SCAN_LOOP, _scan_chain(
         "                        .take_while(|&next| {\n"
         "                            let mark = self.marks.get(next).copied().unwrap_or_default();\n"
         "                            !matches!(mark, CellMark::Ignored) && self.front.get(next) == Some(new)\n"
         "                        })\n"
         "                        .count();\n"))]},
    {"id": "C01-benign-scan-position-of-first-stop", "prop": "C01", "benign": True,
     "edits": [(R_, _SCAN_LOOP,
                "                    let rest = self.front.width().saturating_sub(pos.col + 1);\n"
                "                    let following = (pos.col + 1..self.front.width())\n"
                "                        .map(|col| Position::new(pos.row, col))\n"
                "                        .position(|next| {\n"
                "                            self.front.get(next) != Some(new)\n"
                "                                || self.marks.get(next) == Some(&CellMark::Ignored)\n"
                "                        })\n"
                "                        .unwrap_or(rest);\n"
                "                    let repeats = following + 1;\n")]},
    {"id": "C01-benign-scan-loop-option-eq", "prop": "C01", "benign": True,
     "edits": [(R_, _SCAN_LOOP,
                "                    let mut repeats = 1;\n"
                "                    for col in pos.col + 1..self.front.width() {\n"
                "                        let pos = Position::new(pos.row, col);\n"
                "                        if self.front.get(pos) != Some(new) || self.marks.get(pos) == Some(&CellMark::Ignored) {\n"
                "                            break;\n"
                "                        }\n"
                "                        repeats += 1;\n"
                "                    }\n")]},
    {"id": "C01-benign-scan-try-fold-counter", "prop": "C01", "benign": True,
     "edits": [(R_, _SCAN_LOOP,
                "                    let scan = (pos.col + 1..self.front.width()).try_fold(1usize, |run, col| {\n"
                "                        let pos = Position::new(pos.row, col);\n"
                "                        match (self.front.get(pos), self.marks.get(pos)) {\n"
                "                            (Some(next), mark) if next == new && mark != Some(&CellMark::Ignored) => Ok(run + 1),\n"
                "                            _ => Err(run),\n"
                "                        }\n"
                "                    });\n"
                "                    let repeats = match scan {\n"
                "                        Ok(run) | Err(run) => run,\n"
                "                    };\n")]},
    # breaking counterparts
    {"id": "C01-scan-take-while-without-mark", "prop": "C01", "expect": "R7-RUN",
     "edits": [(R_, _SCAN_LOOP, _scan_chain(
         "                        .take_while(|&next| self.front.get(next) == Some(new))\n"
         "                        .count();\n"))]},
    {"id": "C01-scan-take-while-not-damaged", "prop": "C01", "expect": "R7-RUN",
     "edits": [(R_, _SCAN_LOOP, _scan_chain(
         "                        .take_while(|&next| {\n"
         "                            self.front.get(next) == Some(new)\n"
         "                                && self.marks.get(next) != Some(&CellMark::Damaged)\n"
         "                        })\n"
         "                        .count();\n"))]},
    {"id": "C01-scan-take-while-or", "prop": "C01", "expect": "R7-RUN",
     "edits": [(R_, _SCAN_LOOP, _scan_chain(
         "                        .take_while(|&next| {\n"
         "                            self.front.get(next) == Some(new)\n"
         "                                || self.marks.get(next) != Some(&CellMark::Ignored)\n"
         "                        })\n"
         "                        .count();\n"))]},
    {"id": "C01-scan-position-stop-only-on-different", "prop": "C01", "expect": "R7-RUN",
     "edits": [(R_, _SCAN_LOOP,
                "                    let rest = self.front.width().saturating_sub(pos.col + 1);\n"
                "                    let following = (pos.col + 1..self.front.width())\n"
                "                        .map(|col| Position::new(pos.row, col))\n"
                "                        .position(|next| {\n"
                "                            self.front.get(next) != Some(new)\n"
                "                                && self.marks.get(next) == Some(&CellMark::Ignored)\n"
                "                        })\n"
                "                        .unwrap_or(rest);\n"
                "                    let repeats = following + 1;\n")]},
    {"id": "C01-scan-try-fold-counter-ignored-counted", "prop": "C01", "expect": "R7-RUN",
     "edits": [(R_, _SCAN_LOOP,
                "                    let scan = (pos.col + 1..self.front.width()).try_fold(1usize, |run, col| {\n"
                "                        let pos = Position::new(pos.row, col);\n"
                "                        match (self.front.get(pos), self.marks.get(pos)) {\n"
                "                            (Some(next), mark) if next == new && mark != Some(&CellMark::Empty) => Ok(run + 1),\n"
                "                            _ => Err(run),\n"
                "                        }\n"
                "                    });\n"
                "                    let repeats = match scan {\n"
                "                        Ok(run) | Err(run) => run,\n"
                "                    };\n")]},
]

_FRAME_DOC = "    /// Generate frame, that is issue terminal command to reconcile\n    /// back (old) and front (new) buffers.\n"


def _scan_helper(body):
    return ("    /// Number of cells of the blank run that starts at `pos`\n"
            "    fn blank_run(&self, pos: Position, new: &Cell) -> usize {\n" + body + "    }\n\n" + _FRAME_DOC)


MUTANTS += [
    {"id": "C01-benign-scan-helper-loop", "prop": "C01", "benign": True,
     "edits": [(R_, _SCAN_LOOP, "                    let repeats = self.blank_run(pos, new);\n"),
               (R_, _FRAME_DOC, _scan_helper(
                   "        let mut repeats = 1;\n"
                   "        for col in pos.col + 1..self.front.width() {\n"
                   "            let pos = Position::new(pos.row, col);\n"
                   "            let Some(next) = self.front.get(pos) else {\n"
                   "                break;\n"
                   "            };\n"
                   "            let next_mark = self.marks.get(pos).copied().unwrap_or_default();\n"
                   "            if next == new && next_mark != CellMark::Ignored {\n"
                   "                repeats += 1;\n"
                   "            } else {\n"
                   "                break;\n"
                   "            }\n"
                   "        }\n"
                   "        repeats\n"))]},
    {"id": "C01-benign-scan-helper-take-while", "prop": "C01", "benign": True,
     "edits": [(R_, _SCAN_LOOP, "                    let repeats = self.blank_run(pos, new);\n"),
               (R_, _FRAME_DOC, _scan_helper(
                   "        1 + (pos.col + 1..self.front.width())\n"
                   "            .map(|col| Position::new(pos.row, col))\n"
                   "            .take_while(|&next| self.front.get(next) == Some(new) && self.marks.get(next) != Some(&CellMark::Ignored))\n"
                   "            .count()\n"))]},
    {"id": "C01-scan-helper-take-while-without-mark", "prop": "C01", "expect": "R7-RUN",
     "edits": [(R_, _SCAN_LOOP, "                    let repeats = self.blank_run(pos, new);\n"),
               (R_, _FRAME_DOC, _scan_helper(
                   "        1 + (pos.col + 1..self.front.width())\n"
                   "            .map(|col| Position::new(pos.row, col))\n"
                   "            .take_while(|&next| self.front.get(next) == Some(new))\n"
                   "            .count()\n"))]},
]

# clear(): the back buffer may be reset by any SurfaceMut method shown (on its body) to store Default::default() in every slot
_SURF_CLEAR = "        let shape = self.shape();\n        let data = self.data_mut();\n        for row in 0..shape.height {\n            for col in 0..shape.width {\n                data[shape.offset(Position::new(row, col))] = Default::default();\n            }\n        }\n"
MUTANTS += [
    {"id": "C01-benign-clear-back-surface-clear", "prop": "C01", "benign": True,
     "edits": [("src/render.rs", "        self.back.fill(Cell::default());\n\n        Ok(())", "        debug_assert_eq!(self.marks.size(), self.back.size());\n        self.back.clear();\n\n        Ok(())")]},
    {"id": "C01-benign-clear-back-default-local", "prop": "C01", "benign": True,
     "edits": [("src/render.rs", "        self.back.fill(Cell::default());\n\n        Ok(())", "        let blank: Cell = Default::default();\n        self.back.fill(blank);\n\n        Ok(())")]},
    {"id": "C01-clear-back-surface-clear-skips-first-row", "prop": "C01", "expect": "R1-CLEAR/render::TerminalRenderer::clear/back-reset",
     "edits": [("src/render.rs", "        self.back.fill(Cell::default());\n\n        Ok(())", "        self.back.clear();\n\n        Ok(())"),
               ("src/surface.rs", _SURF_CLEAR, _SURF_CLEAR.replace("for row in 0..shape.height", "for row in 1..shape.height"))]},
    {"id": "C01-clear-back-surface-clear-not-default", "prop": "C01", "expect": "R1-CLEAR/render::TerminalRenderer::clear/back-reset",
     "edits": [("src/render.rs", "        self.back.fill(Cell::default());\n\n        Ok(())", "        self.back.clear();\n\n        Ok(())"),
               ("src/surface.rs", _SURF_CLEAR, "        let shape = self.shape();\n        let data = self.data_mut();\n        for row in 0..shape.height {\n            for col in 0..shape.width {\n                if row != col {\n                    data[shape.offset(Position::new(row, col))] = Default::default();\n                }\n            }\n        }\n")]},
    {"id": "C01-clear-front-surface-clear-instead-of-back", "prop": "C01", "expect": "R1-CLEAR/render::TerminalRenderer::clear/",
     "edits": [("src/render.rs", "        self.back.fill(Cell::default());\n\n        Ok(())", "        self.front.clear();\n\n        Ok(())")]},
    # ---- R2: the mark is chosen in an extracted helper / forwarded through temporaries (decided where the value is chosen) ------------
    {"id": "C01-benign-new-initial-mark-helper", "prop": "C01", "benign": True,
     "edits": [(R_, _NEW_MARK, "        fn initial_mark(clear: bool) -> CellMark {\n            if clear {\n                return CellMark::Damaged;\n            }\n            CellMark::Empty\n        }\n        let mark = initial_mark(clear);\n")]},
    {"id": "C01-benign-new-initial-mark-helper-match-keep", "prop": "C01", "benign": True,
     "edits": [(R_, _NEW_MARK, "        fn initial_mark(keep: bool) -> CellMark {\n            match keep {\n                true => CellMark::Empty,\n                false => CellMark::Damaged,\n            }\n        }\n        let keep = !clear;\n        let mark = initial_mark(keep);\n")]},
    {"id": "C01-benign-new-mark-forwarded", "prop": "C01", "benign": True,
     "edits": [(R_, _NEW_MARK, "        let chosen = if clear {\n            CellMark::Damaged\n        } else {\n            CellMark::Empty\n        };\n        let initial = chosen;\n        let mark = initial;\n")]},
    {"id": "C01-new-initial-mark-helper-negated-arg", "prop": "C01", "expect": "R2-NEW",
     "edits": [(R_, _NEW_MARK, "        fn initial_mark(clear: bool) -> CellMark {\n            if clear {\n                return CellMark::Damaged;\n            }\n            CellMark::Empty\n        }\n        let mark = initial_mark(!clear);\n")]},
    {"id": "C01-new-initial-mark-helper-swapped", "prop": "C01", "expect": "R2-NEW",
     "edits": [(R_, _NEW_MARK, "        fn initial_mark(clear: bool) -> CellMark {\n            if clear {\n                return CellMark::Empty;\n            }\n            CellMark::Damaged\n        }\n        let mark = initial_mark(clear);\n")]},
    {"id": "C01-new-mark-forwarded-ignored", "prop": "C01", "expect": "R2-NEW",
     "edits": [(R_, _NEW_MARK, "        let chosen = if clear {\n            CellMark::Ignored\n        } else {\n            CellMark::Empty\n        };\n        let mark = chosen;\n")]},
    {"id": "C01-benign-new-mark-overwritten-when-clear", "prop": "C01", "benign": True,
     "edits": [(R_, _NEW_MARK, "        let mut mark = CellMark::Empty;\n        if clear {\n            mark = CellMark::Damaged;\n        }\n")]},
    {"id": "C01-new-mark-overwritten-when-not-clear", "prop": "C01", "expect": "R2-NEW",
     "edits": [(R_, _NEW_MARK, "        let mut mark = CellMark::Damaged;\n        if clear {\n            mark = CellMark::Empty;\n        }\n")]},
    {"id": "C01-new-mark-overwritten-after-choice", "prop": "C01", "expect": "R2-NEW",
     "edits": [(R_, _NEW_MARK, "        let mut mark = CellMark::Empty;\n        if clear {\n            mark = CellMark::Damaged;\n        }\n        if size.cells.height > 0 {\n            mark = CellMark::Empty;\n        }\n")]},
]
