"""C19 add-on — separator protocol of hand-written list printers (`let mut first = true; if !first {sep}; item; first = false`):
after an item has been written, the flag must be cleared before it is read again, otherwise two items are
printed without a separator and the text no longer parses back (Face Display -> Face::from_str).

The flag is followed as a *cell*: the bool local of the `fmt` body itself, and — when `&mut flag` is handed to a crate-local helper
(`write_separator(f, &mut first)`, `write_item(f, &mut first, x)`, any depth, any number of callers) — the dereferenced parameter inside
that helper.  Reads, clears, separator writes and item writes are recognised in whichever body they occur; the exploration follows
the flag's value through the calls."""
import re
from ..mir import call_matches, callee_name, op_local, op_const_int, op_place, place_str
from ..flow import expr, arg_place

WRITE_RX = r"Formatter::<'a>::write_fmt$|Formatter::<'a>::write_str$|std::fmt::Write::write_(str|fmt|char)$"
MAX_HELPER_DEPTH = 4


class _Undecided(Exception):
    pass


def _is_cell(place, cell):
    kind, n = cell
    if place["l"] != n:
        return False
    if kind == "local":
        return not place["p"]
    return len(place["p"]) == 1 and place["p"][0]["k"] == "deref"


def _read_polarity(body, operand, cell, depth=0):
    """0 when the operand is the flag's value, 1 when it is its negation, None when it does not derive from the flag
    (`first`, `!first`, `first == false`, `first != true`, copies of those)"""
    if depth > 8 or operand["k"] == "const":
        return None
    p = operand["place"]
    if _is_cell(p, cell):
        return 0
    if p["p"]:
        return None
    ds = body.defs_of(p["l"])
    if len(ds) != 1 or ds[0][1] == "term":
        return None
    rv = ds[0][2]
    if rv["k"] == "use":
        return _read_polarity(body, rv["a"], cell, depth + 1)
    if rv["k"] == "un" and rv["op"] == "Not":
        r = _read_polarity(body, rv["a"], cell, depth + 1)
        return None if r is None else 1 - r
    if rv["k"] == "bin" and rv["op"] in ("Eq", "Ne"):
        for x, y in ((rv["a"], rv["b"]), (rv["b"], rv["a"])):
            c = op_const_int(y)
            if c in (0, 1):
                r = _read_polarity(body, x, cell, depth + 1)
                if r is not None:
                    flip = (c == 0) != (rv["op"] == "Ne")      # `x == false` / `x != true` negate
                    return 1 - r if flip else r
    return None


class _View:
    """what one body does with the flag cell"""

    def __init__(self, prog, body, cell):
        self.body, self.cell = body, cell
        cfg = self.cfg = body.cfg()
        self.reads = {}          # bb -> polarity
        for bb, t in body.terms():
            if t["k"] == "switch":
                pol = _read_polarity(body, t["d"], cell)
                if pol is not None:
                    self.reads[bb] = pol
        self.sets = {}           # bb -> [(stmt index, value)]
        self.unknown_store = False
        for bb, blk in enumerate(body.blocks):
            if blk.get("cleanup"):
                continue
            for si, s in enumerate(blk["stmts"]):
                if s["k"] == "assign" and _is_cell(s["place"], cell):
                    v = op_const_int(s["rv"]["a"]) if s["rv"]["k"] == "use" else None
                    if v not in (0, 1):
                        self.unknown_store = True
                    else:
                        self.sets.setdefault(bb, []).append((si, v))
        # calls that receive the cell by reference
        self.passes = {}         # bb -> (callee body, param index)
        cell_str = place_str({"l": cell[1], "p": [] if cell[0] == "local" else [{"k": "deref"}]})
        for bb, t in body.calls():
            for i, a in enumerate(t["args"]):
                if op_place(a) is None:
                    continue
                try:
                    ap = arg_place(body, t, i)
                except Exception:
                    ap = None
                if ap != cell_str:
                    continue
                ty = body.local_ty(a["place"]["l"]) or ""
                if not a["place"]["p"] and "bool" not in ty:
                    continue
                f = t["fn"]
                cpath = f.get("resolved") if f.get("resolved_local") else (f.get("path") if f.get("local") else None)
                callee = prog.body(cpath) if cpath else None
                if callee is None or len(t["args"]) != callee.arg_count:
                    raise _Undecided("flag handed to %s, which is not a crate-local function" % (callee_name(t),))
                self.passes[bb] = (callee, i + 1)
        # writes to the formatter: separator candidates are literal-only short writes guarded by a read of the flag
        self.sep, self.items = [], []
        for bb, t in body.calls():
            if not call_matches(t, WRITE_RX):
                continue
            e = expr(body, t["args"][1]) if len(t["args"]) > 1 else ""
            if re.match(r'^Arguments::from_str\(.{1,6}\)$', e) or (call_matches(t, r"write_(str|char)$") and len(e) <= 6):
                if any(cfg.dominates(r, bb) and r != bb and _edge_guard(cfg, body, r, bb) for r in self.reads):
                    self.sep.append(bb)
                    continue
            self.items.append((bb, t))
        self.item_at = {bb: (body.path, bb) for bb, t in self.items}


def run_sep(ctx, files=("src/face.rs", "src/keys.rs")):
    prog = ctx.prog
    ctx.rule("SEPARATOR", "list printers: every item write is followed by `first = false` before `first` is read again", floor=2)
    found = 0
    for b in prog.bodies:
        if b.file not in files or b.name != "fmt":
            continue
        # candidate flags: bool user variables that are only ever assigned constants in this body (helpers may assign them through `&mut`)
        for l, nm in b.varnames.items():
            if b.local_ty(l) != "bool":
                continue
            defs = b.defs_of(l)
            consts = [(d, op_const_int(d[2]["a"])) for d in defs if d[1] != "term" and d[2]["k"] == "use" and op_const_int(d[2]["a"]) in (0, 1)]
            if len(consts) != len(defs) or not defs:
                continue
            # either polarity: `first` (starts true, cleared to false) or `need_separator` (starts false, set to true).  The initial value is
            # the one assigned in the block that dominates all other assignments; the other value means "an item has been written".
            cfg0 = b.cfg()
            inits = [d for d, v in consts if all(cfg0.dominates(d[0], d2[0]) for d2, _ in consts)]
            if len(inits) != 1:
                continue
            v0 = [v for d, v in consts if d is inits[0]][0]
            if any(v == v0 for d, v in consts if d is not inits[0]):
                continue
            init_bb = inits[0][0]
            views = {}

            def view(body, cell):
                k = (body.path, cell)
                if k not in views:
                    views[k] = _View(prog, body, cell)
                    if views[k].unknown_store:
                        raise _Undecided("non-constant store to the flag in %s" % body.path)
                return views[k]

            bad_items = {}       # item id -> where the stale read happens
            memo = {}

            def walk(body, cell, start, fv, pend, depth, skip_before=None):
                """explore `body` from block `start` with flag value fv and pending item `pend` (an item written while the flag still had its
                initial value); follows at every read of the flag only the edge its value selects.  Returns the (fv, pend) pairs at the returns."""
                key = (body.path, cell, start, fv, pend)
                if key in memo:
                    return memo[key]
                memo[key] = set()       # recursion guard
                if depth > MAX_HELPER_DEPTH:
                    raise _Undecided("flag helpers nested deeper than %d" % MAX_HELPER_DEPTH)
                vw = view(body, cell)
                outs = set()
                seen = set()
                todo = [(start, fv, pend)]
                while todo:
                    st = todo.pop()
                    if st in seen:
                        continue
                    seen.add(st)
                    bb, fv1, pend1 = st
                    blk = body.blocks[bb]
                    if blk.get("cleanup"):
                        continue
                    if bb in vw.sets:
                        fv1 = vw.sets[bb][-1][1]
                        if fv1 != v0:
                            pend1 = None
                    t = blk["term"]
                    states = [(fv1, pend1)]
                    if bb in vw.item_at and fv1 == v0 and (body is not b or cfg0.dominates(init_bb, bb)):
                        states = [(fv1, vw.item_at[bb])]
                    elif bb in vw.passes:
                        callee, pi = vw.passes[bb]
                        states = sorted(walk(callee, ("arg", pi), 0, fv1, pend1, depth + 1), key=repr)
                        # the flag may have been set back to its initial value only by an explicit store, which `walk` reports
                    succ = body.succs(bb)
                    if t["k"] == "return":
                        outs.update(states)
                        continue
                    for fv2, pend2 in states:
                        nxt = succ
                        if bb in vw.reads:
                            if fv2 == v0 and pend2 is not None:
                                bad_items.setdefault(pend2, (body.path, bb))
                            val = fv2 if vw.reads[bb] == 0 else 1 - fv2
                            nxt = [t["targets"][t["vals"].index(str(val))]] if str(val) in t["vals"] else [t["otherwise"]]
                        for s2 in nxt:
                            todo.append((s2, fv2, pend2))
                memo[key] = outs
                return outs

            try:
                walk(b, ("local", l), init_bb, v0, None, 0)
            except _Undecided as e:
                ctx.note("SEPARATOR: flag `%s` of %s not followed: %s" % (nm, b.path, e))
                continue
            if not any(v.sep for v in views.values()) or not any(v.reads for v in views.values()):
                continue
            found += 1
            # items of the fmt body first (stable numbering), then those written inside helpers
            ordered = [views[(b.path, ("local", l))]] + [v for k, v in sorted(views.items(), key=lambda kv: kv[0][0]) if k != (b.path, ("local", l))]
            k = 0
            done = set()
            for vw in ordered:
                for bb, t in vw.items:
                    if vw.body is b and not cfg0.dominates(init_bb, bb):
                        continue      # header written before the flag exists
                    iid = vw.item_at[bb]
                    if iid in done:
                        continue
                    done.add(iid)
                    k += 1
                    bad = bad_items.get(iid)
                    ctx.instance("SEPARATOR", {"fn": b.path, "flag": nm, "item_write_in": vw.body.path, "item_write_line": t["line"], "flag_cleared_before_next_read": bad is None})
                    if bad is not None:
                        ctx.violation("SEPARATOR", b.path, "item-%d" % k,
                                      "after the item written at line %d the separator flag `%s` is not cleared before it is tested again: the next item is printed without a separator and the text does not parse back" % (t["line"], nm),
                                      sites=["%s:%d" % (vw.body.file, t["line"])])
    if found == 0:
        ctx.anchor("SEPARATOR", "list-printer-idiom", "no `first`-flag list printer recognised in %s" % (files,))


def _edge_guard(cfg, body, read_bb, target):
    """target is reachable from exactly one side of the read's switch"""
    t = body.blocks[read_bb]["term"]
    sides = set(t["targets"] + [t["otherwise"]])
    hit = [s for s in sides if target == s or target in cfg.reachable_from(s, removed={read_bb})]
    return len(hit) == 1
