"""Inductive struct invariants: assume at the entry of every method that receives `self`, prove at
every successful exit, at every call that hands `self` to a sibling method, at every literal
construction; the fields may only be written inside the struct's own methods.  Established invariants
become entry facts of the obligation analysis (sa/oblrules.py)."""
import re
from .discharge import Engine
from .flow import resolve_place, ok_return_blocks
from .mir import callee_name, op_local
from .absint import V, INF


def methods_of(prog, struct):
    out = []
    for b in prog.bodies:
        if b.kind != "AssocFn" or not b.impl_self:
            continue
        if re.sub(r"<.*$", "", b.impl_self) != struct:
            continue
        out.append(b)
    return out


def self_key(body):
    """key prefix of the receiver: '(*_1)' for &self / &mut self, '_1' for self by value, None otherwise"""
    if body.arg_count < 1:
        return None
    ty = body.local_ty(1)
    base = re.sub(r"<.*$", "", body.impl_self or "")
    if re.match(r"^&('\w+ )?(mut )?%s" % re.escape(base), ty):
        return "(*_1)"
    if ty.startswith(base):
        return "_1"
    return None


def entry_for(body, inv):
    k = self_key(body)
    if k is None:
        return None
    e = {"fields": {"%s.%s" % (k, f): itv for f, itv in inv.get("fields", {}).items()},
         "field_diffs": [("%s.%s" % (k, a), "%s.%s" % (k, b), d) for a, b, d in inv.get("diffs", [])]}
    return e


def holds(st, key, inv, an):
    """(ok, why) — does the invariant hold for the struct stored at `key` in state st"""
    for f, (lo, hi) in inv.get("fields", {}).items():
        v = st.vals.get("%s.%s" % (key, f))
        if v is None:
            return False, "field %s unknown" % f
        it = st.itv(v)
        if it[0] < lo or it[1] > hi:
            # try relational bound against other fields
            return False, "%s in [%s,%s] not within [%s,%s]" % (f, it[0], it[1], lo, hi)
    for a, b, d in inv.get("diffs", []):
        va, vb = st.vals.get("%s.%s" % (key, a)), st.vals.get("%s.%s" % (key, b))
        ta, tb = (st.term(va) if va else None), (st.term(vb) if vb else None)
        if ta is None or tb is None:
            return False, "%s/%s unknown" % (a, b)
        tb2 = ("c", tb[1] + d) if tb[0] == "c" else ("s", tb[1], tb[2] + d)
        if not st.le(ta, tb2):
            return False, "%s <= %s + %d not provable" % (a, b, d)
    return True, ""


def establish(ctx, rule, struct, inv, check_err_exits=False):
    """returns (established: bool, entry_facts: {body path: entry})"""
    prog = ctx.prog
    ms = methods_of(prog, struct)
    ctx.rule(rule, "inductive invariant of %s: %s" % (struct, inv), floor=2)
    if not ms:
        ctx.anchor(rule, struct)
        return False, {}
    eng = Engine(prog, invariants={struct: inv})
    ok_all = True
    entries = {}
    fields = set(inv.get("fields", {}))
    # 1. writers outside the methods
    mpaths = {b.path for b in ms}
    for b in prog.bodies:
        root = b.closure_root or b.path
        if b.path in mpaths or root in mpaths:
            continue
        for i, si, s in b.assigns():
            rp = resolve_place(b, s["place"])
            m = re.search(r"\.(\w+)$", rp)
            if m and m.group(1) in fields:
                # type of the base must be the struct
                base_l = s["place"]["l"]
                tys = b.local_ty(base_l)
                if struct.split("::")[-1] in tys:
                    ok_all = False
                    ctx.violation(rule, b.path, "outside-write-" + m.group(1), "%s.%s is written outside the methods of %s: the invariant cannot be maintained locally" % (struct, m.group(1), struct), sites=["%s:%d" % (b.file, s["line"])])
    # 2. literal constructions
    n_lit = 0
    for b in prog.bodies:
        for bb, blk in enumerate(b.blocks):
            for si, s in enumerate(blk["stmts"]):
                if s["k"] != "assign":
                    continue
                rv = s["rv"]
                if rv["k"] == "agg" and rv["ak"] == "adt" and rv["adt"] == struct:
                    n_lit += 1
                    an = eng.analyze(b.path, entry_for(b, inv) if b in ms else None)
                    st = an.in_states.get(bb)
                    if st is None:
                        continue
                    st = st.copy()
                    for sj, s2 in enumerate(blk["stmts"][:si + 1]):
                        if s2["k"] == "assign":
                            an.do_assign(st, s2, bb, sj)
                    key = an.pkey(st, s["place"])
                    ok, why = holds(st, key, inv, an)
                    ctx.instance(rule, {"construction_in": b.path, "holds": ok, "why": why})
                    if not ok:
                        ok_all = False
                        ctx.violation(rule, b.path, "literal", "%s is constructed violating the invariant: %s" % (struct, why), sites=["%s:%d" % (b.file, s["line"])])
    if n_lit == 0:
        ctx.anchor(rule, struct + "/literal")
        ok_all = False
    # 3. methods preserve it
    for b in ms:
        k = self_key(b)
        if k is None:
            continue
        e = entry_for(b, inv)
        entries[b.path] = e
        an = eng.analyze(b.path, e)
        mutable = b.local_ty(1).startswith("&mut") or b.local_ty(1).startswith("&'") and " mut " in b.local_ty(1)[:12]
        # calls handing self to sibling methods
        for bb, t in b.calls():
            cal = prog.body(callee_name(t) or "")
            if cal is None or cal not in ms or not t["args"]:
                continue
            st = an.call_args.get(bb)
            if st is None:
                continue
            a0 = an.eval_op(st.copy(), t["args"][0], "q")
            if a0.ref_to != k and not (a0.ref_to or "").startswith(k):
                continue
            ok, why = holds(st, k, inv, an)
            ctx.instance(rule, {"fn": b.path, "at_call": cal.path, "line": t["line"], "holds": ok, "why": why})
            if not ok:
                ok_all = False
                ctx.violation(rule, b.path, "call-" + cal.name, "invariant of %s may not hold when %s is called: %s" % (struct, cal.path, why), sites=["%s:%d" % (b.file, t["line"])])
        if not mutable or k != "(*_1)":
            continue
        exits = set(ok_return_blocks(b))
        rty = b.local_ty(0)
        if not exits or not re.match(r"^std::(result::Result|option::Option)", rty) or check_err_exits:
            exits = set(an.cfg.returns)
        for r in sorted(exits):
            st = an.results.get(r)
            if st is None:
                continue
            ok, why = holds(st, k, inv, an)
            ctx.instance(rule, {"fn": b.path, "at_exit_block": r, "holds": ok, "why": why})
            if not ok:
                ok_all = False
                ctx.violation(rule, b.path, "exit", "%s does not re-establish the invariant of %s on a successful return: %s" % (b.path, struct, why), sites=[b.loc])
    return ok_all, entries
