"""C09 — text writing stays inside its surface, ignores chunking (structural part), shares one
layout routine between measuring and writing."""
import re
from ..mir import call_matches, callee_name, op_local
from ..flow import expr, resolve_place, arg_place, writes_to_field, TRANSPARENT_CALLS
from ..mir import op_place

CLAIM = {
    "text": "Structural clauses of C09 decided on MIR: (a) TerminalWriter touches the surface only through the bounds-checked get_mut(pos) and one fill "
            "loop whose row/col ranges are 0..width and start.row..min(cursor.row+1, height) over shape.offset (containment, with C07's Shape lemma); "
            "(b) the three io::Write adapters feed the written buffer through one Cursor to a stateful decoder kept in `self`, forward every decoded "
            "item, and return cursor.position() (or buf.len() only where the sink reported it is full) — with C03's fold theorem the produced cells "
            "do not depend on how bytes are split across writes; (c) measuring (Text/str layout) and writing (put_cell) call the same Cell::layout "
            "routine with wraps and width taken from corresponding sources; (c') WRAPS-AGREE: every put_cell reached from Text::render / str::render "
            "(followed through closures and helper bodies such as put_text/put_char) goes to a writer whose wraps flag - the constant of TerminalWriter::new, "
            "replaced by with_wraps/set_wraps - is the same term the paired layout hands to Cell::layout (self.wraps for Text, true for str); "
            "floor 6 = 4 anchors (new/writer default, with_wraps, TerminalWriter::set_wraps, Text::wraps) + 1 put_cell per render. NOT decided: that every printable cell appears exactly once in reading order.",
    "technique": "MIR who-calls / who-writes rules, symbolic def-chasing templates, dominator analysis of return values",
    "design_ref": "DESIGN.md §5 C09",
}

WRITERS = [
    ("<render::Utf8CellWriter<W> as std::io::Write>::write", r"^<decoder::Utf8Decoder as decoder::Decoder>::decode$", True),
    ("<render::TTYCellWriter<W> as std::io::Write>::write", r"^<decoder::TTYCommandDecoder as decoder::Decoder>::decode$", False),
    ("<render::TerminalWriter<'_> as std::io::Write>::write", r"^<decoder::Utf8Decoder as decoder::Decoder>::decode$", True),
]
# ---- wraps state of a writer value (WRAPS-AGREE) ---------------------------------------------------------------
# CellWrite methods that configure/inspect a writer but emit nothing
WR_CONFIG = r"CellWrite::(face|set_face|wraps|set_wraps|with_wraps|with_face|by_ref|scope)$|<.* as render::CellWrite>::(face|set_face|wraps|set_wraps)$"
# value builders that hand the same writer (or an adapter that owns it) on: the wraps state is the receiver's
WR_PASS = r"CellWrite::(with_(?!wraps$)\w+|utf8_writer|tty_writer)$"
WR_NEW = r"TerminalSurfaceExt>?::writer$|^render::TerminalWriter::<[^<>]*>::new$"
WR_LEAF = r"CellWrite::put_cell$|<.* as render::CellWrite>::put_cell$"
UNKNOWN = "?"


def _wr_root(b, place, depth=0):
    """root object a writer operand denotes: ('arg', n) / ('up', k) closure capture / ('call', local) / ('unk', local)"""
    l, proj = place["l"], place["p"]
    if depth > 30:
        return ("unk", l)
    fields = [e for e in proj if e["k"] == "field"]
    if 0 < l <= b.arg_count:
        if b.kind == "Closure" and l == 1 and fields:
            return ("up", fields[0]["i"]) if len(fields) == 1 else ("unk", l)
        return ("unk", l) if fields else ("arg", l)
    if fields:
        return ("unk", l)
    ds = b.defs_of(l)
    if len(ds) != 1:
        return ("unk", l)
    bb, si, rv = ds[0]
    if si == "term":
        if (any(call_matches(rv, p) for p in TRANSPARENT_CALLS) or call_matches(rv, r"CellWrite::by_ref$")) and rv["args"] and op_place(rv["args"][0]):
            return _wr_root(b, op_place(rv["args"][0]), depth + 1)
        return ("call", l)
    if rv["k"] == "use" and op_place(rv["a"]):
        return _wr_root(b, rv["a"]["place"], depth + 1)
    if rv["k"] == "ref":
        return _wr_root(b, rv["place"], depth + 1)
    return ("unk", l)


class WrapsFlow:
    """Follows writer values from an entry body through closures and callee bodies and records, for every
    put_cell reached, the canonical term of the wraps flag the receiving writer was configured with
    (terms are in the entry body's vocabulary: arg1 = the entry's self)."""

    def __init__(self, prog, default):
        self.prog = prog
        self.default = default
        self.leaves = []      # (state, chain, site)
        self.opaque = []

    # -- terms ---------------------------------------------------------------------------------
    def term(self, b, operand, tenv):
        e = expr(b, operand)
        if tenv is not None:
            def sub(m):
                k = m.group(0)
                if k in tenv:
                    return tenv[k]
                k1 = m.group(1)
                if k1 in tenv:
                    return tenv[k1] + (m.group(2) or "")
                return "~" + k
            e = re.sub(r"(?<![\w~])(arg\d+)(\.\d+)?\b", sub, e)
        # Text::wraps(x) reads x.wraps (checked as an anchor by the caller)
        for _ in range(4):
            e2 = re.sub(r"CellWrite::wraps\(([^()]*)\)", r"\1.wraps", e)
            if e2 == e:
                break
            e = e2
        return e

    # -- state ---------------------------------------------------------------------------------
    def state(self, b, place, site, env, tenv, depth=0):
        """wraps term of the writer `place` denotes at block `site`, None when it is not a tracked writer"""
        root = _wr_root(b, place)
        base = None
        if root[0] in ("arg", "up"):
            base = env.get(root)
        elif root[0] == "call" and depth < 12:
            bb, si, t = b.defs_of(root[1])[0]
            if call_matches(t, r"CellWrite::with_wraps$") and len(t["args"]) == 2:
                inner = op_place(t["args"][0])
                if inner is not None and self.state(b, inner, bb, env, tenv, depth + 1) is not None:
                    base = self.term(b, t["args"][1], tenv)
            elif call_matches(t, WR_NEW):
                base = self.default
            elif call_matches(t, WR_PASS) and t["args"] and op_place(t["args"][0]):
                base = self.state(b, op_place(t["args"][0]), bb, env, tenv, depth + 1)
        if base is None:
            return None
        # set_wraps on the same object: the latest call dominating the site decides
        cfg = b.cfg()
        sets = []
        for bb, t in b.calls():
            if call_matches(t, r"CellWrite::set_wraps$|<.* as render::CellWrite>::set_wraps$") and len(t["args"]) == 2 and op_place(t["args"][0]):
                if _wr_root(b, op_place(t["args"][0])) == root:
                    sets.append((bb, t))
        dom = [(bb, t) for bb, t in sets if bb != site and cfg.dominates(bb, site)]
        for bb, t in sets:
            if (bb, t) not in dom and bb != site and site in cfg.reachable_from(bb):
                return UNKNOWN
        if dom:
            last = [x for x in dom if all(cfg.dominates(y[0], x[0]) for y in dom)]
            if len(last) != 1:
                return UNKNOWN
            return self.term(b, last[0][1]["args"][1], tenv)
        return base

    # -- walk ----------------------------------------------------------------------------------
    def scan(self, b, env, tenv, chain=(), stack=()):
        if b.path in stack or len(stack) > 8:
            return
        stack = stack + (b.path,)
        chain = chain + (b.path,)
        # closures capturing a writer
        for i, si, s in b.assigns():
            rv = s["rv"]
            if rv["k"] == "agg" and rv["ak"] == "closure":
                cenv, ctenv = {}, {}
                for k, f in enumerate(rv["fields"]):
                    ctenv["arg1.%d" % k] = self.term(b, f, tenv)
                    fp = op_place(f)
                    if fp is not None:
                        st = self.state(b, fp, i, env, tenv)
                        if st is not None:
                            cenv[("up", k)] = st
                cb = self.prog.body(rv["def"])
                if cenv and cb is not None:
                    self.scan(cb, cenv, ctenv, chain, stack)
        for bb, t in b.calls():
            wargs = {}
            for k, a in enumerate(t["args"]):
                ap = op_place(a)
                if ap is None:
                    continue
                st = self.state(b, ap, bb, env, tenv)
                if st is not None:
                    wargs[k] = st
            if not wargs or call_matches(t, WR_CONFIG):
                continue
            nm = callee_name(t) or "<indirect>"
            site = "%s:%d" % (b.file, t["line"])
            if call_matches(t, WR_LEAF):
                if 0 in wargs:
                    self.leaves.append((wargs[0], chain, site))
                continue
            cb = self.prog.body(t["fn"].get("resolved") or "") or self.prog.body(t["fn"].get("path") or "")
            if cb is not None and cb.kind != "Closure":
                cenv = {("arg", k + 1): st for k, st in wargs.items()}
                ctenv = {"arg%d" % (k + 1): self.term(b, a, tenv) for k, a in enumerate(t["args"])}
                self.scan(cb, cenv, ctenv, chain, stack)
            elif re.search(r"CellWrite::|Write::write", nm):
                self.opaque.append((sorted(wargs.values())[0], chain + (nm,), site, nm))


SURF_MUTATORS = r"^surface::SurfaceMut::(get_mut|data_mut|iter_mut|fill|fill_with|clear|insert|set|view_mut|as_mut)$|<.* as surface::SurfaceMut>::(get_mut|data_mut|iter_mut|fill|fill_with|clear|insert|set|view_mut|as_mut)$"


def run(ctx):
    prog = ctx.prog
    ctx.explanation = CLAIM["text"]
    ctx.trust("SHAPE-INV", "in-window positions of a Shape built by the audited constructors map to distinct in-bounds offsets (C07 U3)")

    # ---------------- (b) writer fold ------------------------------------------------------------------
    ctx.rule("WRITER-FOLD", "io::Write adapters: one Cursor over buf, decoder state in self, every item forwarded, returns cursor.position()", floor=9)
    for path, dec_rx, may_fill in WRITERS:
        b = prog.body(path)
        if b is None:
            ctx.anchor("WRITER-FOLD", path)
            continue
        cfg = b.cfg()
        curs = [(bb, t) for bb, t in b.calls() if call_matches(t, r"^std::io::Cursor::<T>::new$")]
        decs = [(bb, t) for bb, t in b.calls() if call_matches(t, dec_rx)]
        ok1 = len(curs) == 1 and expr(b, curs[0][1]["args"][0]) == "arg2" and len(decs) == 1 \
            and expr(b, decs[0][1]["args"][0]) == "arg1.decoder" and expr(b, decs[0][1]["args"][1]) == "Cursor::new(arg2)"
        ctx.instance("WRITER-FOLD", {"fn": path, "hyp": "single Cursor::new(buf) handed to self.decoder.decode", "ok": ok1})
        if not ok1:
            ctx.violation("WRITER-FOLD", path, "cursor-decoder", "write() must feed `buf` through exactly one Cursor to the decoder stored in self (state must survive between writes)", sites=[b.loc])
            continue
        # other reads of buf
        other = []
        for bb, t in b.calls():
            if t is curs[0][1]:
                continue
            for a in t["args"]:
                if expr(b, a) == "arg2" and not call_matches(t, r"slice::<impl \[T\]>::len$"):
                    other.append(callee_name(t))
        # returns
        rets = []
        for i, si, s in b.assigns():
            if s["place"]["l"] == 0 and not s["place"]["p"] and s["rv"]["k"] == "agg" and s["rv"].get("variant") == "Ok":
                rets.append((i, expr(b, s["rv"]["fields"][0]), s))
        pos_rets = [r for r in rets if r[1] == "(Cursor::position(Cursor::new(arg2)) as usize)"]
        len_rets = [r for r in rets if r[1] == "slice::len(arg2)"]
        bad_rets = [r for r in rets if r not in pos_rets and r not in len_rets]
        ok2 = bool(pos_rets) and not bad_rets and not other
        # len(buf) return only where the sink said it is full: dominated by the false edge of put_char's result
        ok3 = True
        for i, e, s in len_rets:
            ok3 = False
            if not may_fill:
                break
            for bb, t in b.calls():
                if call_matches(t, r"render::CellWrite::put_char$"):
                    tt = b.blocks[t["t"]]["term"]
                    if tt["k"] == "switch" and tt["vals"] == ["0"] and cfg.edge_dominates(t["t"], tt["targets"][0], i):
                        ok3 = True
        ctx.instance("WRITER-FOLD", {"fn": path, "hyp": "returns cursor.position(); buf.len() only on the sink-full edge", "returns": [r[1] for r in rets], "ok": ok2 and ok3})
        if not (ok2 and ok3):
            ctx.violation("WRITER-FOLD", path, "return-value", "write() reports a byte count other than the bytes handed to the decoder (returns %s, other readers of buf %s): a caller's retry would duplicate or drop bytes at chunk borders" % ([r[1] for r in rets], other), sites=[b.loc])
        # every decoded item is forwarded: the Continue payload reaches a CellWrite call on every path of the Some edge (TTY: selected variants)
        fwd = [(bb, t) for bb, t in b.calls() if call_matches(t, r"render::CellWrite::(put_char|put_image|set_face|put_cell|put_glyph)$")]
        ok4 = bool(fwd)
        if may_fill and fwd:
            # the loop body is: decode -> Some(ch) -> put_char(ch)
            ok4 = all("Decoder::decode(arg1.decoder, Cursor::new(arg2))" in expr(b, t["args"][1]) for bb, t in fwd)
        ctx.instance("WRITER-FOLD", {"fn": path, "hyp": "decoded items are forwarded to the cell sink", "sinks": sorted({callee_name(t).split('::')[-1] for bb, t in fwd}), "ok": ok4})
        if not ok4:
            ctx.violation("WRITER-FOLD", path, "forward", "decoded items are not forwarded to the CellWrite sink", sites=[b.loc])

    # ---------------- (a) containment ---------------------------------------------------------------------
    ctx.rule("CONTAIN", "TerminalWriter mutates its surface only via get_mut(pos) and the cursor-fill loop over shape.offset within 0..width x start.row..min(cursor.row+1,height)", floor=3)
    tw_bodies = [b for b in prog.bodies if (b.impl_self or "").startswith("render::TerminalWriter") or b.path.startswith("render::TerminalWriter")]
    muts = []
    for b in tw_bodies:
        for bb, t in b.calls():
            if call_matches(t, SURF_MUTATORS) and t["args"] and expr(b, t["args"][0]) in ("arg1.surf", "arg2"):
                muts.append((b, bb, t))
    allowed = {("<render::TerminalWriter<'_> as render::CellWrite>::put_cell", "get_mut"),
               ("<render::TerminalWriter<'_> as render::CellWrite>::put_cell", "data_mut"),
               ("render::TerminalWriter::<'a>::new", "as_mut")}
    for b, bb, t in muts:
        nm = callee_name(t).split("::")[-1]
        ok = (b.path, nm) in allowed
        ctx.instance("CONTAIN", {"fn": b.path, "op": nm, "allowed": ok})
        if not ok:
            ctx.violation("CONTAIN", b.path, nm, "TerminalWriter mutates its surface through %s outside the audited sites" % nm, sites=["%s:%d" % (b.file, t["line"])])
    pc = prog.body("<render::TerminalWriter<'_> as render::CellWrite>::put_cell")
    if pc is None:
        ctx.anchor("CONTAIN", "TerminalWriter::put_cell")
    else:
        idx = []
        for bb, t in pc.terms():
            if t["k"] == "assert" and t["msg"]["kind"] == "BoundsCheck":
                idx.append((bb, t, expr(pc, t["msg"]["index"]), expr(pc, t["msg"]["len"])))
        pat = re.compile(r"^Shape::offset\((?P<sh>.*?), Position::new\(range::next\(IntoIterator::into_iter\(Range\{start: (?P<r0>.*?), end: (?P<r1>.*?)\}\)\)@Some\.0, range::next\(IntoIterator::into_iter\(Range\{start: 0, end: (?P<w>.*?)\}\)\)@Some\.0\)\)$")
        n = 0
        for bb, t, ie, le in idx:
            if "Shape::offset" not in ie:
                continue
            n += 1
            m = pat.match(ie)
            ok = bool(m) and m.group("w") == m.group("sh") + ".width" and re.match(r"^cmp::min\(Add\(arg1\.cursor\.row, 1\), %s\.height\)$" % re.escape(m.group("sh")), m.group("r1")) is not None \
                and "SurfaceMut::data_mut(arg1.surf)" in le and "shape(arg1.surf)" in m.group("sh")
            ctx.instance("CONTAIN", {"fn": pc.path, "index": ie[:200], "len": le[:80], "ok": ok})
            if not ok:
                ctx.violation("CONTAIN", pc.path, "fill-loop", "the cursor-fill loop indexes the surface data outside rows start..min(cursor.row+1, height) x cols 0..width: %s" % ie[:200], sites=["%s:%d" % (pc.file, t["line"])])
        if n == 0:
            ctx.anchor("CONTAIN", "put_cell/fill-loop")
        # get_mut receives the position returned by Cell::layout
        gm = [(bb, t) for bb, t in pc.calls() if call_matches(t, r"SurfaceMut::get_mut$")]
        okg = len(gm) == 1 and re.match(r"^Cell::layout\(.*\)@Some\.0$", expr(pc, gm[0][1]["args"][1])) is not None
        ctx.instance("CONTAIN", {"fn": pc.path, "get_mut_position": expr(pc, gm[0][1]["args"][1])[:100] if gm else None, "ok": okg})
        if not okg:
            ctx.violation("CONTAIN", pc.path, "get_mut-pos", "the written cell is not addressed by the position Cell::layout returned", sites=[pc.loc])

    # ---------------- (c) shared layout routine -------------------------------------------------------------
    ctx.rule("SHARED-LAYOUT", "Cell::layout is the only cell placement routine: called by put_cell (writing) and the Text/str layout closures (measuring) with corresponding arguments", floor=3)
    callers = {}
    for b in prog.bodies:
        for bb, t in b.calls():
            if call_matches(t, r"^render::Cell::layout$"):
                up = {}
                if b.kind == "Closure":
                    parent = prog.body(b.j.get("closure_parent") or "") or prog.body(b.closure_root)
                    if parent is not None:
                        for i, si, s in parent.assigns():
                            rv = s["rv"]
                            if rv["k"] == "agg" and rv["ak"] == "closure" and rv["def"] == b.path:
                                for k, f in enumerate(rv["fields"]):
                                    up["arg1.%d" % k] = expr(parent, f)
                args = []
                for a in t["args"]:
                    e = expr(b, a)
                    for k in sorted(up, key=len, reverse=True):
                        e = e.replace(k, up[k])
                    args.append(e)
                callers[b.path] = args
    exp = {
        "<render::TerminalWriter<'_> as render::CellWrite>::put_cell": {"width": r"^TerminalWriter::size\(arg1\)\.width$", "wraps": r"^arg1\.wraps$"},
        "<view::text::Text as view::View>::layout::{closure#0}": {"width": r"max\(\)?.*width|\.max.*width|width", "wraps": r"wraps"},
        "view::text::<impl view::View for str>::layout::{closure#0}": {"width": r"width", "wraps": r"^1$"},
    }
    for p, args in sorted(callers.items()):
        e = exp.get(p)
        ctx.instance("SHARED-LAYOUT", {"caller": p, "args": [a[:70] for a in args], "expected_caller": e is not None})
        if e is None:
            ctx.violation("SHARED-LAYOUT", p, "caller", "Cell::layout is called from an unaudited place: measuring and writing may diverge", sites=[])
            continue
        if not re.search(e["width"], args[2]) or not re.search(e["wraps"], args[3]):
            ctx.violation("SHARED-LAYOUT", p, "args", "Cell::layout is called with width=%s wraps=%s (expected %s / %s)" % (args[2], args[3], e["width"], e["wraps"]), sites=[])
    for p in exp:
        if p not in callers:
            ctx.violation("SHARED-LAYOUT", p, "missing", "%s no longer calls Cell::layout: text measuring and text writing use different routines" % p, sites=[])

    # ---------------- (c') the writer a view renders through is configured with the wraps flag its layout measured with -----
    ctx.rule("WRAPS-AGREE", "every put_cell reached from a text view's render goes to a writer whose wraps flag is the term its layout passed to Cell::layout "
             "(default of TerminalWriter::new, with_wraps/set_wraps, followed through closures and helper bodies)", floor=6)
    default = None
    nb = prog.body("render::TerminalWriter::<'a>::new") or prog.one(r"^render::TerminalWriter::<[^<>]*>::new$")
    if nb is not None:
        for i, si, s in nb.assigns():
            rv = s["rv"]
            if rv["k"] == "agg" and rv["ak"] == "adt" and rv["adt"] == "render::TerminalWriter" and "wraps" in (rv.get("fnames") or []) and s["place"]["l"] == 0:
                default = expr(nb, rv["fields"][rv["fnames"].index("wraps")])
    wb = prog.one(r"TerminalSurfaceExt>::writer$")
    ok_new = default is not None and re.match(r"^\d+$", default) is not None and wb is not None \
        and expr(wb, {"k": "copy", "place": {"l": 0, "p": []}}).startswith("TerminalWriter::new(")
    ctx.instance("WRAPS-AGREE", {"anchor": "TerminalWriter::new / TerminalSurfaceExt::writer start with a constant wraps flag", "default": default, "ok": ok_new})
    if not ok_new:
        ctx.anchor("WRAPS-AGREE", "TerminalWriter::new/wraps-default")
    # with_wraps(self, w) == { self.set_wraps(w); self }  and  TerminalWriter::set_wraps stores w into self.wraps (the field put_cell hands to Cell::layout)
    ww = prog.body("render::CellWrite::with_wraps")
    ok_ww = False
    if ww is not None:
        sc = [(bb, t) for bb, t in ww.calls() if call_matches(t, r"CellWrite::set_wraps$")]
        ok_ww = len(sc) == 1 and expr(ww, sc[0][1]["args"][0]) == "arg1" and expr(ww, sc[0][1]["args"][1]) == "arg2" \
            and expr(ww, {"k": "copy", "place": {"l": 0, "p": []}}) == "arg1" and len(list(ww.calls())) == 1
    ctx.instance("WRAPS-AGREE", {"anchor": "with_wraps(self, w) = set_wraps(w); self", "ok": ok_ww})
    if not ok_ww:
        ctx.anchor("WRAPS-AGREE", "CellWrite::with_wraps")
    sw = prog.body("<render::TerminalWriter<'_> as render::CellWrite>::set_wraps")
    ok_sw = False
    if sw is not None:
        rc = [(bb, t) for bb, t in sw.calls()]
        ok_sw = len(rc) == 1 and call_matches(rc[0][1], r"^std::mem::replace$") and arg_place(sw, rc[0][1], 0) == "(*_1).wraps" and expr(sw, rc[0][1]["args"][1]) == "arg2" \
            and not [x for x in writes_to_field(sw, r"\.wraps") if x[1] != "term"]
    ctx.instance("WRAPS-AGREE", {"anchor": "TerminalWriter::set_wraps stores its argument in self.wraps", "ok": ok_sw})
    if not ok_sw:
        ctx.anchor("WRAPS-AGREE", "TerminalWriter::set_wraps")
    tw = prog.body("<view::text::Text as render::CellWrite>::wraps")
    ok_tw = tw is not None and expr(tw, {"k": "copy", "place": {"l": 0, "p": []}}) == "arg1.wraps"
    ctx.instance("WRAPS-AGREE", {"anchor": "Text::wraps() returns self.wraps (terms CellWrite::wraps(x) are read as x.wraps)", "ok": ok_tw})
    if not ok_tw:
        ctx.anchor("WRAPS-AGREE", "Text::wraps")
    for lp, largs in sorted(callers.items()):
        lb = prog.body(lp)
        root = prog.body(lb.closure_root) if (lb is not None and lb.kind == "Closure") else lb
        if root is None or root.impl_trait != "view::View" or root.name != "layout":
            continue
        rpath = re.sub(r"::layout$", "::render", root.path)
        rb = prog.body(rpath)
        if rb is None:
            ctx.anchor("WRAPS-AGREE", rpath)
            continue
        want = largs[3]
        wf = WrapsFlow(prog, default if ok_new else UNKNOWN)
        wf.scan(rb, {}, None)
        used = wf.leaves + [(st, ch, site) for st, ch, site, nm in wf.opaque]
        if not used:
            ctx.violation("WRAPS-AGREE", rpath, "no-writer", "no put_cell on a writer built by surf.writer(ctx)/TerminalWriter::new is reached from render: the cells its layout measured are not written through an audited path", sites=[rb.loc])
            continue
        for st, ch, site in used:
            ok = st == want
            ctx.instance("WRAPS-AGREE", {"render": rpath, "layout_wraps": want, "writer_wraps": st, "via": [c.split("::")[-1] if not c.endswith("}") else "::".join(c.split("::")[-2:]) for c in ch[1:]], "ok": ok})
            if not ok:
                ctx.violation("WRAPS-AGREE", rpath, "wraps",
                              "render writes cells (via %s) through a writer whose wraps flag is `%s`, while layout measured the same cells with wraps=`%s`: "
                              "with the two disagreeing, a line longer than the width is wrapped into rows that layout assigned to the following lines (or the reverse), "
                              "so cells inside the right edge are overwritten or pushed out" % (" -> ".join(c.split("::")[-1] for c in ch) or "?", st, want), sites=[rb.loc, site])

    # ---------------- (d) measuring a glyph fallback == writing it --------------------------------------------------
    ctx.rule("MEASURE-FALLBACK", "Cell::size measures a fallback glyph as the sum of the same per-character width that a single Char cell gets", floor=2)
    cs = prog.body("render::Cell::size")
    if cs is None:
        ctx.anchor("MEASURE-FALLBACK", "Cell::size")
    else:
        char_w = None
        for bb, t in cs.calls():
            if call_matches(t, r"^terminal::Size::new$") and expr(cs, t["args"][0]) == "1":
                e = expr(cs, t["args"][1])
                if "@Char.0" in e:
                    char_w = re.sub(r"arg1\.kind@Char\.0", "C", e)
        sums = [(bb, t) for bb, t in cs.calls() if call_matches(t, r"Iterator::sum$")]
        ok = False
        cl_w = None
        if char_w and len(sums) == 1:
            e = expr(cs, sums[0][1]["args"][0])
            m = re.match(r"^Iterator::map\(str::chars\(Glyph::fallback_str\(arg1\.kind@Glyph\.0\)\), closure:(\{closure#\d+\})\[\]\)$", e)
            if m:
                cb = prog.body("render::Cell::size::" + m.group(1))
                if cb is not None:
                    cl_w = re.sub(r"\barg2\b", "C", expr(cb, {"k": "copy", "place": {"l": 0, "p": []}}))
                    ok = cl_w == char_w
        ctx.instance("MEASURE-FALLBACK", {"char_width": char_w, "fallback_per_char_width": cl_w, "agree": ok})
        ctx.instance("MEASURE-FALLBACK", {"fallback_is_sum_over_chars": len(sums) == 1})
        if not ok:
            ctx.violation("MEASURE-FALLBACK", cs.path, "fallback-width", "a glyph without glyph support is measured differently from how its fallback characters are written one by one (char width %s vs per-char %s): layout and render disagree for wide/zero-width characters" % (char_w, cl_w), sites=[cs.loc])

    # ---------------- (e) the sink-full signal ------------------------------------------------------------------------
    ctx.rule("SINK-FULL", "TerminalWriter::put_cell returns false only where get_mut(pos) found no cell (or from the recursive fallback)", floor=1)
    if pc is not None:
        cfg = pc.cfg()
        gm = [(bb, t) for bb, t in pc.calls() if call_matches(t, r"SurfaceMut::get_mut$")]
        none_edge = None
        if len(gm) == 1:
            nb = gm[0][1]["t"]
            tt = pc.blocks[nb]["term"]
            if tt["k"] == "switch":
                if "0" in tt["vals"]:
                    none_edge = (nb, tt["targets"][tt["vals"].index("0")])
                elif tt["vals"] == ["1"]:
                    none_edge = (nb, tt["otherwise"])
        falses = []
        others = []
        for i, si, s_ in pc.assigns():
            if s_["place"]["l"] == 0 and not s_["place"]["p"]:
                if s_["rv"]["k"] == "use" and s_["rv"]["a"]["k"] == "const":
                    if s_["rv"]["a"]["c"].get("int") == "0":
                        falses.append((i, s_))
                else:
                    others.append((i, s_))
        for bb, t in pc.calls():
            if t["dest"]["l"] == 0 and not t["dest"]["p"]:
                others.append((bb, t))
        ok = none_edge is not None and bool(falses) and all(cfg.edge_dominates(none_edge[0], none_edge[1], i) for i, _ in falses)
        ok_other = all((x.get("k") == "call" and call_matches(x, r"Iterator::all$")) for i, x in others)
        ctx.instance("SINK-FULL", {"false_returns": len(falses), "on_get_mut_none_edge": ok, "other_non_constant_returns": len(others), "only_recursive_fallback": ok_other})
        if not (ok and ok_other):
            ctx.violation("SINK-FULL", pc.path, "false-return", "put_cell can report `false` (sink full: the io::Write adapters then discard the rest of the buffer) on a path where the surface is not exhausted", sites=[pc.loc])
