"""Bit provenance over src.json expression trees (DESIGN §4 "Bit provenance").

For an expression built from

    <<  >>  |  &  ^          (shift amounts must be integer constants)
    +                        only when the possibly-set bits of the operands are disjoint (then it is `|`)
    * 2^k   / 2^k   % 2^k    read as shift-left (no set bit may be lost) / shift-right / mask
    e as T,  T::from(e)      T one of u8 u16 u32 u64 u128 usize i8..isize char bool (usize = 64 bit)
    *e  &e                   (transparent)
    !c  -c                   on constants only
    names, `a.b`, `name[<int literal>]`   looked up in `env`
    integer / byte / char literals

every bit of the result is either the constant 0 or 1, or one bit of one source symbol.  The
analysis is exact for this operator set; anything else raises `BitflowError` (callers fail closed).

Values
------
A *provenance* is a list of `width` bits, **LSB first**; a bit is `0`, `1` or `(symbol, bit_index)`.

    sym("s0", 8)              -> [("s0",0) .. ("s0",7)]
    sym("q1", 8, valbits=6)   -> a u8 whose value is known to be < 64: bits 6,7 are constant 0
    const(0x3f, 8)            -> [1,1,1,1,1,1,0,0]

Environment
-----------
`env` maps the *key* of an operand expression (see `key_of`: `s0`, `self.size`, `chunk[2]`; `*x` and
`&x` have the key of `x`) to
  * a provenance list (unsigned, width = len),
  * a `Val(bits, signed)` (for signed sources), or
  * a Python int (an untyped constant, takes its width from the context like a Rust literal).

API
---
    provenance(expr, env, width=None) -> list of bits
        width=None: the width inferred from the operand types (error for a bare untyped constant);
        width=N: must agree with the inferred width (an untyped constant is materialised at N).
    evaluate(expr, env) -> Val | Flex      (the typed result; Flex = untyped constant)
    width_of(expr, env) -> int | None
    key_of(expr) -> str | None
    bind_let(stmt, env) -> [names]         `let x = e;`, `let x: T = e;`, `let [a, b, _] = arr;`,
                                           `let (a, b) = (e1, e2);` — extends env in place
    sym, const, zext(bits, width), concat(parts)   (concat: first part is least significant)
    const_value(bits) -> int | None,  possible_mask(bits) -> int,  support(bits) -> set of source bits
    fanout(list_of_provenances) -> {(sym,bit): [(out_index, out_bit), ...]}
    injective_in(list_of_provenances, symbols) -> (ok, missing, duplicated)
        ok iff every bit of every listed symbol (dict name->width) reaches exactly one output bit
    render(bits) -> "s0[1:0] s1[7:4]"      MSB first, runs merged, constants as 0b..
    render_map({name: bits}) -> {name: rendered}   (evidence helper)

Reused by: base64 regrouping (C14), UTF-8 assembly, SGR mouse fields, FaceAttrs packing, kitty
placement id.
"""

TYPES = {
    "u8": (8, False), "u16": (16, False), "u32": (32, False), "u64": (64, False), "u128": (128, False),
    "usize": (64, False),
    "i8": (8, True), "i16": (16, True), "i32": (32, True), "i64": (64, True), "i128": (128, True),
    "isize": (64, True),
    "char": (32, False), "bool": (1, False),
}


class BitflowError(Exception):
    """expression outside the supported operator set / not representable as per-bit provenance"""


class Val:
    """typed value: bits LSB first, signedness of its Rust type"""
    __slots__ = ("bits", "signed")

    def __init__(self, bits, signed=False):
        self.bits = list(bits)
        self.signed = signed

    @property
    def width(self):
        return len(self.bits)

    def __repr__(self):
        return "Val(%s%d: %s)" % ("i" if self.signed else "u", self.width, render(self.bits))


class Flex:
    """untyped integer constant (Rust literal without suffix / Python int in env)"""
    __slots__ = ("v",)

    def __init__(self, v):
        self.v = int(v)

    def __repr__(self):
        return "Flex(%d)" % self.v


# ---- constructors / small helpers ------------------------------------------------------------
def sym(name, width, valbits=None):
    vb = width if valbits is None else valbits
    return [(name, i) if i < vb else 0 for i in range(width)]


def const(value, width):
    value &= (1 << width) - 1
    return [(value >> i) & 1 for i in range(width)]


def zext(bits, width):
    bits = list(bits)
    if len(bits) >= width:
        return bits[:width]
    return bits + [0] * (width - len(bits))


def concat(parts):
    out = []
    for p in parts:
        out += list(p)
    return out


def const_value(bits):
    v = 0
    for i, b in enumerate(bits):
        if b == 1:
            v |= 1 << i
        elif b != 0:
            return None
    return v


def possible_mask(bits):
    m = 0
    for i, b in enumerate(bits):
        if b != 0:
            m |= 1 << i
    return m


def support(bits):
    return {b for b in bits if isinstance(b, tuple)}


def fanout(provs):
    out = {}
    for oi, bits in enumerate(provs):
        for bi, b in enumerate(bits):
            if isinstance(b, tuple):
                out.setdefault(b, []).append((oi, bi))
    return out


def injective_in(provs, symbols):
    fo = fanout(provs)
    missing = []
    dup = []
    for name, w in sorted(symbols.items()):
        for i in range(w):
            n = len(fo.get((name, i), []))
            if n == 0:
                missing.append((name, i))
            elif n > 1:
                dup.append((name, i))
    return (not missing and not dup), missing, dup


def render(bits):
    """MSB first; runs of one symbol with consecutive indices are merged; constants as 0b.. (long
    zero runs as 0{n})"""
    out = []
    i = len(bits) - 1
    while i >= 0:
        b = bits[i]
        if isinstance(b, tuple):
            s, hi = b
            lo = hi
            j = i - 1
            while j >= 0 and isinstance(bits[j], tuple) and bits[j][0] == s and bits[j][1] == lo - 1:
                lo -= 1
                j -= 1
            out.append("%s[%d]" % (s, hi) if hi == lo else "%s[%d:%d]" % (s, hi, lo))
            i = j
        else:
            j = i
            txt = ""
            while j >= 0 and not isinstance(bits[j], tuple):
                txt += str(bits[j])
                j -= 1
            if len(txt) > 8 and set(txt) == {"0"}:
                out.append("0{%d}" % len(txt))
            else:
                out.append("0b" + txt)
            i = j
    return " ".join(out)


def render_map(named):
    return {k: render(v) for k, v in named.items()}


# ---- keys ------------------------------------------------------------------------------------
def _lit_int(e):
    if e.get("k") == "lit" and e.get("t") in ("int", "byte", "char"):
        return int(e["v"])
    return None


def key_of(e):
    """env key of an operand expression, or None"""
    k = e.get("k")
    if k == "path":
        return e["p"]
    if k == "field":
        b = key_of(e["e"])
        return None if b is None else "%s.%s" % (b, e["name"])
    if k == "index":
        b = key_of(e["e"])
        i = _lit_int(e["i"])
        return None if b is None or i is None else "%s[%d]" % (b, i)
    if k == "ref":
        return key_of(e["e"])
    if k == "un" and e["op"] == "*":
        return key_of(e["e"])
    return None


# ---- evaluation ------------------------------------------------------------------------------
def _text(e):
    try:
        from .src import expr_text
        return expr_text(e)
    except Exception:
        return "<%s>" % e.get("k")


def _as_val(x):
    if isinstance(x, Val):
        return x
    if isinstance(x, Flex):
        return x
    if isinstance(x, bool):
        return Val([1 if x else 0], False)
    if isinstance(x, int):
        return Flex(x)
    if isinstance(x, (list, tuple)):
        return Val(list(x), False)
    raise BitflowError("env entry of unsupported kind: %r" % (x,))


def _materialise(f, width, signed):
    if not signed and f.v < 0:
        raise BitflowError("negative constant %d in an unsigned context" % f.v)
    if f.v >= (1 << width) or f.v < -(1 << (width - 1)):
        raise BitflowError("constant %d does not fit %d bits" % (f.v, width))
    return Val(const(f.v, width), signed)


def _unify(l, r, what):
    if isinstance(l, Flex) and isinstance(r, Flex):
        return l, r
    if isinstance(l, Flex):
        l = _materialise(l, r.width, r.signed)
    elif isinstance(r, Flex):
        r = _materialise(r, l.width, l.signed)
    if l.width != r.width or l.signed != r.signed:
        raise BitflowError("operand types differ in %s: %s%d vs %s%d" % (
            what, "i" if l.signed else "u", l.width, "i" if r.signed else "u", r.width))
    return l, r


def _shift_amount(r, what):
    if isinstance(r, Flex):
        return r.v
    v = const_value(r.bits)
    if v is None:
        raise BitflowError("shift amount is not a constant in %s" % what)
    return v


def _pow2(r, what):
    v = r.v if isinstance(r, Flex) else const_value(r.bits)
    if v is None or v <= 0 or v & (v - 1):
        raise BitflowError("right operand of %s is not a constant power of two" % what)
    return v.bit_length() - 1


def _shl(l, k, what, lossless=False):
    w = l.width
    if k < 0 or k >= w:
        raise BitflowError("shift amount %d out of range for %d-bit value in %s" % (k, w, what))
    if lossless:
        for b in l.bits[w - k:]:
            if b != 0:
                raise BitflowError("`*` may overflow (a possibly-set bit is shifted out) in %s" % what)
        if l.signed and k and l.bits[w - k - 1] != 0:
            raise BitflowError("`*` may overflow into the sign bit in %s" % what)
    return Val([0] * k + l.bits[:w - k], l.signed)


def _shr(l, k, what):
    w = l.width
    if k < 0 or k >= w:
        raise BitflowError("shift amount %d out of range for %d-bit value in %s" % (k, w, what))
    fill = l.bits[-1] if l.signed else 0
    return Val(l.bits[k:] + [fill] * k, l.signed)


def _bitop(op, a, b, what):
    if op == "|":
        if a == 0:
            return b
        if b == 0:
            return a
        if a == 1 or b == 1:
            return 1
        if a == b:
            return a
        raise BitflowError("`|` of two different source bits %s and %s in %s" % (a, b, what))
    if op == "&":
        if a == 0 or b == 0:
            return 0
        if a == 1:
            return b
        if b == 1:
            return a
        if a == b:
            return a
        raise BitflowError("`&` of two different source bits %s and %s in %s" % (a, b, what))
    if op == "^":
        if a == 0:
            return b
        if b == 0:
            return a
        if a == b:
            return 0
        if a == 1 and b == 1:
            return 0
        raise BitflowError("`^` yields a negated or mixed bit (%s ^ %s) in %s" % (a, b, what))
    raise AssertionError(op)


_PY = {"|": lambda a, b: a | b, "&": lambda a, b: a & b, "^": lambda a, b: a ^ b, "+": lambda a, b: a + b,
       "*": lambda a, b: a * b, "<<": lambda a, b: a << b, ">>": lambda a, b: a >> b}


def _tdiv(a, b):
    q = abs(a) // abs(b)
    return q if (a < 0) == (b < 0) else -q


def evaluate(e, env):
    """typed result (`Val`) or untyped constant (`Flex`) of expression e under env"""
    k = e.get("k")
    what = _text(e)
    if k == "lit":
        t = e.get("t")
        if t == "int":
            suf = e.get("suffix") or ""
            if suf:
                if suf not in TYPES:
                    raise BitflowError("literal suffix %s not supported in %s" % (suf, what))
                w, s = TYPES[suf]
                return _materialise(Flex(int(e["v"])), w, s)
            return Flex(int(e["v"]))
        if t == "byte":
            return Val(const(int(e["v"]), 8), False)
        if t == "char":
            return Val(const(int(e["v"]), 32), False)
        if t == "bool":
            return Val([1 if e["v"] in (True, "true", 1) else 0], False)
        raise BitflowError("literal of kind %s is not an integer: %s" % (t, what))
    if k in ("path", "field", "index", "ref") or (k == "un" and e["op"] == "*"):
        key = key_of(e)
        if key is not None and key in env:
            return _as_val(env[key])
        if k == "ref" or k == "un":
            return evaluate(e["e"], env)
        raise BitflowError("unknown operand `%s` (no symbol bound)" % what)
    if k == "un":
        v = evaluate(e["e"], env)
        if e["op"] == "-":
            if isinstance(v, Flex):
                return Flex(-v.v)
            raise BitflowError("negation of a non-constant in %s" % what)
        if e["op"] == "!":
            if isinstance(v, Flex):
                raise BitflowError("`!` of an untyped constant (width unknown) in %s" % what)
            c = const_value(v.bits)
            if c is None:
                raise BitflowError("`!` of source bits is not representable in %s" % what)
            return Val(const(~c, v.width), v.signed)
        raise BitflowError("unary operator %s not supported in %s" % (e["op"], what))
    if k == "cast":
        ty = e["ty"].replace(" ", "")
        if ty not in TYPES:
            raise BitflowError("cast to %s not supported in %s" % (ty, what))
        w, s = TYPES[ty]
        v = evaluate(e["e"], env)
        if isinstance(v, Flex):
            return _materialise(v, w, s) if v.v >= 0 or s else Val(const(v.v, w), s)
        return _convert(v, w, s)
    if k == "call":
        f = e["f"]
        if f.get("k") == "path" and f["p"].endswith("::from") and len(e["args"]) == 1:
            ty = f["p"][:-len("::from")]
            if ty in TYPES:
                w, s = TYPES[ty]
                v = evaluate(e["args"][0], env)
                if isinstance(v, Flex):
                    return _materialise(v, w, s)
                if v.width > w or (v.signed and not s):
                    raise BitflowError("%s::from is not a lossless widening here: %s" % (ty, what))
                return _convert(v, w, s)
        raise BitflowError("call not supported: %s" % what)
    if k == "bin":
        op = e["op"]
        if op in ("<<", ">>"):
            l = evaluate(e["l"], env)
            r = evaluate(e["r"], env)
            n = _shift_amount(r, what)
            if isinstance(l, Flex):
                if n < 0:
                    raise BitflowError("negative shift in %s" % what)
                return Flex(_PY[op](l.v, n))
            return _shl(l, n, what) if op == "<<" else _shr(l, n, what)
        if op in ("|", "&", "^", "+", "*", "/", "%"):
            l = evaluate(e["l"], env)
            r = evaluate(e["r"], env)
            if isinstance(l, Flex) and isinstance(r, Flex):
                if op == "/":
                    if r.v == 0:
                        raise BitflowError("division by zero in %s" % what)
                    return Flex(_tdiv(l.v, r.v))
                if op == "%":
                    if r.v == 0:
                        raise BitflowError("division by zero in %s" % what)
                    return Flex(l.v - r.v * _tdiv(l.v, r.v))
                return Flex(_PY[op](l.v, r.v))
            l, r = _unify(l, r, what)
            if op in ("|", "&", "^"):
                return Val([_bitop(op, a, b, what) for a, b in zip(l.bits, r.bits)], l.signed)
            if op == "+":
                for a, b in zip(l.bits, r.bits):
                    if a != 0 and b != 0:
                        raise BitflowError("`+` of operands with overlapping possibly-set bits (carry possible) in %s" % what)
                return Val([a if b == 0 else b for a, b in zip(l.bits, r.bits)], l.signed)
            if op == "*":
                cl = const_value(l.bits)
                cr = const_value(r.bits)
                if cr is None and cl is not None:
                    l, r, cr = r, l, cl
                if cr is None:
                    raise BitflowError("`*` of two non-constants in %s" % what)
                if cr == 0:
                    return Val([0] * l.width, l.signed)
                return _shl(l, _pow2(r, "`*` in " + what), what, lossless=True)
            if op in ("/", "%"):
                n = _pow2(r, "`%s` in %s" % (op, what))
                if l.signed and l.bits[-1] != 0:
                    raise BitflowError("`%s` of a possibly negative value is not a shift/mask in %s" % (op, what))
                if op == "/":
                    return Val(l.bits[n:] + [0] * n, l.signed)
                return Val(l.bits[:n] + [0] * (l.width - n), l.signed)
        raise BitflowError("binary operator `%s` is outside the bit-provenance operator set: %s" % (op, what))
    raise BitflowError("expression kind `%s` is outside the bit-provenance operator set: %s" % (k, what))


def _convert(v, w, s):
    if w <= v.width:
        return Val(v.bits[:w], s)
    fill = v.bits[-1] if v.signed else 0
    return Val(v.bits + [fill] * (w - v.width), s)


def width_of(e, env):
    v = evaluate(e, env)
    return None if isinstance(v, Flex) else v.width


def provenance(e, env, width=None):
    v = evaluate(e, env)
    if isinstance(v, Flex):
        if width is None:
            raise BitflowError("untyped constant %d needs an explicit width" % v.v)
        return _materialise(v, width, v.v < 0).bits
    if width is not None and v.width != width:
        raise BitflowError("expression `%s` has width %d, expected %d" % (_text(e), v.width, width))
    return list(v.bits)


# ---- let chains ------------------------------------------------------------------------------
def bind_let(stmt, env):
    """Extend env by one `let` statement; returns the bound names. Patterns: identifier (optional
    type annotation must be an integer type of the inferred width), slice/tuple pattern of
    identifiers and `_` over an operand with element entries `key[i]` in env, or over a literal
    array/tuple expression."""
    if stmt.get("k") != "let" or stmt.get("init") is None or stmt.get("else") is not None:
        raise BitflowError("not a plain let statement")
    pat = stmt["pat"]
    init = stmt["init"]
    pk = pat.get("k")
    if pk == "ident" and not pat.get("sub"):
        v = evaluate(init, env)
        ty = (stmt.get("ty") or "").replace(" ", "")
        if ty:
            if ty not in TYPES:
                raise BitflowError("let type %s not supported" % ty)
            w, s = TYPES[ty]
            if isinstance(v, Flex):
                v = _materialise(v, w, s)
            elif v.width != w:
                raise BitflowError("let %s: annotated width %d differs from inferred %d" % (pat["name"], w, v.width))
        env[pat["name"]] = v.v if isinstance(v, Flex) else v
        return [pat["name"]]
    if pk in ("slice", "tuple"):
        elems = pat["elems"]
        vals = None
        if init.get("k") in ("array", "tuple") and len(init["elems"]) == len(elems):
            vals = [evaluate(x, env) for x in init["elems"]]
        else:
            key = key_of(init)
            if key is None:
                raise BitflowError("destructuring of `%s` not understood" % _text(init))
            vals = []
            for i in range(len(elems)):
                kk = "%s[%d]" % (key, i) if pk == "slice" else "%s.%d" % (key, i)
                vals.append(_as_val(env[kk]) if kk in env else None)
        names = []
        for p, v in zip(elems, vals):
            if p.get("k") == "wild":
                continue
            if p.get("k") != "ident" or p.get("sub"):
                raise BitflowError("pattern element not understood")
            if v is None:
                raise BitflowError("no symbol bound for an element of `%s`" % _text(init))
            env[p["name"]] = v.v if isinstance(v, Flex) else v
            names.append(p["name"])
        return names
    raise BitflowError("let pattern `%s` not understood" % pk)
