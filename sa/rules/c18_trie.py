"""C18 (trie part) — structural necessary conditions of the chord trie; the behaviour over registration
histories is NOT decided, only these shapes:
  T1 the trie (`KeyMap.mapping`) is mutated only inside register (+ its helper/closures), clear and the constructors;
  T2 lookup_state: pushes the key first; on Failure clears the pending chord and pushes the key again before the retry;
     on Success clears the pending chord before returning the value;
  T3 register: the last key is inserted as Ok(value) into the map reached through register_rec over the prefix, and
     register_rec replaces a bound prefix (Ok) by a fresh sub-map (supersession)."""
import re
from ..mir import call_matches, callee_name, op_local
from ..flow import expr, value_variants

MUTATORS = r"BTreeMap::<K, V, A>::(insert|entry|clear|remove|retain|append|extend|pop_first|pop_last|get_mut|iter_mut|values_mut|first_entry|last_entry|split_off|remove_entry)$|<std::collections::BTreeMap<K, V, A> as std::iter::Extend"


def variant_edge(body, t_call, variant_idx):
    """block entered when the enum returned by the call has the given discriminant"""
    dest = t_call["dest"]["l"]
    for bb, t in body.terms():
        if t["k"] != "switch":
            continue
        l = op_local(t["d"])
        for d in body.defs_of(l) if l is not None else []:
            if d[1] != "term" and d[2]["k"] == "discr" and d[2]["place"]["l"] == dest and not d[2]["place"]["p"]:
                if str(variant_idx) in t["vals"]:
                    return bb, t["targets"][t["vals"].index(str(variant_idx))]
                return bb, t["otherwise"]
    return None, None


def run_trie(ctx):
    prog = ctx.prog
    ctx.rule("TRIE-WRITERS", "KeyMap.mapping is mutated only by register (+helper/closures), clear and constructors", floor=3)
    allowed = re.compile(r"^keys::KeyMap::<V>::(register|register::register_rec|register::register_rec::\{closure#\d+\}|clear|new)$|^<keys::KeyMap<V> as std::default::Default>::default$")
    n = 0
    for b in prog.bodies:
        if not b.file.endswith("keys.rs"):
            continue
        for bb, t in b.calls():
            if call_matches(t, MUTATORS) and t["args"] and ".mapping" in expr(b, t["args"][0]):
                n += 1
                ok = allowed.match(b.path) is not None
                ctx.instance("TRIE-WRITERS", {"fn": b.path, "op": callee_name(t).split("::")[-1], "allowed": ok})
                if not ok:
                    ctx.violation("TRIE-WRITERS", b.path, callee_name(t).split("::")[-1],
                                  "%s mutates KeyMap.mapping directly: bindings must go through register(), which supersedes prefixes/extensions and merges sub-maps" % b.path,
                                  sites=["%s:%d" % (b.file, t["line"])])
    if n == 0:
        ctx.anchor("TRIE-WRITERS", "mapping-mutators")

    ctx.rule("TRIE-STATE", "lookup_state: push(key) first; Failure -> clear + push(key) before retry; Success -> clear before returning", floor=3)
    ls = prog.body("keys::KeyMap::<V>::lookup_state")
    if ls is None:
        ctx.anchor("TRIE-STATE", "lookup_state")
    else:
        cfg = ls.cfg()
        lk = [(bb, t) for bb, t in ls.calls() if call_matches(t, r"^keys::KeyMap::<V>::lookup$")]
        pushes = [(bb, t) for bb, t in ls.calls() if call_matches(t, r"Vec::<T, A>::push$") and expr(ls, t["args"][0]) == "arg2" and expr(ls, t["args"][1]) == "arg3"]
        clears = [bb for bb, t in ls.calls() if call_matches(t, r"Vec::<T, A>::clear$") and expr(ls, t["args"][0]) == "arg2"]
        other = [(bb, t) for bb, t in ls.calls() if re.search(r"Vec::<T, A>::(remove|truncate|pop|drain|retain|swap_remove|insert|split_off)$", callee_name(t) or "") and expr(ls, t["args"][0]) == "arg2"]
        ok0 = len(lk) == 1 and bool(pushes) and any(cfg.dominates(pb, lk[0][0]) for pb, _ in pushes)
        ctx.instance("TRIE-STATE", {"push_key_before_lookup": ok0, "other_state_ops": [callee_name(t).split("::")[-1] for bb, t in other]})
        if not ok0:
            ctx.violation("TRIE-STATE", ls.path, "push-first", "the key is not appended to the pending chord before the lookup", sites=[ls.loc])
        for bb, t in other:
            ctx.violation("TRIE-STATE", ls.path, callee_name(t).split("::")[-1], "the pending chord is edited with %s: after a failed lookup the state must be reset to the new key alone" % callee_name(t).split("::")[-1], sites=["%s:%d" % (ls.file, t["line"])])
        if lk:
            ev = prog.enum_variants("keys::KeyMapResult") or []
            idx = {n: d for n, d in ev}
            loops = cfg.loops()
            head = None
            for h, body_ in loops.items():
                if lk[0][0] in body_ and (head is None or len(body_) < len(loops[head])):
                    head = h
            for var, need_push in (("Failure", True), ("Success", False)):
                sw, tgt = variant_edge(ls, lk[0][1], idx.get(var))
                ok = False
                if tgt is not None:
                    exits = ([head] if head is not None else []) + cfg.returns
                    ok = cfg.must_pass(clears, start=tgt, exits=exits)[0]
                    if ok and need_push:
                        # after the clear, the key is pushed again before the retry
                        ok = all(cfg.must_pass([pb for pb, _ in pushes if pb in cfg.reachable_from(cb)], start=cb, exits=exits)[0] for cb in clears if cb in cfg.reachable_from(tgt) and not _only_success(cfg, cb, ls, lk[0][1], idx))
                ctx.instance("TRIE-STATE", {"edge": var, "clears_pending_chord": ok})
                if not ok:
                    ctx.violation("TRIE-STATE", ls.path, var.lower(), "on %s the pending chord is not reset (clear%s) before %s" % (var, " + push(key)" if need_push else "", "the retry" if need_push else "returning"), sites=[ls.loc])

    ctx.rule("TRIE-REGISTER", "register: insert(last key, Ok(value)) into register_rec(prefix); register_rec turns a bound prefix into a sub-map", floor=2)
    rg = prog.body("keys::KeyMap::<V>::register")
    rr = prog.body("keys::KeyMap::<V>::register::register_rec")
    if rg is None or rr is None:
        ctx.anchor("TRIE-REGISTER", "register/register_rec")
    else:
        ins = [(bb, t) for bb, t in rg.calls() if call_matches(t, r"BTreeMap::<K, V, A>::insert$")]
        ok = len(ins) == 1 and re.match(r"^register::register_rec\(arg1, slice::split_last\(arg2\)@Some\.0\.1\)\.mapping$", expr(rg, ins[0][1]["args"][0])) is not None \
            and expr(rg, ins[0][1]["args"][1]) == "slice::split_last(arg2)@Some.0.0" and expr(rg, ins[0][1]["args"][2]) == "Result::Ok(arg3)"
        ctx.instance("TRIE-REGISTER", {"insert": [expr(rg, a)[:80] for a in ins[0][1]["args"]] if ins else None, "ok": ok})
        if not ok:
            ctx.violation("TRIE-REGISTER", rg.path, "insert", "register does not insert Ok(value) under the last key of the chord in the map reached through the prefix", sites=[rg.loc])
        # closure#0 of register_rec: if r.is_ok() { *r = Err(KeyMap::new()) }
        c0 = prog.body("keys::KeyMap::<V>::register::register_rec::{closure#0}")
        ok2 = False
        if c0 is not None:
            for i, si, s in c0.assigns():
                if s["rv"]["k"] == "agg" and s["rv"].get("variant") == "Err" and "KeyMap::new" in expr(c0, s["rv"]["fields"][0]):
                    ok2 = any(call_matches(t, r"Result::<T, E>::is_ok$") for bb, t in c0.calls())
        ctx.instance("TRIE-REGISTER", {"bound_prefix_replaced_by_submap": ok2})
        if not ok2:
            ctx.violation("TRIE-REGISTER", rr.path, "supersede", "register_rec does not replace a bound prefix (Ok) by a fresh sub-map: extensions of a bound chord would not supersede it", sites=[rr.loc])


def _only_success(cfg, cb, body, lookup_call, idx):
    sw, tgt = variant_edge(body, lookup_call, idx.get("Success"))
    return tgt is not None and cfg.edge_dominates(sw, tgt, cb)
