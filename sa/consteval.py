"""Tiny denotational evaluator over src.json expression trees (shared helper for table/bit-layout rules).

This is NOT running the repository: it gives the *source expressions* of small pure functions (bit packing,
operator impls, match tables, index arithmetic) their value on concrete inputs, so that a rule can enumerate a
finite domain exhaustively (e.g. all 256x256 raw `FaceAttrs` pairs) and compare two source definitions.
Anything outside the supported subset raises `Unsupported` (rules turn that into an anchor = fail closed).

API
---
    it = Interp(src)                         # src = sa.src.Src
    it.call(impl_self, name, [args], impl_trait=None)   -> value   user fn by impl type ("FaceAttrs") / None for free fns
    it.call_item(fn_item, impl_self, [args])            -> value   call a given fn item (from src.fn(..))
    it.eval(expr, frame)                                -> value   frame = Frame(locals dict, self_ty, file)
    it.const(impl_self_or_None, name, file=None)        -> value   const/static initialiser
    it.binop(op, a, b)                                  -> value   `a op b` incl. user operator impls (BitOr ...)
    it.assign_op(op, obj, b)                            ->  None   `obj op= b` through the user XAssign impl (obj mutated in place)
    it.match_pat(pat, value, binds)                     -> bool    pattern test (+ bindings)
    it.extern_fns[name] = pyfunc(args) ; it.extern_methods[name] = pyfunc(recv, args)   # models for std / dependency items
    it.steps                                                       # evaluated nodes (for evidence)

Values
------
    int / float / bool / str / bytes ; () unit ; tuple ; list (arrays, slices) ;
    EnumV(ty, name) user unit variants ; StructV(ty, fields) user structs (mutable; copied when read by value) ;
    NONE, some(v), ("Ok", v), ("Err", v) for Option / Result.
Integers are mathematical (no wrap-around) except `as uN` casts; callers must keep operands in range and say so.
Supported nodes: lit path call mcall bin un assign field index ref cast if letcond match block array tuple struct
range for while return try(on Some/Ok) closure macro(matches!) ; builtins: <uN|iN>::try_from(int) -> Ok/Err by range,
Result.ok(), array.map(closure), into() via user From impls, clone, len, unwrap, is_some/is_none, abs ; patterns: ident lit range or tuple tstruct wild path ref slice.
    it.match_value(match_node, value, frame)            -> value   evaluate the arm selected by `value` (scrutinee not evaluated:
                                                                   lets a rule model a std call such as binary_search_by by its result)
Pure calls (no `&mut` parameter) are memoised; `call_item(.., memo=False)` / `binop(.., memo=False)` skip the memo for the
outermost call of an exhaustive sweep.

Second part: symbolic walker for code that emits SGR chunks (no values, only the ordered shape of what is written)
    emissions(block_or_expr, env=None) -> [items]   see its docstring: push / write / mark / call / mcall / if / match / let / return
                                                    items in source order; `for` over an array literal is unrolled with the
                                                    pattern names substituted by the row's expressions
    subst(expr, {name: expr})   deep-copy substitution of single-segment paths ;  strip_try(expr) ;  pat_names(pat)
"""
import re


class Unsupported(Exception):
    pass


class _Return(Exception):
    def __init__(self, v):
        self.v = v


class _Break(Exception):
    pass


class _Continue(Exception):
    pass


class EnumV(tuple):
    def __new__(cls, ty, name):
        return tuple.__new__(cls, ("enum", ty, name))
    ty = property(lambda s: s[1])
    name = property(lambda s: s[2])

    def __repr__(self):
        return "%s::%s" % (self[1], self[2])


class StructV:
    __slots__ = ("ty", "fields")

    def __init__(self, ty, fields):
        self.ty = ty
        self.fields = fields

    def __eq__(self, o):
        return isinstance(o, StructV) and o.ty == self.ty and o.fields == self.fields

    def __ne__(self, o):
        return not self.__eq__(o)

    def __hash__(self):
        return hash(freeze(self))

    def __repr__(self):
        return "%s{%s}" % (self.ty, ", ".join("%s: %r" % kv for kv in self.fields.items()))


class ClosureV:
    """closure value: parameter patterns, body and the defining frame (captured by reference)"""
    __slots__ = ("params", "body", "frame")

    def __init__(self, params, body, frame):
        self.params = params
        self.body = body
        self.frame = frame


NONE = ("None",)


def some(v):
    return ("Some", v)


def copyv(v):
    t = type(v)
    if t is int or t is EnumV or t is bool or t is tuple or t is float:
        return v
    if isinstance(v, StructV):
        return StructV(v.ty, {k: copyv(x) for k, x in v.fields.items()})
    if isinstance(v, list):
        return [copyv(x) for x in v]
    return v


def freeze(v):
    t = type(v)
    if t is int or t is EnumV or t is bool or t is float:
        return v
    if isinstance(v, StructV):
        return ("S", v.ty, tuple((k, freeze(x)) for k, x in v.fields.items()))
    if isinstance(v, list):
        return ("L",) + tuple(freeze(x) for x in v)
    if isinstance(v, tuple) and not isinstance(v, EnumV):
        return tuple(freeze(x) for x in v)
    return v


class Frame:
    __slots__ = ("vars", "self_ty", "file")

    def __init__(self, vars=None, self_ty=None, file=None):
        self.vars = vars if vars is not None else {}
        self.self_ty = self_ty
        self.file = file


def _last(path):
    return re.sub(r"<.*$", "", path).split("::")[-1]


_OP_TRAIT = {"|": ("BitOr", "bitor"), "&": ("BitAnd", "bitand"), "^": ("BitXor", "bitxor"),
             "+": ("Add", "add"), "-": ("Sub", "sub"), "*": ("Mul", "mul"),
             "|=": ("BitOrAssign", "bitor_assign"), "&=": ("BitAndAssign", "bitand_assign"),
             "^=": ("BitXorAssign", "bitxor_assign"), "+=": ("AddAssign", "add_assign"), "-=": ("SubAssign", "sub_assign")}
_INT_TY = {"u8": 8, "u16": 16, "u32": 32, "u64": 64, "usize": 64}


class Interp:
    def __init__(self, src, max_steps=200_000_000):
        self.src = src
        self.steps = 0
        self.max_steps = max_steps
        self.extern_fns = {}
        self.extern_methods = {}
        self._const_cache = {}
        self._memo = {}
        self._fn_index = {}
        self._find_cache = {}
        self._dispatch = {}
        for (f, s, tr, item, t) in src.fns:
            if t:
                continue
            self._fn_index.setdefault((s, item["name"]), []).append((f, tr, item))
        self._enums = {it["name"]: [v["name"] for v in it["variants"]] for (f, it, t) in src.enums if not t}
        self._structs = {it["name"]: it for (f, it, t) in src.structs if not t}

    # ------------------------------------------------------------------ lookup
    def find_fn(self, impl_self, name, impl_trait=None, file=None):
        k = (impl_self, name, impl_trait, file)
        if k not in self._find_cache:
            self._find_cache[k] = self._find_fn(impl_self, name, impl_trait, file)
        return self._find_cache[k]

    def _find_fn(self, impl_self, name, impl_trait=None, file=None):
        c = self._fn_index.get((impl_self, name), [])
        if impl_trait is not None:
            c = [x for x in c if x[1] is not None and _last(x[1]) == impl_trait]
        if file is not None and len(c) > 1:
            c = [x for x in c if x[0] == file]
        if len(c) == 1:
            return c[0]
        return None

    def const(self, impl_self, name, file=None):
        key = (impl_self, name, file)
        if key in self._const_cache:
            return copyv(self._const_cache[key])
        r = self.src.const(name, file=file, impl_self=impl_self) if impl_self else None
        if r is None and impl_self is None:
            out = [(f, it) for (f, s, it, t) in self.src.consts if it["name"] == name and not t and s is None and (file is None or f == file)]
            r = out[0] if len(out) == 1 else None
        if r is None:
            return None
        f, it = r
        v = self.eval(it["expr"], Frame({}, impl_self, f))
        self._const_cache[key] = v
        return copyv(v)

    def default_of(self, ty):
        ty = ty.replace(" ", "")
        if ty == "bool":
            return False
        if ty in _INT_TY or re.fullmatch(r"i(8|16|32|64|size)", ty):
            return 0
        if ty in ("f32", "f64"):
            return 0.0
        if ty.startswith("Option<"):
            return NONE
        if ty in self._structs:
            f = self.find_fn(ty, "default", "Default")
            if f:
                return self.call_item(f[2], ty, [], f[0])
            st = self._structs[ty]
            if not any("Default" in a for a in st.get("attrs", [])):
                raise Unsupported("no Default for " + ty)
            return StructV(ty, {fl["name"]: self.default_of(fl["ty"]) for fl in st["fields"]})
        raise Unsupported("default of " + ty)

    # ------------------------------------------------------------------ calls
    def call(self, impl_self, name, args, impl_trait=None, file=None):
        f = self.find_fn(impl_self, name, impl_trait, file)
        if f is None:
            raise Unsupported("fn %s::%s not found" % (impl_self, name))
        return self.call_item(f[2], impl_self, args, f[0])

    def call_item(self, item, impl_self, args, file=None, memo=True):
        inputs = item["sig"]["inputs"]
        if len(inputs) != len(args):
            raise Unsupported("arity of " + item["name"])
        pure = memo and not any(i["ty"].startswith("&mut") for i in inputs)
        key = None
        if pure:
            try:
                key = (id(item), tuple(freeze(a) for a in args))
                if key in self._memo:
                    return copyv(self._memo[key])
            except TypeError:
                key = None
        fr = Frame({}, impl_self, file)
        for inp, a in zip(inputs, args):
            ty = inp["ty"]
            if inp["name"] == "self":
                fr.vars["self"] = a if ty.startswith("&") else copyv(a)
            else:
                v = a if ty.startswith("&") else copyv(a)
                if not self.match_pat(inp["pat"], v, fr.vars):
                    raise Unsupported("refutable parameter pattern")
        try:
            r = self.eval(item["body"], fr)
        except _Return as e:
            r = e.v
        if key is not None:
            self._memo[key] = copyv(r)
        return r

    # ------------------------------------------------------------------ operators
    def binop(self, op, a, b, memo=True):
        if isinstance(a, StructV) and op in _OP_TRAIT:
            tr, fn = _OP_TRAIT[op]
            f = self.find_fn(a.ty, fn, tr)
            if f is None:
                raise Unsupported("no impl %s for %s" % (tr, a.ty))
            return self.call_item(f[2], a.ty, [a, b], f[0], memo)
        if op == "==":
            return a == b
        if op == "!=":
            return a != b
        if isinstance(a, bool) and isinstance(b, bool):
            if op in ("&", "&&"):
                return a and b
            if op in ("|", "||"):
                return a or b
            if op == "^":
                return a != b
        if isinstance(a, (int, float)) and isinstance(b, (int, float)) and not isinstance(a, bool) and not isinstance(b, bool):
            if op == "+":
                return a + b
            if op == "-":
                return a - b
            if op == "*":
                return a * b
            if op == "/":
                if isinstance(a, int) and isinstance(b, int):
                    if b == 0:
                        raise Unsupported("division by zero")
                    return a // b if (a >= 0) == (b > 0) else -(abs(a) // abs(b))
                return a / b
            if op == "%":
                if isinstance(a, int) and isinstance(b, int) and b > 0 and a >= 0:
                    return a % b
                raise Unsupported("% on negative/float")
            if op == "<":
                return a < b
            if op == "<=":
                return a <= b
            if op == ">":
                return a > b
            if op == ">=":
                return a >= b
            if isinstance(a, int) and isinstance(b, int):
                if op == "&":
                    return a & b
                if op == "|":
                    return a | b
                if op == "^":
                    return a ^ b
                if op == "<<":
                    return a << b
                if op == ">>":
                    return a >> b
        if isinstance(a, EnumV) and isinstance(b, EnumV) and a.ty == b.ty and op in ("<", "<=", ">", ">="):
            ia, ib = self._enums[a.ty].index(a.name), self._enums[b.ty].index(b.name)
            return {"<": ia < ib, "<=": ia <= ib, ">": ia > ib, ">=": ia >= ib}[op]
        raise Unsupported("binop %s on %r, %r" % (op, type(a).__name__, type(b).__name__))

    def assign_op(self, op, obj, b):
        """`obj op= b` for a user struct through its XAssign impl; obj is mutated in place"""
        tr, fn = _OP_TRAIT[op]
        f = self.find_fn(obj.ty, fn, tr)
        if f is None:
            raise Unsupported("no impl %s for %s" % (tr, obj.ty))
        self.call_item(f[2], obj.ty, [obj, copyv(b)], f[0])

    # ------------------------------------------------------------------ patterns
    def match_pat(self, p, v, binds):
        k = p["k"]
        if k == "wild" or k == "rest":
            return True
        if k == "ident":
            if p["name"] == "None" and not p.get("sub"):
                return v == NONE
            if p["name"] in ("true", "false"):
                return v is (p["name"] == "true")
            if p.get("sub") and not self.match_pat(p["sub"], v, binds):
                return False
            binds[p["name"]] = v
            return True
        if k == "lit":
            return self._lit(p["e"]) == v and isinstance(v, bool) == isinstance(self._lit(p["e"]), bool)
        if k == "range":
            lo = self._lit(p["lo"]) if p.get("lo") else None
            hi = self._lit(p["hi"]) if p.get("hi") else None
            if isinstance(v, bool) or not isinstance(v, (int, float)):
                return False
            if lo is not None and v < lo:
                return False
            if hi is not None and (v > hi or (v == hi and not p["incl"])):
                return False
            return True
        if k == "or":
            for c in p["cases"]:
                b2 = {}
                if self.match_pat(c, v, b2):
                    binds.update(b2)
                    return True
            return False
        if k == "tuple" or k == "slice":
            el = p["elems"]
            if any(e["k"] == "rest" for e in el):
                raise Unsupported("rest pattern")
            if not isinstance(v, (tuple, list)) or isinstance(v, EnumV) or len(v) != len(el):
                return False
            return all(self.match_pat(e, x, binds) for e, x in zip(el, v))
        if k == "tstruct":
            nm = _last(p["path"])
            if nm in ("Some", "Ok", "Err"):
                if not (isinstance(v, tuple) and len(v) == 2 and v[0] == nm):
                    return False
                return self.match_pat(p["elems"][0], v[1], binds)
            raise Unsupported("tuple-struct pattern " + p["path"])
        if k == "path":
            return self._path_value(p["p"], Frame()) == v
        if k == "ref":
            return self.match_pat(p["pat"], v, binds)
        raise Unsupported("pattern " + k)

    # ------------------------------------------------------------------ expressions
    def _lit(self, e):
        if e["k"] == "un" and e["op"] == "-":
            return -self._lit(e["e"])
        if e["k"] != "lit":
            raise Unsupported("literal expected")
        t = e["t"]
        if t == "int":
            return int(e["v"])
        if t == "float":
            return float(e["v"])
        if t == "bool":
            return bool(e["v"])
        if t in ("byte", "char"):
            return int(e["v"])
        if t == "str":
            return e["v"]
        if t == "bytestr":
            return bytes(e["v"])
        raise Unsupported("literal " + t)

    def _path_value(self, p, fr):
        if p in fr.vars:
            return fr.vars[p]
        segs = p.split("::")
        if len(segs) >= 2:
            ty = segs[-2]
            if ty == "Self":
                ty = fr.self_ty
            if ty in self._enums and segs[-1] in self._enums[ty]:
                return EnumV(ty, segs[-1])
            v = self.const(ty, segs[-1])
            if v is not None:
                return v
            raise Unsupported("path " + p)
        if p == "None":
            return NONE
        v = self.const(None, p, fr.file)
        if v is None:
            v = self.const(None, p)
        if v is not None:
            return v
        raise Unsupported("path " + p)

    def place(self, e, fr):
        """evaluate without copying (reference to the stored object)"""
        k = e["k"]
        if k == "path":
            return self._path_value(e["p"], fr)
        if k == "field":
            b = self.place(e["e"], fr)
            if isinstance(b, StructV):
                if e["name"] not in b.fields:
                    raise Unsupported("field " + e["name"])
                return b.fields[e["name"]]
            if isinstance(b, tuple) and e["name"].isdigit():
                return b[int(e["name"])]
            raise Unsupported("field of non-struct")
        if k == "index":
            b = self.place(e["e"], fr)
            i = self.eval(e["i"], fr)
            if not isinstance(b, (list, bytes)) or not isinstance(i, int) or not (0 <= i < len(b)):
                raise Unsupported("index out of range or not an array")
            return b[i]
        if k == "un" and e["op"] == "*":
            return self.place(e["e"], fr)
        if k == "ref":
            return self.place(e["e"], fr)
        if k == "paren":
            return self.place(e["e"], fr)
        return self.eval(e, fr)

    def store(self, e, fr, v):
        k = e["k"]
        if k == "path":
            if e["p"] not in fr.vars:
                raise Unsupported("assignment to non-local " + e["p"])
            fr.vars[e["p"]] = v
            return
        if k == "field":
            b = self.place(e["e"], fr)
            if not isinstance(b, StructV):
                raise Unsupported("field store")
            b.fields[e["name"]] = v
            return
        if k == "index":
            b = self.place(e["e"], fr)
            b[self.eval(e["i"], fr)] = v
            return
        if k == "un" and e["op"] == "*":
            tgt = self.place(e["e"], fr)
            if isinstance(tgt, StructV) and isinstance(v, StructV):
                tgt.ty = v.ty
                tgt.fields = copyv(v).fields
                return
            raise Unsupported("store through reference to non-struct")
        raise Unsupported("store to " + k)

    def eval(self, e, fr):
        self.steps += 1
        if self.steps > self.max_steps:
            raise Unsupported("step budget exhausted")
        k = e["k"]
        m = self._dispatch.get(k)
        if m is None:
            m = getattr(self, "_e_" + k, None)
            if m is None:
                raise Unsupported("expression kind " + k)
            self._dispatch[k] = m
        return m(e, fr)

    def _e_lit(self, e, fr):
        return self._lit(e)

    def _e_path(self, e, fr):
        return copyv(self._path_value(e["p"], fr))

    def _e_paren(self, e, fr):
        return self.eval(e["e"], fr)

    def _e_field(self, e, fr):
        return copyv(self.place(e, fr))

    def _e_index(self, e, fr):
        return copyv(self.place(e, fr))

    def _e_ref(self, e, fr):
        return self.place(e["e"], fr)

    def _e_cast(self, e, fr):
        v = self.eval(e["e"], fr)
        ty = e["ty"].replace(" ", "")
        if ty in _INT_TY and isinstance(v, (int, float)):
            return int(v) & ((1 << _INT_TY[ty]) - 1) if isinstance(v, int) else max(0, min(int(v), (1 << _INT_TY[ty]) - 1))
        if ty in ("f32", "f64") and isinstance(v, (int, float)):
            return float(v)
        if re.fullmatch(r"i(8|16|32|64|size)", ty) and isinstance(v, int) and not isinstance(v, bool):
            return v
        raise Unsupported("cast to " + ty)

    def _e_un(self, e, fr):
        op = e["op"]
        if op == "*":
            return copyv(self.place(e["e"], fr))
        v = self.eval(e["e"], fr)
        if op == "!" and isinstance(v, bool):
            return not v
        if op == "-" and isinstance(v, (int, float)) and not isinstance(v, bool):
            return -v
        raise Unsupported("unary " + op)

    def _e_bin(self, e, fr):
        op = e["op"]
        if op == "&&":
            return self.eval(e["l"], fr) and self.eval(e["r"], fr)
        if op == "||":
            return self.eval(e["l"], fr) or self.eval(e["r"], fr)
        if op.endswith("=") and op not in ("==", "!=", "<=", ">="):
            cur = self.place(e["l"], fr)
            r = self.eval(e["r"], fr)
            if isinstance(cur, StructV):
                self.assign_op(op, cur, r)
            else:
                self.store(e["l"], fr, self.binop(op[:-1], cur, r))
            return ()
        return self.binop(op, self.eval(e["l"], fr), self.eval(e["r"], fr))

    def _e_assign(self, e, fr):
        self.store(e["l"], fr, self.eval(e["r"], fr))
        return ()

    def _e_array(self, e, fr):
        return [self.eval(x, fr) for x in e["elems"]]

    def _e_tuple(self, e, fr):
        return tuple(self.eval(x, fr) for x in e.get("elems") or [])

    def _e_range(self, e, fr):
        lo = self.eval(e["lo"], fr) if e.get("lo") else 0
        if not e.get("hi"):
            raise Unsupported("open range")
        hi = self.eval(e["hi"], fr)
        return list(range(lo, hi + (1 if e["incl"] else 0)))

    def _e_struct(self, e, fr):
        ty = _last(e["path"])
        if ty == "Self":
            ty = fr.self_ty
        if ty not in self._structs:
            raise Unsupported("struct literal " + e["path"])
        fields = {}
        if e.get("rest"):
            base = self.eval(e["rest"], fr)
            if not isinstance(base, StructV) or base.ty != ty:
                raise Unsupported("struct rest")
            fields = copyv(base).fields
        for f in e["fields"]:
            fields[f["name"]] = self.eval(f["e"], fr)
        want = [f["name"] for f in self._structs[ty]["fields"]]
        if sorted(fields) != sorted(want):
            raise Unsupported("struct literal fields of " + ty)
        return StructV(ty, {n: fields[n] for n in want})

    def _cond(self, c, fr):
        if c["k"] == "letcond":
            v = self.eval(c["e"], fr)
            b = {}
            if self.match_pat(c["pat"], v, b):
                fr.vars.update(b)
                return True
            return False
        v = self.eval(c, fr)
        if not isinstance(v, bool):
            raise Unsupported("non-bool condition")
        return v

    def _e_if(self, e, fr):
        if self._cond(e["cond"], fr):
            return self.eval(e["then"], fr)
        if e.get("else"):
            return self.eval(e["else"], fr)
        return ()

    def _e_match(self, e, fr):
        v = self.eval(e["e"], fr)
        return self.match_value(e, v, fr)

    def match_value(self, e, v, fr, as_fn_body=False):
        """evaluate the arm of match node `e` selected by value v (scrutinee not evaluated).
        as_fn_body=True: the match is in tail position of its function, so a `return` / `?` inside the arm yields the value"""
        if as_fn_body:
            try:
                return self.match_value(e, v, fr)
            except _Return as r:
                return r.v
        for arm in e["arms"]:
            b = {}
            if self.match_pat(arm["pat"], v, b):
                if arm.get("guard"):
                    fr.vars.update(b)
                    if not self._cond(arm["guard"], fr):
                        continue
                fr.vars.update(b)
                return self.eval(arm["body"], fr)
        raise Unsupported("no arm matches %r" % (v,))

    def _e_block(self, e, fr):
        last = ()
        stmts = e.get("stmts") or []
        for i, s in enumerate(stmts):
            sk = s["k"]
            if sk == "let":
                if s.get("init") is None:
                    raise Unsupported("let without init")
                v = self.eval(s["init"], fr)
                if not self.match_pat(s["pat"], v, fr.vars):
                    if s.get("else"):
                        self.eval(s["else"], fr)
                    raise Unsupported("refutable let")
                last = ()
            elif sk == "expr":
                v = self.eval(s["e"], fr)
                last = () if s.get("semi") else v
            elif sk in ("item", "fn", "const", "use", "macroitem"):
                last = ()
            else:
                raise Unsupported("statement " + sk)
        return last

    def _e_unsafe(self, e, fr):
        raise Unsupported("unsafe")

    def _e_for(self, e, fr):
        it = self.eval(e["iter"], fr)
        if not isinstance(it, list):
            raise Unsupported("for over non-array")
        for x in it:
            if not self.match_pat(e["pat"], x, fr.vars):
                raise Unsupported("refutable for pattern")
            try:
                self.eval(e["body"], fr)
            except _Break:
                break
            except _Continue:
                continue
        return ()

    def _e_while(self, e, fr):
        n = 0
        while self._cond(e["cond"], fr):
            n += 1
            if n > 100000:
                raise Unsupported("loop bound")
            try:
                self.eval(e["body"], fr)
            except _Break:
                break
            except _Continue:
                continue
        return ()

    def _e_closure(self, e, fr):
        return ClosureV(e.get("params") or [], e["body"], fr)

    def call_closure(self, c, args):
        if len(c.params) != len(args):
            raise Unsupported("closure arity")
        fr = Frame(dict(c.frame.vars), c.frame.self_ty, c.frame.file)
        for p, a in zip(c.params, args):
            if not self.match_pat(p, a, fr.vars):
                raise Unsupported("refutable closure parameter")
        try:
            return self.eval(c.body, fr)
        except _Return as r:
            return r.v

    def _e_return(self, e, fr):
        raise _Return(self.eval(e["e"], fr) if e.get("e") else ())

    def _e_break(self, e, fr):
        raise _Break()

    def _e_continue(self, e, fr):
        raise _Continue()

    def _e_try(self, e, fr):
        v = self.eval(e["e"], fr)
        if isinstance(v, tuple) and len(v) == 2 and v[0] in ("Some", "Ok"):
            return v[1]
        if v == NONE or (isinstance(v, tuple) and len(v) == 2 and v[0] == "Err"):
            raise _Return(v)
        raise Unsupported("? on non Option/Result")

    def _e_macro(self, e, fr):
        if e.get("short") == "matches" and e.get("extra", {}).get("pat") is not None:
            v = self.eval(e["extra"]["scrutinee"], fr)
            return self.match_pat(e["extra"]["pat"], v, {})
        raise Unsupported("macro " + str(e.get("short")))

    def _e_call(self, e, fr):
        f = e["f"]
        if f["k"] != "path":
            raise Unsupported("call of non-path")
        p = f["p"]
        args_e = e.get("args") or []
        segs = p.split("::")
        name = segs[-1]
        if p in ("Some", "Ok", "Err") and len(args_e) == 1:
            return (p, self.eval(args_e[0], fr))
        if p in self.extern_fns:
            return self.extern_fns[p]([self.place(a, fr) for a in args_e])
        if len(segs) == 1:
            if p in fr.vars:
                raise Unsupported("call of local closure " + p)
            fn = self.find_fn(None, name, file=fr.file)
            if fn is None:
                raise Unsupported("free fn " + p)
            return self._apply(fn, None, args_e, fr)
        ty = segs[-2]
        if ty == "Self":
            ty = fr.self_ty
        if name == "default" and not args_e:
            return self.default_of(ty)
        if name == "try_from" and len(segs) == 2 and len(args_e) == 1 and (ty in _INT_TY or re.fullmatch(r"i(8|16|32|64)", ty)):
            v = self.eval(args_e[0], fr)
            if isinstance(v, bool) or not isinstance(v, int):
                raise Unsupported("try_from of non-integer")
            if ty in _INT_TY:
                lo, hi = 0, (1 << _INT_TY[ty]) - 1
            else:
                bits = int(ty[1:])
                lo, hi = -(1 << (bits - 1)), (1 << (bits - 1)) - 1
            return ("Ok", v) if lo <= v <= hi else ("Err", ())
        fn = self.find_fn(ty, name)
        if fn is None:
            raise Unsupported("fn " + p)
        return self._apply(fn, ty, args_e, fr)

    def _apply(self, fn, ty, args_e, fr, recv=None):
        file, tr, item = fn
        inputs = item["sig"]["inputs"]
        vals = []
        es = list(args_e)
        for inp in inputs:
            if inp["name"] == "self" and recv is not None:
                vals.append(recv)
                continue
            if not es:
                raise Unsupported("arity of " + item["name"])
            a = es.pop(0)
            vals.append(self.place(a, fr) if inp["ty"].startswith("&") else self.eval(a, fr))
        if es:
            raise Unsupported("arity of " + item["name"])
        return self.call_item(item, ty, vals, file)

    def _e_mcall(self, e, fr):
        m = e["m"]
        recv = self.place(e["recv"], fr)
        args_e = e.get("args") or []
        ty = recv.ty if isinstance(recv, (StructV, EnumV)) else None
        if ty is not None:
            fn = self.find_fn(ty, m)
            if fn is not None:
                return self._apply(fn, ty, args_e, fr, recv=recv)
        if m in self.extern_methods:
            return self.extern_methods[m](recv, [self.place(a, fr) for a in args_e])
        if m == "into" and ty is not None and not args_e:
            cands = [(f, s, tr, item) for (f, s, tr, item, t) in self.src.fns
                     if not t and item["name"] == "from" and tr is not None and tr.replace(" ", "") == "From<%s>" % ty]
            if len(cands) == 1:
                f, s, tr, item = cands[0]
                return self.call_item(item, s, [copyv(recv)], f)
            raise Unsupported("into() target of " + ty)
        if m == "map" and isinstance(recv, list) and len(args_e) == 1:
            f = self.eval(args_e[0], fr)
            if not isinstance(f, ClosureV):
                raise Unsupported("map with a non-closure argument")
            return [self.call_closure(f, [copyv(x)]) for x in recv]
        if m == "ok" and not args_e and isinstance(recv, tuple) and len(recv) == 2 and recv[0] in ("Ok", "Err"):
            return some(recv[1]) if recv[0] == "Ok" else NONE
        if m in ("clone", "to_owned") and not args_e:
            return copyv(recv)
        if m == "len" and isinstance(recv, (list, bytes)) and not args_e:
            return len(recv)
        if m == "unwrap" and isinstance(recv, tuple) and len(recv) == 2 and recv[0] in ("Some", "Ok"):
            return recv[1]
        if m == "is_some":
            return recv != NONE
        if m == "is_none":
            return recv == NONE
        if m == "abs" and isinstance(recv, (int, float)):
            return abs(recv)
        raise Unsupported("method %s on %s" % (m, ty or type(recv).__name__))


# =====================================================================================================
# Symbolic walker for "chunk emission" code (no values: the *shape* of what a block writes, in order)
# =====================================================================================================
def subst(e, env):
    """deep copy of expression `e` with single-segment paths named in env replaced by env[name] (an expr node)"""
    if isinstance(e, dict):
        if e.get("k") == "path" and e["p"] in env:
            return env[e["p"]]
        return {k: (v if k == "tokens" else subst(v, env)) for k, v in e.items()}
    if isinstance(e, list):
        return [subst(x, env) for x in e]
    return e


def strip_try(e):
    while isinstance(e, dict) and e.get("k") in ("try", "paren"):
        e = e["e"]
    return e


def pat_names(p):
    """identifier names bound by a pattern, in source order"""
    out = []
    if not isinstance(p, dict):
        return out
    k = p.get("k")
    if k == "ident":
        if p["name"] not in ("None",):
            out.append(p["name"])
        if p.get("sub"):
            out += pat_names(p["sub"])
    elif k in ("tuple", "slice", "tstruct"):
        for x in p["elems"]:
            out += pat_names(x)
    elif k == "or":
        out += pat_names(p["cases"][0])
    elif k == "ref":
        out += pat_names(p["pat"])
    elif k == "struct":
        for f in p["fields"]:
            out += pat_names(f.get("pat")) if f.get("pat") else [f["name"]]
    return out


def emissions(node, env=None):
    """Ordered symbolic items of a block/expression that writes SGR chunks.  Items (tuples, first element = kind):
         ("push", bytes_or_None, arg_expr, recv_expr)      <recv>.push(arg); bytes when arg is a byte-string literal (after substitution)
         ("write", fmt_str_or_None, [arg exprs], dst_expr) write!(dst, fmt, args..)
         ("mark", recv_expr)                               <recv>.mark()
         ("call", path, [arg exprs])                       statement-level call of a path (e.g. color_sgr_encode(..)?)
         ("mcall", recv_expr, method, [arg exprs])         any other statement-level method call (clear, drain, write_all ...)
         ("if", cond_expr, [items], [items])               cond is an expression node, or a `letcond` node for `if let`
         ("match", scrutinee_expr, [(pat, [items])])
         ("let", pat, init_expr)
         ("return", expr_or_None)
         ("value", expr)                                   trailing expression that is none of the above
         ("unknown", node)                                 statement kind the walker does not understand
       `for PAT in [row, ..] { body }` over an array literal is unrolled; PAT's names are substituted by the row's
       element expressions (tuple rows element-wise), so table rows appear as per-row conditions/emissions.
       All expressions are returned after substitution; `?` is stripped from statement heads."""
    env = env or {}
    out = []
    if node is None:
        return out
    if node.get("k") == "block":
        for s in node.get("stmts") or []:
            if s["k"] == "let":
                init = subst(s["init"], env) if s.get("init") is not None else None
                env = {k: v for k, v in env.items() if k not in pat_names(s["pat"])}
                out.append(("let", s["pat"], init))
            elif s["k"] == "expr":
                out += emissions(s["e"], env)
            else:
                out.append(("unknown", s))
        return out
    e = strip_try(node)
    k = e["k"]
    if k == "block":
        return emissions(e, env)
    if k == "mcall":
        args = [subst(a, env) for a in e.get("args") or []]
        recv = subst(e["recv"], env)
        if e["m"] == "push" and len(args) == 1:
            a = args[0]
            while a.get("k") in ("ref", "paren"):
                a = a["e"]
            b = bytes(a["v"]) if a.get("k") == "lit" and a["t"] == "bytestr" else None
            return [("push", b, args[0], recv)]
        if e["m"] == "mark" and not args:
            return [("mark", recv)]
        return [("mcall", recv, e["m"], args)]
    if k == "macro" and e.get("short") in ("write", "writeln"):
        a = [subst(x, env) for x in e.get("args") or []]
        if len(a) >= 2:
            fmt = a[1]["v"] if a[1].get("k") == "lit" and a[1]["t"] == "str" else None
            return [("write", fmt, a[2:], a[0])]
        return [("unknown", e)]
    if k == "call" and e["f"]["k"] == "path":
        return [("call", e["f"]["p"], [subst(a, env) for a in e.get("args") or []])]
    if k == "if":
        c = e["cond"]
        inner = env
        if c["k"] == "letcond":
            c = dict(c)
            c["e"] = subst(c["e"], env)
            inner = {kk: v for kk, v in env.items() if kk not in pat_names(c["pat"])}
        else:
            c = subst(c, env)
        return [("if", c, emissions(e["then"], inner), emissions(e["else"], env) if e.get("else") else [])]
    if k == "match":
        arms = []
        for arm in e["arms"]:
            inner = {kk: v for kk, v in env.items() if kk not in pat_names(arm["pat"])}
            arms.append((arm["pat"], emissions(arm["body"], inner)))
        return [("match", subst(e["e"], env), arms)]
    if k == "for":
        it = e["iter"]
        while it.get("k") in ("ref", "paren"):
            it = it["e"]
        if it.get("k") != "array":
            return [("unknown", e)]
        for row in it["elems"]:
            row = subst(row, env)
            inner = dict(env)
            p = e["pat"]
            if p["k"] == "ident":
                inner[p["name"]] = row
            elif p["k"] == "tuple" and row.get("k") == "tuple" and len(p["elems"]) == len(row["elems"]) and all(x["k"] in ("ident", "wild") for x in p["elems"]):
                for x, v in zip(p["elems"], row["elems"]):
                    if x["k"] == "ident":
                        inner[x["name"]] = v
            else:
                return [("unknown", e)]
            out += emissions(e["body"], inner)
        return out
    if k == "return":
        return [("return", subst(e["e"], env) if e.get("e") else None)]
    return [("value", subst(e, env))]
