"""CFG utilities over a mir Body: dominators, post-dominators, loops, path predicates.
Normal-flow graph: unwind/cleanup edges are excluded unless stated."""


class CFG:
    def __init__(self, body, unwind=False):
        self.body = body
        n = len(body.blocks)
        self.n = n
        self.succ = [body.succs(i, unwind=unwind) for i in range(n)]
        self.pred = [[] for _ in range(n)]
        for i, ss in enumerate(self.succ):
            for s in ss:
                self.pred[s].append(i)
        self.reach = self._reach(0, self.succ)
        self.returns = [i for i in range(n) if body.blocks[i]["term"]["k"] == "return" and i in self.reach]
        self._dom = None
        self._pdom = {}

    @staticmethod
    def _reach(start, succ, removed=()):
        seen = set()
        st = [start] if start not in removed else []
        while st:
            x = st.pop()
            if x in seen:
                continue
            seen.add(x)
            for s in succ[x]:
                if s not in seen and s not in removed:
                    st.append(s)
        return seen

    def reachable_from(self, start, removed=()):
        return self._reach(start, self.succ, removed)

    def reaches(self, target_set, removed=()):
        """set of nodes from which some node of target_set is reachable (including themselves)"""
        seen = set()
        st = [t for t in target_set if t not in removed]
        while st:
            x = st.pop()
            if x in seen:
                continue
            seen.add(x)
            for p in self.pred[x]:
                if p not in seen and p not in removed:
                    st.append(p)
        return seen

    # -------- dominators (iterative, sets; bodies are small) --------------------------------
    def dom(self):
        if self._dom is None:
            self._dom = self._dominators(0, self.succ, self.pred, self.reach)
        return self._dom

    @staticmethod
    def _dominators(entry, succ, pred, nodes):
        nodes = set(nodes)
        dom = {x: set(nodes) for x in nodes}
        dom[entry] = {entry}
        # reverse post order
        order = []
        seen = set()

        def dfs(s):
            stack = [(s, iter(succ[s]))]
            seen.add(s)
            while stack:
                x, it = stack[-1]
                adv = False
                for y in it:
                    if y in nodes and y not in seen:
                        seen.add(y)
                        stack.append((y, iter(succ[y])))
                        adv = True
                        break
                if not adv:
                    order.append(x)
                    stack.pop()

        dfs(entry)
        order.reverse()
        changed = True
        while changed:
            changed = False
            for x in order:
                if x == entry:
                    continue
                ps = [p for p in pred[x] if p in nodes and p in dom]
                ps = [p for p in ps if p in seen]
                if not ps:
                    continue
                new = set.intersection(*(dom[p] for p in ps)) | {x}
                if new != dom[x]:
                    dom[x] = new
                    changed = True
        return dom

    def dominates(self, a, b):
        return a in self.dom().get(b, set())

    def pdom(self, exits=None):
        """post-dominators w.r.t. a virtual exit joined from `exits` (default: all return blocks).
        Nodes that cannot reach an exit are not in the result."""
        key = tuple(sorted(exits)) if exits is not None else None
        if key in self._pdom:
            return self._pdom[key]
        ex = list(exits) if exits is not None else list(self.returns)
        n = self.n
        VE = n
        succ_r = [list(p) for p in self.pred] + [list(ex)]  # reversed graph: succ_r[x] = preds
        pred_r = [list(s) for s in self.succ] + [[]]
        for e in ex:
            pred_r[e] = pred_r[e] + [VE]
        nodes = self._reach(VE, succ_r)
        d = self._dominators(VE, succ_r, pred_r, nodes)
        self._pdom[key] = d
        return d

    def postdominates(self, a, b, exits=None):
        d = self.pdom(exits)
        return b in d and a in d[b]

    # -------- must-pass: every path entry -> exit passes through one of `through` ----------------
    def must_pass(self, through, exits=None, start=0, removed=()):
        """True iff no path from start to any exit avoids all blocks in `through`.
        Returns (ok, witness_path)"""
        ex = set(exits if exits is not None else self.returns)
        through = set(through)
        if start in through:
            return True, None
        # BFS avoiding through
        prev = {start: None}
        q = [start]
        while q:
            x = q.pop(0)
            if x in ex:
                path = []
                while x is not None:
                    path.append(x)
                    x = prev[x]
                return False, path[::-1]
            for s in self.succ[x]:
                if s in through or s in prev or s in removed:
                    continue
                prev[s] = x
                q.append(s)
        return True, None

    # -------- natural loops ----------------------------------------------------------------
    def back_edges(self):
        d = self.dom()
        out = []
        for x in self.reach:
            for s in self.succ[x]:
                if s in d.get(x, ()):  # s dominates x
                    out.append((x, s))
        return out

    def loops(self):
        """header -> set(body nodes)"""
        res = {}
        for (tail, head) in self.back_edges():
            body = {head}
            st = [tail]
            while st:
                x = st.pop()
                if x in body:
                    continue
                body.add(x)
                for p in self.pred[x]:
                    if p in self.reach:
                        st.append(p)
            res.setdefault(head, set()).update(body)
        return res

    # -------- edge dominance: does edge (a->b) dominate node x ------------------------------
    def edge_dominates(self, a, b, x):
        """every path from entry to x uses edge a->b (approximation: b dominates x, and b's only
        reachable pred on paths is a OR removing the edge makes x unreachable)."""
        # exact: remove edge and test reachability
        seen = set()
        st = [0]
        while st:
            y = st.pop()
            if y in seen:
                continue
            seen.add(y)
            if y == x:
                return False
            for s in self.succ[y]:
                if y == a and s == b:
                    continue
                if s not in seen:
                    st.append(s)
        return x in self.reach
