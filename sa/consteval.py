"""Tiny denotational evaluator over src.json expression trees (shared helper for table/bit-layout rules).

This is NOT running the repository: it gives the *source expressions* of small pure functions (bit packing,
operator impls, match tables, index arithmetic) their value on concrete inputs, so that a rule can enumerate a
finite domain exhaustively (e.g. all 256x256 raw `FaceAttrs` pairs) and compare two source definitions.
Anything outside the supported subset raises `Unsupported` (rules turn that into an anchor = fail closed).

API
---
    it = Interp(src)                         # src = sa.src.Src
    it.call(impl_self, name, [args], impl_trait=None)   -> value   user fn by impl type ("FaceAttrs") / None for free fns
    it.call_item(fn_item, impl_self, [args])            -> value   call a given fn item (from src.fn(..))
    it.eval(expr, frame)                                -> value   frame = Frame(locals dict, self_ty, file)
    it.const(impl_self_or_None, name, file=None)        -> value   const/static initialiser
    it.binop(op, a, b)                                  -> value   `a op b` incl. user operator impls (BitOr ...)
    it.assign_op(op, obj, b)                            ->  None   `obj op= b` through the user XAssign impl (obj mutated in place)
    it.match_pat(pat, value, binds)                     -> bool    pattern test (+ bindings)
    it.extern_fns[name] = pyfunc(args) ; it.extern_methods[name] = pyfunc(recv, args)   # models for std / dependency items
    it.steps                                                       # evaluated nodes (for evidence)

Values
------
    int / float / bool / str / bytes ; () unit ; tuple ; list (arrays, slices) ;
    EnumV(ty, name) user unit variants ; StructV(ty, fields) user structs (mutable; copied when read by value) ;
    NONE, some(v), ("Ok", v), ("Err", v) for Option / Result.
Integers are mathematical (no wrap-around) except `as uN` casts; callers must keep operands in range and say so.
Supported nodes: lit path call mcall bin un assign field index ref cast if letcond match block array tuple struct
range for while return try(on Some/Ok) closure macro(matches!) ; builtins: <uN|iN>::try_from(int) -> Ok/Err by range,
Result.ok(), array.map(closure), into() via user From impls, clone, len, unwrap, is_some/is_none, abs ; patterns: ident lit range or tuple tstruct wild path ref slice.
    it.match_value(match_node, value, frame)            -> value   evaluate the arm selected by `value` (scrutinee not evaluated:
                                                                   lets a rule model a std call such as binary_search_by by its result)
Pure calls (no `&mut` parameter) are memoised; `call_item(.., memo=False)` / `binop(.., memo=False)` skip the memo for the
outermost call of an exhaustive sweep.

Third part (end of file): `StdInterp(Interp)` = the same evaluator plus models of the std items small pure functions use
(iterator chains over slices evaluated eagerly on lists, Option/Result/Ordering combinators, integer/float helpers, Vec
growth, `write!`/`format!` with Rust's integer formatting, `debug_assert!` skipped, `loop`/`break value`, `unsafe {}` transparent,
slice ranges).  It lets a rule decide on the *value* a function denotes, whichever of the equivalent idioms (loop or
try_fold/fold/find_map, if-chain or match, helper or inline, named constant or literal) the source uses.

Second part: symbolic walker for code that emits SGR chunks (no values, only the ordered shape of what is written)
    emissions(block_or_expr, env=None) -> [items]   see its docstring: push / write / mark / call / mcall / if / match / let / return
                                                    items in source order; `for` over an array literal is unrolled with the
                                                    pattern names substituted by the row's expressions
    subst(expr, {name: expr})   deep-copy substitution of single-segment paths ;  strip_try(expr) ;  pat_names(pat)
"""
import re


class Unsupported(Exception):
    pass


class _Return(Exception):
    def __init__(self, v):
        self.v = v


class _Break(Exception):
    pass


class _Continue(Exception):
    pass


class EnumV(tuple):
    def __new__(cls, ty, name):
        return tuple.__new__(cls, ("enum", ty, name))
    ty = property(lambda s: s[1])
    name = property(lambda s: s[2])

    def __repr__(self):
        return "%s::%s" % (self[1], self[2])


class StructV:
    __slots__ = ("ty", "fields")

    def __init__(self, ty, fields):
        self.ty = ty
        self.fields = fields

    def __eq__(self, o):
        return isinstance(o, StructV) and o.ty == self.ty and o.fields == self.fields

    def __ne__(self, o):
        return not self.__eq__(o)

    def __hash__(self):
        return hash(freeze(self))

    def __repr__(self):
        return "%s{%s}" % (self.ty, ", ".join("%s: %r" % kv for kv in self.fields.items()))


class ClosureV:
    """closure value: parameter patterns, body and the defining frame (captured by reference)"""
    __slots__ = ("params", "body", "frame")

    def __init__(self, params, body, frame):
        self.params = params
        self.body = body
        self.frame = frame


NONE = ("None",)


def some(v):
    return ("Some", v)


def copyv(v):
    t = type(v)
    if t is int or t is EnumV or t is bool or t is tuple or t is float:
        return v
    if isinstance(v, StructV):
        return StructV(v.ty, {k: copyv(x) for k, x in v.fields.items()})
    if isinstance(v, list):
        return [copyv(x) for x in v]
    return v


def freeze(v):
    t = type(v)
    if t is int or t is EnumV or t is bool or t is float:
        return v
    if isinstance(v, StructV):
        return ("S", v.ty, tuple((k, freeze(x)) for k, x in v.fields.items()))
    if isinstance(v, list):
        return ("L",) + tuple(freeze(x) for x in v)
    if isinstance(v, tuple) and not isinstance(v, EnumV):
        return tuple(freeze(x) for x in v)
    return v


class Frame:
    __slots__ = ("vars", "self_ty", "file")

    def __init__(self, vars=None, self_ty=None, file=None):
        self.vars = vars if vars is not None else {}
        self.self_ty = self_ty
        self.file = file


def _last(path):
    return re.sub(r"<.*$", "", path).split("::")[-1]


_OP_TRAIT = {"|": ("BitOr", "bitor"), "&": ("BitAnd", "bitand"), "^": ("BitXor", "bitxor"),
             "+": ("Add", "add"), "-": ("Sub", "sub"), "*": ("Mul", "mul"),
             "|=": ("BitOrAssign", "bitor_assign"), "&=": ("BitAndAssign", "bitand_assign"),
             "^=": ("BitXorAssign", "bitxor_assign"), "+=": ("AddAssign", "add_assign"), "-=": ("SubAssign", "sub_assign")}
_INT_TY = {"u8": 8, "u16": 16, "u32": 32, "u64": 64, "usize": 64}


class Interp:
    def __init__(self, src, max_steps=200_000_000):
        self.src = src
        self.steps = 0
        self.max_steps = max_steps
        self.extern_fns = {}
        self.extern_methods = {}
        self._const_cache = {}
        self._memo = {}
        self._fn_index = {}
        self._find_cache = {}
        self._dispatch = {}
        for (f, s, tr, item, t) in src.fns:
            if t:
                continue
            self._fn_index.setdefault((s, item["name"]), []).append((f, tr, item))
        self._enums = {it["name"]: [v["name"] for v in it["variants"]] for (f, it, t) in src.enums if not t}
        self._structs = {it["name"]: it for (f, it, t) in src.structs if not t}

    # ------------------------------------------------------------------ lookup
    def find_fn(self, impl_self, name, impl_trait=None, file=None):
        k = (impl_self, name, impl_trait, file)
        if k not in self._find_cache:
            self._find_cache[k] = self._find_fn(impl_self, name, impl_trait, file)
        return self._find_cache[k]

    def _find_fn(self, impl_self, name, impl_trait=None, file=None):
        c = self._fn_index.get((impl_self, name), [])
        if impl_trait is not None:
            c = [x for x in c if x[1] is not None and _last(x[1]) == impl_trait]
        if file is not None and len(c) > 1:
            c = [x for x in c if x[0] == file]
        if len(c) == 1:
            return c[0]
        return None

    def const(self, impl_self, name, file=None):
        key = (impl_self, name, file)
        if key in self._const_cache:
            return copyv(self._const_cache[key])
        r = self.src.const(name, file=file, impl_self=impl_self) if impl_self else None
        if r is None and impl_self is None:
            out = [(f, it) for (f, s, it, t) in self.src.consts if it["name"] == name and not t and s is None and (file is None or f == file)]
            r = out[0] if len(out) == 1 else None
        if r is None:
            return None
        f, it = r
        v = self.eval(it["expr"], Frame({}, impl_self, f))
        self._const_cache[key] = v
        return copyv(v)

    def default_of(self, ty):
        ty = ty.replace(" ", "")
        if ty == "bool":
            return False
        if ty in _INT_TY or re.fullmatch(r"i(8|16|32|64|size)", ty):
            return 0
        if ty in ("f32", "f64"):
            return 0.0
        if ty.startswith("Option<"):
            return NONE
        if ty in self._structs:
            f = self.find_fn(ty, "default", "Default")
            if f:
                return self.call_item(f[2], ty, [], f[0])
            st = self._structs[ty]
            if not any("Default" in a for a in st.get("attrs", [])):
                raise Unsupported("no Default for " + ty)
            return StructV(ty, {fl["name"]: self.default_of(fl["ty"]) for fl in st["fields"]})
        raise Unsupported("default of " + ty)

    # ------------------------------------------------------------------ calls
    def call(self, impl_self, name, args, impl_trait=None, file=None):
        f = self.find_fn(impl_self, name, impl_trait, file)
        if f is None:
            raise Unsupported("fn %s::%s not found" % (impl_self, name))
        return self.call_item(f[2], impl_self, args, f[0])

    def call_item(self, item, impl_self, args, file=None, memo=True):
        inputs = item["sig"]["inputs"]
        if len(inputs) != len(args):
            raise Unsupported("arity of " + item["name"])
        pure = memo and not any(i["ty"].startswith("&mut") for i in inputs)
        key = None
        if pure:
            try:
                key = (id(item), tuple(freeze(a) for a in args))
                if key in self._memo:
                    return copyv(self._memo[key])
            except TypeError:
                key = None
        fr = Frame({}, impl_self, file)
        for inp, a in zip(inputs, args):
            ty = inp["ty"]
            if inp["name"] == "self":
                fr.vars["self"] = a if ty.startswith("&") else copyv(a)
            else:
                v = a if ty.startswith("&") else copyv(a)
                if not self.match_pat(inp["pat"], v, fr.vars):
                    raise Unsupported("refutable parameter pattern")
        try:
            r = self.eval(item["body"], fr)
        except _Return as e:
            r = e.v
        if key is not None:
            self._memo[key] = copyv(r)
        return r

    # ------------------------------------------------------------------ operators
    def binop(self, op, a, b, memo=True):
        if isinstance(a, StructV) and op in _OP_TRAIT:
            tr, fn = _OP_TRAIT[op]
            f = self.find_fn(a.ty, fn, tr)
            if f is None:
                raise Unsupported("no impl %s for %s" % (tr, a.ty))
            return self.call_item(f[2], a.ty, [a, b], f[0], memo)
        if op in ("==", "!=") and isinstance(a, (bytes, list)) and isinstance(b, (bytes, list)) and type(a) is not type(b):
            a, b = list(a), list(b)            # byte-string literal (bytes) against a byte slice (list of ints): compare the elements
        if op == "==":
            return a == b
        if op == "!=":
            return a != b
        if isinstance(a, bool) and isinstance(b, bool):
            if op in ("&", "&&"):
                return a and b
            if op in ("|", "||"):
                return a or b
            if op == "^":
                return a != b
        if isinstance(a, (int, float)) and isinstance(b, (int, float)) and not isinstance(a, bool) and not isinstance(b, bool):
            if op == "+":
                return a + b
            if op == "-":
                return a - b
            if op == "*":
                return a * b
            if op == "/":
                if isinstance(a, int) and isinstance(b, int):
                    if b == 0:
                        raise Unsupported("division by zero")
                    return a // b if (a >= 0) == (b > 0) else -(abs(a) // abs(b))
                return a / b
            if op == "%":
                if isinstance(a, int) and isinstance(b, int) and b > 0 and a >= 0:
                    return a % b
                raise Unsupported("% on negative/float")
            if op == "<":
                return a < b
            if op == "<=":
                return a <= b
            if op == ">":
                return a > b
            if op == ">=":
                return a >= b
            if isinstance(a, int) and isinstance(b, int):
                if op == "&":
                    return a & b
                if op == "|":
                    return a | b
                if op == "^":
                    return a ^ b
                if op == "<<":
                    return a << b
                if op == ">>":
                    return a >> b
        if isinstance(a, EnumV) and isinstance(b, EnumV) and a.ty == b.ty and op in ("<", "<=", ">", ">="):
            ia, ib = self._enums[a.ty].index(a.name), self._enums[b.ty].index(b.name)
            return {"<": ia < ib, "<=": ia <= ib, ">": ia > ib, ">=": ia >= ib}[op]
        raise Unsupported("binop %s on %r, %r" % (op, type(a).__name__, type(b).__name__))

    def assign_op(self, op, obj, b):
        """`obj op= b` for a user struct through its XAssign impl; obj is mutated in place"""
        tr, fn = _OP_TRAIT[op]
        f = self.find_fn(obj.ty, fn, tr)
        if f is None:
            raise Unsupported("no impl %s for %s" % (tr, obj.ty))
        self.call_item(f[2], obj.ty, [obj, copyv(b)], f[0])

    # ------------------------------------------------------------------ patterns
    def match_pat(self, p, v, binds):
        k = p["k"]
        if k == "wild" or k == "rest":
            return True
        if k == "ident":
            if p["name"] == "None" and not p.get("sub"):
                return v == NONE
            if p["name"] in ("true", "false"):
                return v is (p["name"] == "true")
            if p.get("sub") and not self.match_pat(p["sub"], v, binds):
                return False
            binds[p["name"]] = v
            return True
        if k == "lit":
            lv = self._pat_bound(p["e"])
            if isinstance(lv, bytes) and isinstance(v, list):
                return list(lv) == v           # `b"i" => ..` against a byte slice
            return lv == v and isinstance(v, bool) == isinstance(lv, bool)
        if k == "range":
            lo = self._pat_bound(p["lo"]) if p.get("lo") else None
            hi = self._pat_bound(p["hi"]) if p.get("hi") else None
            if isinstance(v, bool) or not isinstance(v, (int, float)):
                return False
            if lo is not None and v < lo:
                return False
            if hi is not None and (v > hi or (v == hi and not p["incl"])):
                return False
            return True
        if k == "or":
            for c in p["cases"]:
                b2 = {}
                if self.match_pat(c, v, b2):
                    binds.update(b2)
                    return True
            return False
        if k == "tuple" or k == "slice":
            el = p["elems"]
            if any(e["k"] == "rest" for e in el):
                raise Unsupported("rest pattern")
            if not isinstance(v, (tuple, list)) or isinstance(v, EnumV) or len(v) != len(el):
                return False
            return all(self.match_pat(e, x, binds) for e, x in zip(el, v))
        if k == "tstruct":
            nm = _last(p["path"])
            if nm in ("Some", "Ok", "Err"):
                if not (isinstance(v, tuple) and len(v) == 2 and v[0] == nm):
                    return False
                return self.match_pat(p["elems"][0], v[1], binds)
            raise Unsupported("tuple-struct pattern " + p["path"])
        if k == "path":
            return self._path_value(p["p"], Frame(file=getattr(self, "_pat_file", None))) == v
        if k == "ref":
            return self.match_pat(p["pat"], v, binds)
        raise Unsupported("pattern " + k)

    def _pat_bound(self, e):
        """value of a literal pattern / range-pattern bound: a literal or a named constant (`0..CUBE_OFFSET`, `consts::LIMIT..=255`)"""
        if e["k"] == "paren":
            return self._pat_bound(e["e"])
        if e["k"] == "un" and e["op"] == "-":
            return -self._pat_bound(e["e"])
        if e["k"] == "path":
            return self._path_value(e["p"], Frame(file=getattr(self, "_pat_file", None)))
        return self._lit(e)

    # ------------------------------------------------------------------ expressions
    def _lit(self, e):
        if e["k"] == "un" and e["op"] == "-":
            return -self._lit(e["e"])
        if e["k"] != "lit":
            raise Unsupported("literal expected")
        t = e["t"]
        if t == "int":
            return int(e["v"])
        if t == "float":
            return float(e["v"])
        if t == "bool":
            return bool(e["v"])
        if t in ("byte", "char"):
            return int(e["v"])
        if t == "str":
            return e["v"]
        if t == "bytestr":
            return bytes(e["v"])
        raise Unsupported("literal " + t)

    def _path_value(self, p, fr):
        if p in fr.vars:
            return fr.vars[p]
        segs = p.split("::")
        if len(segs) >= 2:
            ty = segs[-2]
            if ty == "Self":
                ty = fr.self_ty
            if ty in self._enums and segs[-1] in self._enums[ty]:
                return EnumV(ty, segs[-1])
            v = self.const(ty, segs[-1])
            if v is not None:
                return v
            raise Unsupported("path " + p)
        if p == "None":
            return NONE
        v = self.const(None, p, fr.file)
        if v is None:
            v = self.const(None, p)
        if v is not None:
            return v
        raise Unsupported("path " + p)

    def place(self, e, fr):
        """evaluate without copying (reference to the stored object)"""
        k = e["k"]
        if k == "path":
            return self._path_value(e["p"], fr)
        if k == "field":
            b = self.place(e["e"], fr)
            if isinstance(b, StructV):
                if e["name"] not in b.fields:
                    raise Unsupported("field " + e["name"])
                return b.fields[e["name"]]
            if isinstance(b, tuple) and e["name"].isdigit():
                return b[int(e["name"])]
            raise Unsupported("field of non-struct")
        if k == "index":
            b = self.place(e["e"], fr)
            i = self.eval(e["i"], fr)
            if not isinstance(b, (list, bytes)) or not isinstance(i, int) or not (0 <= i < len(b)):
                raise Unsupported("index out of range or not an array")
            return b[i]
        if k == "un" and e["op"] == "*":
            return self.place(e["e"], fr)
        if k == "ref":
            return self.place(e["e"], fr)
        if k == "paren":
            return self.place(e["e"], fr)
        return self.eval(e, fr)

    def store(self, e, fr, v):
        k = e["k"]
        if k == "path":
            if e["p"] not in fr.vars:
                raise Unsupported("assignment to non-local " + e["p"])
            fr.vars[e["p"]] = v
            return
        if k == "field":
            b = self.place(e["e"], fr)
            if not isinstance(b, StructV):
                raise Unsupported("field store")
            b.fields[e["name"]] = v
            return
        if k == "index":
            b = self.place(e["e"], fr)
            b[self.eval(e["i"], fr)] = v
            return
        if k == "un" and e["op"] == "*":
            tgt = self.place(e["e"], fr)
            if isinstance(tgt, StructV) and isinstance(v, StructV):
                tgt.ty = v.ty
                tgt.fields = copyv(v).fields
                return
            raise Unsupported("store through reference to non-struct")
        raise Unsupported("store to " + k)

    def eval(self, e, fr):
        self.steps += 1
        if self.steps > self.max_steps:
            raise Unsupported("step budget exhausted")
        k = e["k"]
        m = self._dispatch.get(k)
        if m is None:
            m = getattr(self, "_e_" + k, None)
            if m is None:
                raise Unsupported("expression kind " + k)
            self._dispatch[k] = m
        return m(e, fr)

    def _e_lit(self, e, fr):
        return self._lit(e)

    def _e_path(self, e, fr):
        return copyv(self._path_value(e["p"], fr))

    def _e_paren(self, e, fr):
        return self.eval(e["e"], fr)

    def _e_field(self, e, fr):
        return copyv(self.place(e, fr))

    def _e_index(self, e, fr):
        return copyv(self.place(e, fr))

    def _e_ref(self, e, fr):
        return self.place(e["e"], fr)

    def _e_cast(self, e, fr):
        v = self.eval(e["e"], fr)
        ty = e["ty"].replace(" ", "")
        if ty in _INT_TY and isinstance(v, (int, float)):
            return int(v) & ((1 << _INT_TY[ty]) - 1) if isinstance(v, int) else max(0, min(int(v), (1 << _INT_TY[ty]) - 1))
        if ty in ("f32", "f64") and isinstance(v, (int, float)):
            return float(v)
        if re.fullmatch(r"i(8|16|32|64|size)", ty) and isinstance(v, int) and not isinstance(v, bool):
            return v
        raise Unsupported("cast to " + ty)

    def _e_un(self, e, fr):
        op = e["op"]
        if op == "*":
            return copyv(self.place(e["e"], fr))
        v = self.eval(e["e"], fr)
        if op == "!" and isinstance(v, bool):
            return not v
        if op == "-" and isinstance(v, (int, float)) and not isinstance(v, bool):
            return -v
        raise Unsupported("unary " + op)

    def _e_bin(self, e, fr):
        op = e["op"]
        if op == "&&":
            return self.eval(e["l"], fr) and self.eval(e["r"], fr)
        if op == "||":
            return self.eval(e["l"], fr) or self.eval(e["r"], fr)
        if op.endswith("=") and op not in ("==", "!=", "<=", ">="):
            cur = self.place(e["l"], fr)
            r = self.eval(e["r"], fr)
            if isinstance(cur, StructV):
                self.assign_op(op, cur, r)
            else:
                self.store(e["l"], fr, self.binop(op[:-1], cur, r))
            return ()
        return self.binop(op, self.eval(e["l"], fr), self.eval(e["r"], fr))

    def _e_assign(self, e, fr):
        self.store(e["l"], fr, self.eval(e["r"], fr))
        return ()

    def _e_array(self, e, fr):
        return [self.eval(x, fr) for x in e["elems"]]

    def _e_tuple(self, e, fr):
        return tuple(self.eval(x, fr) for x in e.get("elems") or [])

    def _e_range(self, e, fr):
        lo = self.eval(e["lo"], fr) if e.get("lo") else 0
        if not e.get("hi"):
            raise Unsupported("open range")
        hi = self.eval(e["hi"], fr)
        return list(range(lo, hi + (1 if e["incl"] else 0)))

    def _e_struct(self, e, fr):
        ty = _last(e["path"])
        if ty == "Self":
            ty = fr.self_ty
        if ty not in self._structs:
            raise Unsupported("struct literal " + e["path"])
        fields = {}
        if e.get("rest"):
            base = self.eval(e["rest"], fr)
            if not isinstance(base, StructV) or base.ty != ty:
                raise Unsupported("struct rest")
            fields = copyv(base).fields
        for f in e["fields"]:
            fields[f["name"]] = self.eval(f["e"], fr)
        want = [f["name"] for f in self._structs[ty]["fields"]]
        if sorted(fields) != sorted(want):
            raise Unsupported("struct literal fields of " + ty)
        return StructV(ty, {n: fields[n] for n in want})

    def _cond(self, c, fr):
        if c["k"] == "letcond":
            v = self.eval(c["e"], fr)
            b = {}
            self._pat_file = fr.file
            if self.match_pat(c["pat"], v, b):
                fr.vars.update(b)
                return True
            return False
        v = self.eval(c, fr)
        if not isinstance(v, bool):
            raise Unsupported("non-bool condition")
        return v

    def _e_if(self, e, fr):
        if self._cond(e["cond"], fr):
            return self.eval(e["then"], fr)
        if e.get("else"):
            return self.eval(e["else"], fr)
        return ()

    def _e_match(self, e, fr):
        v = self.eval(e["e"], fr)
        return self.match_value(e, v, fr)

    def match_value(self, e, v, fr, as_fn_body=False):
        """evaluate the arm of match node `e` selected by value v (scrutinee not evaluated).
        as_fn_body=True: the match is in tail position of its function, so a `return` / `?` inside the arm yields the value"""
        if as_fn_body:
            try:
                return self.match_value(e, v, fr)
            except _Return as r:
                return r.v
        self._pat_file = fr.file
        for arm in e["arms"]:
            b = {}
            if self.match_pat(arm["pat"], v, b):
                if arm.get("guard"):
                    fr.vars.update(b)
                    if not self._cond(arm["guard"], fr):
                        continue
                fr.vars.update(b)
                return self.eval(arm["body"], fr)
        raise Unsupported("no arm matches %r" % (v,))

    def _e_block(self, e, fr):
        last = ()
        stmts = e.get("stmts") or []
        for i, s in enumerate(stmts):
            sk = s["k"]
            if sk == "let":
                if s.get("init") is None:
                    raise Unsupported("let without init")
                v = self.eval(s["init"], fr)
                if not self.match_pat(s["pat"], v, fr.vars):
                    if s.get("else"):
                        self.eval(s["else"], fr)
                    raise Unsupported("refutable let")
                last = ()
            elif sk == "expr":
                v = self.eval(s["e"], fr)
                last = () if s.get("semi") else v
            elif sk in ("item", "fn", "const", "use", "macroitem"):
                last = ()
            else:
                raise Unsupported("statement " + sk)
        return last

    def _e_unsafe(self, e, fr):
        raise Unsupported("unsafe")

    def _e_for(self, e, fr):
        it = self.eval(e["iter"], fr)
        if not isinstance(it, list):
            raise Unsupported("for over non-array")
        for x in it:
            if not self.match_pat(e["pat"], x, fr.vars):
                raise Unsupported("refutable for pattern")
            try:
                self.eval(e["body"], fr)
            except _Break:
                break
            except _Continue:
                continue
        return ()

    def _e_while(self, e, fr):
        n = 0
        while self._cond(e["cond"], fr):
            n += 1
            if n > 100000:
                raise Unsupported("loop bound")
            try:
                self.eval(e["body"], fr)
            except _Break:
                break
            except _Continue:
                continue
        return ()

    def _e_closure(self, e, fr):
        return ClosureV(e.get("params") or [], e["body"], fr)

    def call_closure(self, c, args):
        if len(c.params) != len(args):
            raise Unsupported("closure arity")
        fr = Frame(dict(c.frame.vars), c.frame.self_ty, c.frame.file)
        for p, a in zip(c.params, args):
            if not self.match_pat(p, a, fr.vars):
                raise Unsupported("refutable closure parameter")
        try:
            return self.eval(c.body, fr)
        except _Return as r:
            return r.v

    def _e_return(self, e, fr):
        raise _Return(self.eval(e["e"], fr) if e.get("e") else ())

    def _e_break(self, e, fr):
        raise _Break()

    def _e_continue(self, e, fr):
        raise _Continue()

    def _e_try(self, e, fr):
        v = self.eval(e["e"], fr)
        if isinstance(v, tuple) and len(v) == 2 and v[0] in ("Some", "Ok"):
            return v[1]
        if v == NONE or (isinstance(v, tuple) and len(v) == 2 and v[0] == "Err"):
            raise _Return(v)
        raise Unsupported("? on non Option/Result")

    def _e_macro(self, e, fr):
        if e.get("short") == "matches" and e.get("extra", {}).get("pat") is not None:
            v = self.eval(e["extra"]["scrutinee"], fr)
            return self.match_pat(e["extra"]["pat"], v, {})
        raise Unsupported("macro " + str(e.get("short")))

    def _e_call(self, e, fr):
        f = e["f"]
        if f["k"] != "path":
            raise Unsupported("call of non-path")
        p = f["p"]
        args_e = e.get("args") or []
        segs = p.split("::")
        name = segs[-1]
        if p in ("Some", "Ok", "Err") and len(args_e) == 1:
            return (p, self.eval(args_e[0], fr))
        if p in self.extern_fns:
            return self.extern_fns[p]([self.place(a, fr) for a in args_e])
        if len(segs) == 1:
            if p in fr.vars:
                raise Unsupported("call of local closure " + p)
            fn = self.find_fn(None, name, file=fr.file)
            if fn is None:
                raise Unsupported("free fn " + p)
            return self._apply(fn, None, args_e, fr)
        ty = segs[-2]
        if ty == "Self":
            ty = fr.self_ty
        if name == "default" and not args_e:
            return self.default_of(ty)
        if name == "try_from" and len(segs) == 2 and len(args_e) == 1 and (ty in _INT_TY or re.fullmatch(r"i(8|16|32|64)", ty)):
            v = self.eval(args_e[0], fr)
            if isinstance(v, bool) or not isinstance(v, int):
                raise Unsupported("try_from of non-integer")
            if ty in _INT_TY:
                lo, hi = 0, (1 << _INT_TY[ty]) - 1
            else:
                bits = int(ty[1:])
                lo, hi = -(1 << (bits - 1)), (1 << (bits - 1)) - 1
            return ("Ok", v) if lo <= v <= hi else ("Err", ())
        fn = self.find_fn(ty, name)
        if fn is None:
            raise Unsupported("fn " + p)
        return self._apply(fn, ty, args_e, fr)

    def _apply(self, fn, ty, args_e, fr, recv=None):
        file, tr, item = fn
        inputs = item["sig"]["inputs"]
        vals = []
        es = list(args_e)
        for inp in inputs:
            if inp["name"] == "self" and recv is not None:
                vals.append(recv)
                continue
            if not es:
                raise Unsupported("arity of " + item["name"])
            a = es.pop(0)
            vals.append(self.place(a, fr) if inp["ty"].startswith("&") else self.eval(a, fr))
        if es:
            raise Unsupported("arity of " + item["name"])
        return self.call_item(item, ty, vals, file)

    def _e_mcall(self, e, fr):
        m = e["m"]
        recv = self.place(e["recv"], fr)
        args_e = e.get("args") or []
        ty = recv.ty if isinstance(recv, (StructV, EnumV)) else None
        if ty is not None:
            fn = self.find_fn(ty, m)
            if fn is not None:
                return self._apply(fn, ty, args_e, fr, recv=recv)
        if m in self.extern_methods:
            return self.extern_methods[m](recv, [self.place(a, fr) for a in args_e])
        if m == "into" and ty is not None and not args_e:
            cands = [(f, s, tr, item) for (f, s, tr, item, t) in self.src.fns
                     if not t and item["name"] == "from" and tr is not None and tr.replace(" ", "") == "From<%s>" % ty]
            if len(cands) == 1:
                f, s, tr, item = cands[0]
                return self.call_item(item, s, [copyv(recv)], f)
            raise Unsupported("into() target of " + ty)
        if m == "map" and isinstance(recv, list) and len(args_e) == 1:
            f = self.eval(args_e[0], fr)
            if not isinstance(f, ClosureV):
                raise Unsupported("map with a non-closure argument")
            return [self.call_closure(f, [copyv(x)]) for x in recv]
        if m == "ok" and not args_e and isinstance(recv, tuple) and len(recv) == 2 and recv[0] in ("Ok", "Err"):
            return some(recv[1]) if recv[0] == "Ok" else NONE
        if m in ("clone", "to_owned") and not args_e:
            return copyv(recv)
        if m == "len" and isinstance(recv, (list, bytes)) and not args_e:
            return len(recv)
        if m == "unwrap" and isinstance(recv, tuple) and len(recv) == 2 and recv[0] in ("Some", "Ok"):
            return recv[1]
        if m == "is_some":
            return recv != NONE
        if m == "is_none":
            return recv == NONE
        if m == "abs" and isinstance(recv, (int, float)):
            return abs(recv)
        raise Unsupported("method %s on %s" % (m, ty or type(recv).__name__))


# =====================================================================================================
# Symbolic walker for "chunk emission" code (no values: the *shape* of what a block writes, in order)
# =====================================================================================================
def subst(e, env):
    """deep copy of expression `e` with single-segment paths named in env replaced by env[name] (an expr node)"""
    if isinstance(e, dict):
        if e.get("k") == "path" and e["p"] in env:
            return env[e["p"]]
        return {k: (v if k == "tokens" else subst(v, env)) for k, v in e.items()}
    if isinstance(e, list):
        return [subst(x, env) for x in e]
    return e


def strip_try(e):
    while isinstance(e, dict) and e.get("k") in ("try", "paren"):
        e = e["e"]
    return e


def pat_names(p):
    """identifier names bound by a pattern, in source order"""
    out = []
    if not isinstance(p, dict):
        return out
    k = p.get("k")
    if k == "ident":
        if p["name"] not in ("None",):
            out.append(p["name"])
        if p.get("sub"):
            out += pat_names(p["sub"])
    elif k in ("tuple", "slice", "tstruct"):
        for x in p["elems"]:
            out += pat_names(x)
    elif k == "or":
        out += pat_names(p["cases"][0])
    elif k == "ref":
        out += pat_names(p["pat"])
    elif k == "struct":
        for f in p["fields"]:
            out += pat_names(f.get("pat")) if f.get("pat") else [f["name"]]
    return out


def emissions(node, env=None):
    """Ordered symbolic items of a block/expression that writes SGR chunks.  Items (tuples, first element = kind):
         ("push", bytes_or_None, arg_expr, recv_expr)      <recv>.push(arg); bytes when arg is a byte-string literal (after substitution)
         ("write", fmt_str_or_None, [arg exprs], dst_expr) write!(dst, fmt, args..)
         ("mark", recv_expr)                               <recv>.mark()
         ("call", path, [arg exprs])                       statement-level call of a path (e.g. color_sgr_encode(..)?)
         ("mcall", recv_expr, method, [arg exprs])         any other statement-level method call (clear, drain, write_all ...)
         ("if", cond_expr, [items], [items])               cond is an expression node, or a `letcond` node for `if let`
         ("match", scrutinee_expr, [(pat, [items])])
         ("let", pat, init_expr)
         ("return", expr_or_None)
         ("value", expr)                                   trailing expression that is none of the above
         ("unknown", node)                                 statement kind the walker does not understand
       `for PAT in [row, ..] { body }` over an array literal is unrolled; PAT's names are substituted by the row's
       element expressions (tuple rows element-wise), so table rows appear as per-row conditions/emissions.
       All expressions are returned after substitution; `?` is stripped from statement heads."""
    env = env or {}
    out = []
    if node is None:
        return out
    if node.get("k") == "block":
        for s in node.get("stmts") or []:
            if s["k"] == "let":
                init = subst(s["init"], env) if s.get("init") is not None else None
                env = {k: v for k, v in env.items() if k not in pat_names(s["pat"])}
                out.append(("let", s["pat"], init))
            elif s["k"] == "expr":
                out += emissions(s["e"], env)
            else:
                out.append(("unknown", s))
        return out
    e = strip_try(node)
    k = e["k"]
    if k == "block":
        return emissions(e, env)
    if k == "mcall":
        args = [subst(a, env) for a in e.get("args") or []]
        recv = subst(e["recv"], env)
        if e["m"] == "push" and len(args) == 1:
            a = args[0]
            while a.get("k") in ("ref", "paren"):
                a = a["e"]
            b = bytes(a["v"]) if a.get("k") == "lit" and a["t"] == "bytestr" else None
            return [("push", b, args[0], recv)]
        if e["m"] == "mark" and not args:
            return [("mark", recv)]
        return [("mcall", recv, e["m"], args)]
    if k == "macro" and e.get("short") in ("write", "writeln"):
        a = [subst(x, env) for x in e.get("args") or []]
        if len(a) >= 2:
            fmt = a[1]["v"] if a[1].get("k") == "lit" and a[1]["t"] == "str" else None
            return [("write", fmt, a[2:], a[0])]
        return [("unknown", e)]
    if k == "call" and e["f"]["k"] == "path":
        return [("call", e["f"]["p"], [subst(a, env) for a in e.get("args") or []])]
    if k == "if":
        c = e["cond"]
        inner = env
        if c["k"] == "letcond":
            c = dict(c)
            c["e"] = subst(c["e"], env)
            inner = {kk: v for kk, v in env.items() if kk not in pat_names(c["pat"])}
        else:
            c = subst(c, env)
        return [("if", c, emissions(e["then"], inner), emissions(e["else"], env) if e.get("else") else [])]
    if k == "match":
        arms = []
        for arm in e["arms"]:
            inner = {kk: v for kk, v in env.items() if kk not in pat_names(arm["pat"])}
            arms.append((arm["pat"], emissions(arm["body"], inner)))
        return [("match", subst(e["e"], env), arms)]
    if k == "for":
        it = e["iter"]
        while it.get("k") in ("ref", "paren"):
            it = it["e"]
        if it.get("k") != "array":
            return [("unknown", e)]
        for row in it["elems"]:
            row = subst(row, env)
            inner = dict(env)
            p = e["pat"]
            if p["k"] == "ident":
                inner[p["name"]] = row
            elif p["k"] == "tuple" and row.get("k") == "tuple" and len(p["elems"]) == len(row["elems"]) and all(x["k"] in ("ident", "wild") for x in p["elems"]):
                for x, v in zip(p["elems"], row["elems"]):
                    if x["k"] == "ident":
                        inner[x["name"]] = v
            else:
                return [("unknown", e)]
            out += emissions(e["body"], inner)
        return out
    if k == "return":
        return [("return", subst(e["e"], env) if e.get("e") else None)]
    return [("value", subst(e, env))]


# =====================================================================================================
# Third part: StdInterp — Interp plus models of std items (deciding on values, not on idioms)
# =====================================================================================================
class Panic(Unsupported):
    """evaluation reached panic!/unreachable!/a failing assert!/unwrap() of None — the denotation is `diverges`"""


class _BreakV(_Break):
    def __init__(self, v=()):
        self.v = v


ORDERING = ["Less", "Equal", "Greater"]
_NOIMPL = object()
_PANIC_MACROS = ("panic", "unreachable", "unimplemented", "todo")
_FMT_RX = re.compile(r"\{\{|\}\}|\{([A-Za-z_][A-Za-z0-9_]*|\d*)(?::([^}]*))?\}|\{|\}")
_SPEC_RX = re.compile(r"^(?:(.)?([<^>]))?([+-])?(#)?(0)?(\d+)?(?:\.(\d+))?([xXob?e]?)$")


def ordering_of(a, b):
    if isinstance(a, EnumV) and isinstance(b, EnumV):
        return None
    try:
        if a < b:
            return EnumV("Ordering", "Less")
        if a > b:
            return EnumV("Ordering", "Greater")
        if a == b:
            return EnumV("Ordering", "Equal")
    except TypeError:
        pass
    return None


def is_optres(v):
    return isinstance(v, tuple) and not isinstance(v, EnumV) and ((len(v) == 2 and v[0] in ("Some", "Ok", "Err")) or v == NONE)


def _isnum(v):
    return isinstance(v, (int, float)) and not isinstance(v, bool)


def _isint(v):
    return isinstance(v, int) and not isinstance(v, bool)


class StdInterp(Interp):
    STD_PATHS = {
        "u8::MAX": 255, "u16::MAX": 65535, "u32::MAX": 0xFFFFFFFF, "u64::MAX": (1 << 64) - 1, "usize::MAX": (1 << 64) - 1,
        "u8::MIN": 0, "u16::MIN": 0, "u32::MIN": 0, "u64::MIN": 0, "usize::MIN": 0,
        "i8::MAX": 127, "i16::MAX": 32767, "i32::MAX": (1 << 31) - 1, "i64::MAX": (1 << 63) - 1, "isize::MAX": (1 << 63) - 1,
        "i8::MIN": -128, "i16::MIN": -32768, "i32::MIN": -(1 << 31), "i64::MIN": -(1 << 63), "isize::MIN": -(1 << 63),
        "u8::BITS": 8, "u16::BITS": 16, "u32::BITS": 32, "u64::BITS": 64, "usize::BITS": 64,
        "f32::INFINITY": float("inf"), "f64::INFINITY": float("inf"), "f32::NEG_INFINITY": float("-inf"), "f64::NEG_INFINITY": float("-inf"),
        "f32::MAX": 3.4028234663852886e38, "f32::MIN": -3.4028234663852886e38, "f64::MAX": 1.7976931348623157e308, "f64::MIN": -1.7976931348623157e308,
        "char::REPLACEMENT_CHARACTER": ("char", 0xFFFD), "char::MAX": ("char", 0x10FFFF),
    }

    def __init__(self, src, max_steps=200_000_000):
        super().__init__(src, max_steps)
        self._enums.setdefault("Ordering", list(ORDERING))
        self.assumed = set()          # modelling assumptions that were actually used (types are not tracked)
        self.extern_fns.setdefault("Vec::new", lambda a: [])
        self.extern_fns.setdefault("Vec::with_capacity", lambda a: [])
        self.extern_fns.setdefault("Vec::from", lambda a: list(a[0]))
        self.extern_fns.setdefault("usize::from", lambda a: _int_from(a[0]))
        self.extern_fns.setdefault("u32::from", lambda a: _int_from(a[0]))
        self.extern_fns.setdefault("u64::from", lambda a: _int_from(a[0]))

    def default_of(self, ty):
        t = ty.replace(" ", "")
        if t.startswith("Vec<") or t.startswith("VecDeque<"):
            return []
        if t == "String":
            return ""
        return super().default_of(ty)

    # ------------------------------------------------------------------ paths
    def _path_value(self, p, fr):
        if p in fr.vars:
            return fr.vars[p]
        q = re.sub(r"^(::)?(std|core)::(\w+::)*(?=\w+::\w+$)", "", p)
        if q in self.STD_PATHS:
            return self.STD_PATHS[q]
        if p in ORDERING:
            return EnumV("Ordering", p)
        try:
            return super()._path_value(q, fr)
        except Unsupported:
            if p in self.extern_fns or q in self.extern_fns:
                return FnRef(p if p in self.extern_fns else q, None)
            segs = q.split("::")
            fn = self.find_fn(None, segs[-1], file=fr.file) if len(segs) == 1 else self.find_fn(fr.self_ty if segs[-2] == "Self" else segs[-2], segs[-1])
            if fn is not None:
                return FnRef(q, (fn, None if len(segs) == 1 else (fr.self_ty if segs[-2] == "Self" else segs[-2])))
            if q in _STD_FN_REFS:
                return FnRef(q, None)
            raise

    # ------------------------------------------------------------------ places
    def place(self, e, fr):
        if e.get("k") == "index" and isinstance(e.get("i"), dict) and e["i"].get("k") == "range":
            b = self.place(e["e"], fr)
            r = e["i"]
            if not isinstance(b, (list, bytes, str)):
                raise Unsupported("range index into a non-slice")
            lo = self.eval(r["lo"], fr) if r.get("lo") else 0
            hi = (self.eval(r["hi"], fr) + (1 if r["incl"] else 0)) if r.get("hi") else len(b)
            if not _isint(lo) or not _isint(hi):
                raise Unsupported("slice range bounds")
            if not (0 <= lo <= hi <= len(b)):
                raise Panic("slice range %d..%d out of bounds of length %d" % (lo, hi, len(b)))
            return b[lo:hi] if isinstance(b, str) else list(b[lo:hi])
        if e.get("k") == "index":
            b = self.place(e["e"], fr)
            i = self.eval(e["i"], fr)
            if isinstance(b, (list, bytes)) and _isint(i) and not (0 <= i < len(b)):
                raise Panic("index %d out of bounds of length %d" % (i, len(b)))
            if not isinstance(b, (list, bytes)) or not _isint(i):
                raise Unsupported("index into a non-array")
            return b[i]
        return super().place(e, fr)

    # ------------------------------------------------------------------ control flow not in the base
    def _e_block(self, e, fr):
        for s in e.get("stmts") or []:
            if s["k"] == "item" and isinstance(s.get("item"), dict):
                item = s["item"]
                if item.get("k") == "fn" and item.get("body") is not None:
                    fr.vars[item["name"]] = LocalFn(item, fr.file)
        for s in e.get("stmts") or []:
            if s["k"] == "item" and isinstance(s.get("item"), dict):
                item = s["item"]
                if item.get("k") in ("const", "static") and item.get("expr") is not None:
                    fr.vars[item["name"]] = self.eval(item["expr"], fr)
        return super()._e_block(e, fr)

    def _e_unsafe(self, e, fr):
        return self.eval(e["block"], fr)

    def _e_loop(self, e, fr):
        n = 0
        while True:
            n += 1
            if n > 100000:
                raise Unsupported("loop bound")
            try:
                self.eval(e["body"], fr)
            except _Break as b:
                return getattr(b, "v", ())
            except _Continue:
                continue

    def _e_break(self, e, fr):
        raise _BreakV(self.eval(e["e"], fr) if e.get("e") else ())

    def _e_repeat(self, e, fr):
        n = self.eval(e["n"], fr)
        if not _isint(n) or n < 0 or n > 1 << 20:
            raise Unsupported("repeat length")
        v = self.eval(e["e"], fr)
        return [copyv(v) for _ in range(n)]

    def _e_range(self, e, fr):
        lo = self.eval(e["lo"], fr) if e.get("lo") else 0
        if not e.get("hi"):
            raise Unsupported("open range")
        hi = self.eval(e["hi"], fr)
        if not _isint(lo) or not _isint(hi) or hi - lo > 1 << 22:
            raise Unsupported("range bounds")
        return list(range(lo, hi + (1 if e["incl"] else 0)))

    def _e_for(self, e, fr):
        it = self.eval(e["iter"], fr)
        if isinstance(it, bytes):
            it = list(it)
        if not isinstance(it, list):
            raise Unsupported("for over non-array")
        for x in list(it):
            if not self.match_pat(e["pat"], x, fr.vars):
                raise Unsupported("refutable for pattern")
            try:
                self.eval(e["body"], fr)
            except _Break:
                break
            except _Continue:
                continue
        return ()

    def _e_cast(self, e, fr):
        v = self.eval(e["e"], fr)
        ty = e["ty"].replace(" ", "")
        if isinstance(v, tuple) and len(v) == 2 and v[0] == "char" and (ty in _INT_TY or re.fullmatch(r"i(32|64|size)", ty)):
            return v[1] & ((1 << _INT_TY[ty]) - 1) if ty in _INT_TY else v[1]
        if isinstance(v, bool) and (ty in _INT_TY or re.fullmatch(r"i(8|16|32|64|size)", ty)):
            return int(v)
        if ty in _INT_TY and isinstance(v, float):
            if v != v:
                return 0
            return max(0, min(int(v), (1 << _INT_TY[ty]) - 1))          # `as` saturates (and truncates toward zero)
        m = re.fullmatch(r"i(8|16|32|64|size)", ty)
        if m and isinstance(v, float):
            bits = 64 if m.group(1) == "size" else int(m.group(1))
            if v != v:
                return 0
            return max(-(1 << (bits - 1)), min(int(v), (1 << (bits - 1)) - 1))
        if m and _isint(v):
            bits = 64 if m.group(1) == "size" else int(m.group(1))
            v &= (1 << bits) - 1
            return v - (1 << bits) if v >> (bits - 1) else v
        if ty in _INT_TY and _isint(v):
            return v & ((1 << _INT_TY[ty]) - 1)
        if ty == "u128" and _isint(v) and v >= 0:
            return v
        if ty == "char" and _isint(v) and 0 <= v < 256:
            return ("char", v)
        return super()._e_cast({"k": "cast", "e": {"k": "$value", "v": v}, "ty": e["ty"]}, fr)

    def eval(self, e, fr):
        if e.get("k") == "$value":
            return e["v"]
        return super().eval(e, fr)

    # ------------------------------------------------------------------ patterns
    def match_pat(self, p, v, binds):
        k = p["k"]
        if k == "struct" and isinstance(v, StructV) and _last(p["path"]) in (v.ty, "Self"):
            for f in p["fields"]:
                if f["name"] not in v.fields or not self.match_pat(f["pat"], v.fields[f["name"]], binds):
                    return False
            return True
        if k == "path" and p["p"] in ORDERING:
            return v == EnumV("Ordering", p["p"])
        if k == "ident" and p["name"] in ORDERING and not p.get("sub") and isinstance(v, EnumV) and v.ty == "Ordering":
            return v.name == p["name"]
        if k == "lit" and isinstance(v, tuple) and len(v) == 2 and v[0] == "char" and p["e"].get("t") == "char":
            return self._lit(p["e"]) == v[1]
        if k in ("tuple", "slice") and any(x["k"] == "rest" for x in p["elems"]) and isinstance(v, (tuple, list)) and not isinstance(v, EnumV):
            el = p["elems"]
            ri = [i for i, x in enumerate(el) if x["k"] == "rest"]
            if len(ri) != 1 or len(v) < len(el) - 1:
                return False if len(ri) == 1 else _raise(Unsupported("two rest patterns"))
            head, tail = el[:ri[0]], el[ri[0] + 1:]
            vs = list(v)
            return all(self.match_pat(a, x, binds) for a, x in zip(head, vs[:len(head)])) and \
                all(self.match_pat(a, x, binds) for a, x in zip(tail, vs[len(vs) - len(tail):]))
        return super().match_pat(p, v, binds)

    # ------------------------------------------------------------------ macros
    def _e_macro(self, e, fr):
        sh = e.get("short")
        if sh in ("debug_assert", "debug_assert_eq", "debug_assert_ne"):
            return ()             # compiled out in release builds; whether it can fire is another rule's obligation (DEBUGCHK)
        args = e.get("args")
        if sh in _PANIC_MACROS:
            raise Panic("%s! reached" % sh)
        if sh == "assert" and args:
            if self._cond(args[0], fr) is not True:
                raise Panic("assert! fails")
            return ()
        if sh in ("assert_eq", "assert_ne") and args and len(args) >= 2:
            a, b = self.eval(args[0], fr), self.eval(args[1], fr)
            if (a == b) != (sh == "assert_eq"):
                raise Panic("%s! fails" % sh)
            return ()
        if sh in ("write", "writeln") and args and len(args) >= 2:
            dst = self.place(args[0], fr)
            text = self.format(args[1:], fr) + ("\n" if sh == "writeln" else "")
            return self.write_to(dst, text.encode("utf-8"), fr)
        if sh == "format" and args:
            return self.format(args, fr)
        if sh == "vec":
            if args is not None:
                return [self.eval(a, fr) for a in args]
            rep = (e.get("extra") or {}).get("repeat")
            if rep:
                return self._e_repeat({"e": rep[0], "n": rep[1]}, fr)
        return super()._e_macro(e, fr)

    def write_to(self, dst, data, fr):
        """`write!(dst, ..)` once the text is formatted: io::Write::write_fmt -> write_all -> write (or fmt::Write::write_str)"""
        if isinstance(dst, list):
            dst.extend(data)
            return ("Ok", ())
        if isinstance(dst, StructV):
            f = self.find_fn(dst.ty, "write_all", "Write")
            if f is not None:
                return self.call_item(f[2], dst.ty, [dst, list(data)], f[0])
            f = self.find_fn(dst.ty, "write", "Write")
            if f is not None:
                rest = list(data)
                for _ in range(len(data) + 1):
                    if not rest:
                        return ("Ok", ())
                    r = self.call_item(f[2], dst.ty, [dst, rest], f[0])
                    if not (isinstance(r, tuple) and len(r) == 2 and r[0] in ("Ok", "Err")):
                        raise Unsupported("Write::write result")
                    if r[0] == "Err":
                        return r
                    if not _isint(r[1]) or r[1] <= 0 or r[1] > len(rest):
                        return ("Err", "WriteZero")
                    rest = rest[r[1]:]
                return ("Ok", ())
            f = self.find_fn(dst.ty, "write_str", "Write") or self.find_fn(dst.ty, "write_str", "fmt::Write")
            if f is not None:
                return self.call_item(f[2], dst.ty, [dst, data.decode("utf-8")], f[0])
        raise Unsupported("write! into %s" % (dst.ty if isinstance(dst, StructV) else type(dst).__name__))

    def format(self, args_e, fr):
        f0 = args_e[0]
        if f0.get("k") != "lit" or f0.get("t") != "str":
            raise Unsupported("format string is not a literal")
        pos, named = [], {}
        for a in args_e[1:]:
            if a.get("k") == "assign" and a["l"].get("k") == "path":
                named[a["l"]["p"]] = self.eval(a["r"], fr)
            else:
                pos.append(self.eval(a, fr))
        out = []
        nxt = [0]
        last = 0
        fmt = f0["v"]
        for m in _FMT_RX.finditer(fmt):
            out.append(fmt[last:m.start()])
            last = m.end()
            t = m.group(0)
            if t == "{{":
                out.append("{")
                continue
            if t == "}}":
                out.append("}")
                continue
            if t in ("{", "}"):
                raise Unsupported("format string")
            name = m.group(1)
            if name == "":
                if nxt[0] >= len(pos):
                    raise Unsupported("format arguments")
                v = pos[nxt[0]]
                nxt[0] += 1
            elif name.isdigit():
                if int(name) >= len(pos):
                    raise Unsupported("format arguments")
                v = pos[int(name)]
            elif name in named:
                v = named[name]
            else:
                v = self._path_value(name, fr)          # inline captured identifier
            out.append(self.format_value(v, m.group(2) or ""))
        out.append(fmt[last:])
        return "".join(out)

    def format_value(self, v, spec):
        m = _SPEC_RX.match(spec)
        if not m:
            raise Unsupported("format spec {:%s}" % spec)
        fill, align, sign, alt, zero, width, prec, ty = m.groups()
        width = int(width) if width else 0
        if ty == "?" or ty == "e":
            raise Unsupported("format spec {:%s}" % spec)
        numeric = False
        if isinstance(v, bool):
            body = "true" if v else "false"
        elif _isint(v):
            numeric = True
            a = abs(v)
            if ty == "":
                digits, prefix = str(a), ""
            elif ty in "xX":
                digits, prefix = ("%x" if ty == "x" else "%X") % a, "0x"
            elif ty == "o":
                digits, prefix = "%o" % a, "0o"
            else:
                digits, prefix = bin(a)[2:], "0b"
            if v < 0 and ty != "":
                raise Unsupported("radix formatting of a negative number")
            sg = "-" if v < 0 else ("+" if sign == "+" else "")
            pre = sg + (prefix if alt else "")
            if zero and width > len(pre) + len(digits):
                digits = "0" * (width - len(pre) - len(digits)) + digits
            body = pre + digits
        elif isinstance(v, float):
            numeric = True
            if ty:
                raise Unsupported("format spec {:%s} on a float" % spec)
            if prec is not None:
                body = "%.*f" % (int(prec), v)
            elif v == int(v) and abs(v) < 1e16:
                body = str(int(v))
            else:
                body = repr(v)
            if sign == "+" and v >= 0:
                body = "+" + body
            if zero and width > len(body):
                body = ("-" if body.startswith("-") else "") + "0" * (width - len(body)) + body.lstrip("-")
        elif isinstance(v, str):
            if ty:
                raise Unsupported("format spec {:%s} on a string" % spec)
            body = v if prec is None else v[:int(prec)]
        elif isinstance(v, tuple) and len(v) == 2 and v[0] == "char":
            body = chr(v[1])
        else:
            raise Unsupported("Display of %s" % type(v).__name__)
        if width > len(body):
            pad = width - len(body)
            fc = fill or " "
            al = align or (">" if numeric else "<")
            if al == "<":
                body = body + fc * pad
            elif al == ">":
                body = fc * pad + body
            else:
                body = fc * (pad // 2) + body + fc * (pad - pad // 2)
        return body

    # ------------------------------------------------------------------ calls
    def _e_call(self, e, fr):
        f = e["f"]
        if f.get("k") == "path":
            p = f["p"]
            args_e = e.get("args") or []
            if p not in self.extern_fns:
                if p in fr.vars and isinstance(fr.vars[p], ClosureV):
                    return self.call_closure(fr.vars[p], [self.eval(a, fr) for a in args_e])
                if p in fr.vars and isinstance(fr.vars[p], LocalFn):
                    lf = fr.vars[p]
                    return self._apply((lf.file, None, lf.item), None, args_e, fr)
                q = re.sub(r"^(::)?(std|core)::(\w+::)*(?=\w+::\w+$)", "", p)
                if q in ("char::from_u32", "char::from_digit") and q in self.extern_fns:
                    return self.extern_fns[q]([self.place(a, fr) for a in args_e])
                segs = q.split("::")
                if len(segs) == 2 and segs[1] == "from" and (segs[0] in _INT_TY or re.fullmatch(r"[iu](8|16|32|64|128|size)", segs[0])) and len(args_e) == 1:
                    return _int_from(self.eval(args_e[0], fr))
                if len(segs) == 2 and segs[1] in ("min", "max") and segs[0] in ("std::cmp", "cmp") and len(args_e) == 2:
                    a, b = self.eval(args_e[0], fr), self.eval(args_e[1], fr)
                    return self.std_method(a, segs[1], [b])
                if q in ("cmp::min", "cmp::max", "std::cmp::min", "std::cmp::max") and len(args_e) == 2:
                    a, b = self.eval(args_e[0], fr), self.eval(args_e[1], fr)
                    return self.std_method(a, q.split("::")[-1], [b])
        return super()._e_call(e, fr)

    def _closure_call(self, f, args):
        if isinstance(f, ClosureV):
            return self.call_closure(f, args)
        if isinstance(f, LocalFn):
            return self.call_item(f.item, None, list(args), f.file)
        if isinstance(f, FnRef):
            if f.path in self.extern_fns:
                return self.extern_fns[f.path](list(args))
            if f.target is not None:
                (file, tr, item), ty = f.target
                return self.call_item(item, ty, list(args), file)
            if f.path in _STD_FN_REFS and len(args) == 1:
                r = self.std_method(args[0], _STD_FN_REFS[f.path], [])
                if r is not _NOIMPL:
                    return r
        raise Unsupported("callable argument is not a closure")

    def _e_mcall(self, e, fr):
        m = e["m"]
        args_e = e.get("args") or []
        r0 = e["recv"]
        if m == "contains" and len(args_e) == 1 and r0.get("k") == "range" and (r0.get("lo") or r0.get("hi")):
            lo = self.eval(r0["lo"], fr) if r0.get("lo") else None        # (a..b).contains(&x) without materialising the range
            hi = self.eval(r0["hi"], fr) if r0.get("hi") else None
            v = self.place(args_e[0], fr)
            if isinstance(v, tuple) and len(v) == 2 and v[0] == "char":
                v = v[1]
            if all(x is None or _isnum(x) for x in (lo, hi)) and _isnum(v):
                return (lo is None or lo <= v) and (hi is None or (v <= hi if r0["incl"] else v < hi))
            raise Unsupported("range contains on non-numbers")
        if ((m == "replace" and len(args_e) == 1) or (m == "take" and not args_e)) and r0.get("k") in ("path", "field"):
            cur = self.place(r0, fr)             # Option::replace / Option::take on a local or a field: store the new value, yield the old one
            if isinstance(cur, tuple) and not isinstance(cur, EnumV) and cur[:1] in (("Some",), ("None",)) and len(cur) == (2 if cur[0] == "Some" else 1):
                self.store(r0, fr, some(self.eval(args_e[0], fr)) if m == "replace" else NONE)
                return cur
        recv = self.place(r0, fr)
        ty = recv.ty if isinstance(recv, (StructV, EnumV)) else None
        if ty is not None and ty != "Ordering":
            fn = self.find_fn(ty, m)
            if fn is not None:
                return self._apply(fn, ty, args_e, fr, recv=recv)
        if m in self.extern_methods:
            return self.extern_methods[m](recv, [self.place(a, fr) for a in args_e])
        if m == "into" and ty is not None and not args_e:
            cands = [(f, s, tr, item) for (f, s, tr, item, t) in self.src.fns
                     if not t and item["name"] == "from" and tr is not None and tr.replace(" ", "") == "From<%s>" % ty]
            if len(cands) == 1:
                f, s, tr, item = cands[0]
                return self.call_item(item, s, [copyv(recv)], f)
            raise Unsupported("into() target of " + ty)
        args = [self.place(a, fr) for a in args_e]
        r = self.std_method(recv, m, args)
        if r is _NOIMPL:
            raise Unsupported("method %s on %s" % (m, ty or type(recv).__name__))
        return r

    # ------------------------------------------------------------------ std method models
    def std_method(self, recv, m, a):
        n = len(a)
        if isinstance(recv, EnumV) and recv.ty == "Ordering":
            return self._m_ordering(recv, m, a)
        if is_optres(recv):
            r = self._m_optres(recv, m, a)
            if r is not _NOIMPL:
                return r
        if _isnum(recv):
            r = self._m_num(recv, m, a)
            if r is not _NOIMPL:
                return r
        if isinstance(recv, (list, bytes)):
            r = self._m_seq(recv, m, a)
            if r is not _NOIMPL:
                return r
        if isinstance(recv, str):
            r = self._m_str(recv, m, a)
            if r is not _NOIMPL:
                return r
        if isinstance(recv, tuple) and len(recv) == 2 and recv[0] == "char" and _isint(recv[1]):
            r = self._m_char(recv, m, a)
            if r is not _NOIMPL:
                return r
        if m in ("clone", "to_owned", "borrow", "as_ref", "as_mut", "by_ref", "deref") and n == 0:
            return copyv(recv) if m in ("clone", "to_owned") else recv
        if m in ("cmp", "partial_cmp") and n == 1:
            o = ordering_of(recv, a[0])
            if o is not None:
                return o if m == "cmp" else some(o)
        if m in ("eq", "ne") and n == 1:
            return (recv == a[0]) == (m == "eq")
        if m in ("lt", "le", "gt", "ge") and n == 1:
            return self.binop({"lt": "<", "le": "<=", "gt": ">", "ge": ">="}[m], recv, a[0])
        return _NOIMPL

    def _m_ordering(self, o, m, a):
        i = ORDERING.index(o.name) - 1
        if m == "reverse" and not a:
            return EnumV("Ordering", ORDERING[1 - i])
        if m in ("is_lt", "is_le", "is_gt", "is_ge", "is_eq", "is_ne") and not a:
            return {"is_lt": i < 0, "is_le": i <= 0, "is_gt": i > 0, "is_ge": i >= 0, "is_eq": i == 0, "is_ne": i != 0}[m]
        if m == "then" and len(a) == 1:
            return o if i != 0 else a[0]
        if m == "then_with" and len(a) == 1:
            return o if i != 0 else self._closure_call(a[0], [])
        if m in ("clone",):
            return o
        if m in ("cmp", "partial_cmp") and len(a) == 1 and isinstance(a[0], EnumV) and a[0].ty == "Ordering":
            r = ordering_of(i, ORDERING.index(a[0].name) - 1)
            return r if m == "cmp" else some(r)
        return _NOIMPL

    def _m_optres(self, v, m, a):
        n = len(a)
        good = v != NONE and v[0] in ("Some", "Ok")
        kind = "opt" if (v == NONE or v[0] == "Some") else "res"
        if m in ("unwrap", "expect") and n <= 1:
            if good:
                return v[1]
            raise Panic("%s() on %s" % (m, "None" if v == NONE else "Err"))
        if m == "unwrap_or" and n == 1:
            return v[1] if good else a[0]
        if m == "unwrap_or_else" and n == 1:
            return v[1] if good else self._closure_call(a[0], [] if kind == "opt" else [v[1]])
        if m == "unwrap_or_default" and n == 0 and good:
            return v[1]
        if m == "map" and n == 1:
            return (v[0], self._closure_call(a[0], [v[1]])) if good else v
        if m == "map_err" and n == 1 and kind == "res":
            return v if good else ("Err", self._closure_call(a[0], [v[1]]))
        if m == "map_or" and n == 2:
            return self._closure_call(a[1], [v[1]]) if good else a[0]
        if m == "map_or_else" and n == 2:
            return self._closure_call(a[1], [v[1]]) if good else self._closure_call(a[0], [] if kind == "opt" else [v[1]])
        if m == "and_then" and n == 1:
            return self._closure_call(a[0], [v[1]]) if good else v
        if m == "and" and n == 1:
            return a[0] if good else v
        if m == "or" and n == 1:
            return v if good else a[0]
        if m == "or_else" and n == 1:
            return v if good else self._closure_call(a[0], [] if kind == "opt" else [v[1]])
        if m == "filter" and n == 1 and kind == "opt":
            return v if good and self._closure_call(a[0], [v[1]]) is True else NONE
        if m == "ok_or" and n == 1 and kind == "opt":
            return ("Ok", v[1]) if good else ("Err", a[0])
        if m == "ok_or_else" and n == 1 and kind == "opt":
            return ("Ok", v[1]) if good else ("Err", self._closure_call(a[0], []))
        if m == "ok" and n == 0 and kind == "res":
            return some(v[1]) if good else NONE
        if m == "err" and n == 0 and kind == "res":
            return NONE if good else some(v[1])
        if m == "is_some" and n == 0:
            return v != NONE
        if m == "is_none" and n == 0:
            return v == NONE
        if m == "is_ok" and n == 0 and kind == "res":
            return good
        if m == "is_err" and n == 0 and kind == "res":
            return not good
        if m in ("copied", "cloned", "as_ref", "as_mut", "as_deref", "clone") and n == 0:
            return v
        if m == "iter" or m == "into_iter":
            return [v[1]] if good else []
        if m == "take" and n == 0 and kind == "opt":
            raise Unsupported("Option::take")
        return _NOIMPL

    def _m_num(self, v, m, a):
        n = len(a)
        if m in ("min", "max") and n == 1 and _isnum(a[0]):
            return min(v, a[0]) if m == "min" else max(v, a[0])
        if m == "clamp" and n == 2 and _isnum(a[0]) and _isnum(a[1]):
            if a[0] > a[1]:
                raise Panic("clamp with min > max")
            return min(max(v, a[0]), a[1])
        if m == "abs" and n == 0:
            return abs(v)
        if m in ("cmp", "partial_cmp", "total_cmp") and n == 1 and _isnum(a[0]):
            o = ordering_of(v, a[0])
            if o is None:
                return NONE if m == "partial_cmp" else _raise(Unsupported("total order of NaN"))
            return some(o) if m == "partial_cmp" else o
        if isinstance(v, float):
            import math
            if m == "sqrt" and n == 0:
                return math.sqrt(v) if v >= 0 else float("nan")
            if m in ("powi", "powf") and n == 1 and _isnum(a[0]):
                return v ** a[0]
            if m == "round" and n == 0:
                return float(math.floor(abs(v) + 0.5)) * (1 if v >= 0 else -1)
            if m == "floor" and n == 0:
                return float(math.floor(v))
            if m == "ceil" and n == 0:
                return float(math.ceil(v))
            if m == "trunc" and n == 0:
                return float(int(v))
            if m == "mul_add" and n == 2:
                return v * a[0] + a[1]
            if m == "is_nan" and n == 0:
                return v != v
            if m == "is_finite" and n == 0:
                return v == v and abs(v) != float("inf")
            return _NOIMPL
        # integers
        if m == "pow" and n == 1 and _isint(a[0]) and 0 <= a[0] < 200:
            return v ** a[0]
        if m in ("abs_diff",) and n == 1 and _isint(a[0]):
            return abs(v - a[0])
        if m == "unsigned_abs" and n == 0:
            return abs(v)
        if m == "rem_euclid" and n == 1 and _isint(a[0]) and a[0] > 0:
            return v % a[0]
        if m == "div_euclid" and n == 1 and _isint(a[0]) and a[0] > 0:
            return v // a[0]
        if m == "saturating_sub" and n == 1 and _isint(a[0]):
            if v >= 0 and a[0] >= 0:
                if v - a[0] >= 0:
                    return v - a[0]
                raise Unsupported("saturating_sub below zero needs the operand type")
            raise Unsupported("saturating_sub on negative operands")
        if m == "checked_sub" and n == 1 and _isint(a[0]) and v >= 0 and a[0] >= 0:
            if v >= a[0]:
                return some(v - a[0])
            self.assumed.add("checked_sub going below zero is None (operands taken to be of an unsigned type)")
            return NONE
        if m in ("checked_add", "checked_mul", "saturating_add", "saturating_mul", "wrapping_add", "wrapping_mul") and n == 1 and _isint(a[0]) and v >= 0 and a[0] >= 0:
            r = v + a[0] if m.endswith("add") else v * a[0]
            if r <= 127:                      # fits every integer type: no overflow whichever type the operands have
                return some(r) if m.startswith("checked") else r
            raise Unsupported("%s needs the operand type" % m)
        if m == "checked_div" and n == 1 and _isint(a[0]) and v >= 0 and a[0] >= 0:
            return NONE if a[0] == 0 else some(v // a[0])
        if m in ("is_ascii_digit", "is_ascii_alphabetic", "is_ascii_hexdigit", "is_ascii_uppercase", "is_ascii_lowercase", "is_ascii") and n == 0 and 0 <= v < 256:
            c = chr(v)
            return {"is_ascii_digit": "0" <= c <= "9", "is_ascii_alphabetic": c.isascii() and c.isalpha(), "is_ascii_hexdigit": c in "0123456789abcdefABCDEF",
                    "is_ascii_uppercase": "A" <= c <= "Z", "is_ascii_lowercase": "a" <= c <= "z", "is_ascii": v < 128}[m]
        if m == "to_string" and n == 0:
            return str(v)
        if m in ("into", "try_into") and n == 0:
            raise Unsupported("integer conversion needs the target type")
        return _NOIMPL

    def _m_char(self, v, m, a):
        c = v[1]
        if m == "is_ascii_digit" and not a:
            return 48 <= c <= 57
        if m == "is_control" and not a:
            return c < 32 or 127 <= c < 160
        if m == "to_digit" and len(a) == 1 and _isint(a[0]) and 2 <= a[0] <= 36:
            try:
                d = int(chr(c), 36)
            except ValueError:
                return NONE
            return some(d) if d < a[0] else NONE
        if m == "len_utf8" and not a:
            return len(chr(c).encode("utf-8"))
        return _NOIMPL

    def _m_str(self, s, m, a):
        n = len(a)
        if m == "len" and n == 0:
            return len(s.encode("utf-8"))
        if m == "is_empty" and n == 0:
            return s == ""
        if m in ("as_bytes", "bytes", "into_bytes") and n == 0:
            return list(s.encode("utf-8"))
        if m == "chars" and n == 0:
            return [("char", ord(c)) for c in s]
        if m in ("to_string", "to_owned", "as_str", "as_ref", "clone", "trim") and n == 0:
            return s.strip() if m == "trim" else s
        if m in ("starts_with", "ends_with", "contains") and n == 1 and isinstance(a[0], (str, tuple)):
            t = a[0] if isinstance(a[0], str) else chr(a[0][1])
            return {"starts_with": s.startswith(t), "ends_with": s.endswith(t), "contains": t in s}[m]
        if m in ("strip_prefix", "strip_suffix") and n == 1 and isinstance(a[0], str):
            if m == "strip_prefix":
                return some(s[len(a[0]):]) if s.startswith(a[0]) else NONE
            return some(s[:len(s) - len(a[0])]) if s.endswith(a[0]) else NONE
        if m == "split" and n == 1 and (isinstance(a[0], str) or (isinstance(a[0], tuple) and a[0][0] == "char") or _isint(a[0])):
            t = a[0] if isinstance(a[0], str) else chr(a[0][1] if isinstance(a[0], tuple) else a[0])
            return s.split(t)
        return _NOIMPL

    def _truth(self, f, args):
        r = self._closure_call(f, args)
        if not isinstance(r, bool):
            raise Unsupported("predicate closure returned a non-bool")
        return r

    def _cmp_by(self, f, x, y):
        r = self._closure_call(f, [x, y])
        if not (isinstance(r, EnumV) and r.ty == "Ordering"):
            raise Unsupported("comparator closure returned a non-Ordering")
        return ORDERING.index(r.name) - 1

    def _m_seq(self, s, m, a):
        n = len(a)
        seq = list(s) if isinstance(s, bytes) else s
        if m in ("iter", "into_iter", "iter_mut", "copied", "cloned", "collect", "to_vec", "to_owned", "clone", "into_vec", "peekable", "fuse", "into_boxed_slice", "drain_all") and n == 0:
            return [copyv(x) for x in seq] if m in ("to_vec", "to_owned", "clone") else list(seq)
        if m in ("as_slice", "as_ref", "as_mut", "by_ref", "as_mut_slice", "borrow", "deref") and n == 0:
            return s
        if m == "len" and n == 0:
            return len(seq)
        if m == "is_empty" and n == 0:
            return not seq
        if m == "next" and n == 0 and isinstance(s, list):
            return some(s.pop(0)) if s else NONE
        if m == "next_back" and n == 0 and isinstance(s, list):
            return some(s.pop()) if s else NONE
        if m == "first" and n == 0:
            return some(seq[0]) if seq else NONE
        if m == "last" and n == 0:
            return some(seq[-1]) if seq else NONE
        if m == "get" and n == 1 and _isint(a[0]):
            return some(seq[a[0]]) if 0 <= a[0] < len(seq) else NONE
        if m == "nth" and n == 1 and _isint(a[0]):
            return some(seq[a[0]]) if 0 <= a[0] < len(seq) else NONE
        if m == "contains" and n == 1:
            return a[0] in seq
        if m == "enumerate" and n == 0:
            return [(i, x) for i, x in enumerate(seq)]
        if m == "rev" and n == 0:
            return list(reversed(seq))
        if m in ("skip", "take", "step_by") and n == 1 and _isint(a[0]) and a[0] >= 0:
            if m == "skip":
                return seq[a[0]:]
            if m == "take":
                return seq[:a[0]]
            if a[0] == 0:
                raise Panic("step_by(0)")
            return seq[::a[0]]
        if m in ("zip", "chain") and n == 1 and isinstance(a[0], (list, bytes)):
            o = list(a[0])
            return [(x, y) for x, y in zip(seq, o)] if m == "zip" else list(seq) + o
        if m == "map" and n == 1:
            return [self._closure_call(a[0], [copyv(x)]) for x in seq]
        if m == "filter" and n == 1:
            return [x for x in seq if self._truth(a[0], [x])]
        if m == "filter_map" and n == 1:
            out = []
            for x in seq:
                r = self._closure_call(a[0], [x])
                if not is_optres(r):
                    raise Unsupported("filter_map closure result")
                if r != NONE and r[0] == "Some":
                    out.append(r[1])
            return out
        if m == "flat_map" and n == 1:
            out = []
            for x in seq:
                r = self._closure_call(a[0], [x])
                if is_optres(r):
                    r = [r[1]] if r != NONE and r[0] in ("Some", "Ok") else []
                if not isinstance(r, (list, bytes)):
                    raise Unsupported("flat_map closure result")
                out += list(r)
            return out
        if m == "flatten" and n == 0:
            out = []
            for r in seq:
                if is_optres(r):
                    r = [r[1]] if r != NONE and r[0] in ("Some", "Ok") else []
                if not isinstance(r, (list, bytes)):
                    raise Unsupported("flatten element")
                out += list(r)
            return out
        if m in ("take_while", "skip_while") and n == 1:
            k = 0
            while k < len(seq) and self._truth(a[0], [seq[k]]):
                k += 1
            return seq[:k] if m == "take_while" else seq[k:]
        if m == "fold" and n == 2:
            acc = a[0]
            for x in seq:
                acc = self._closure_call(a[1], [acc, x])
            return acc
        if m == "try_fold" and n == 2:
            acc = a[0]
            wrap = None
            for x in seq:
                r = self._closure_call(a[1], [acc, x])
                if not is_optres(r):
                    raise Unsupported("try_fold closure result")
                if r == NONE or r[0] == "Err":
                    return r
                wrap, acc = r[0], r[1]
            if wrap is None:
                raise Unsupported("try_fold over an empty sequence (Option or Result is not known)")
            return (wrap, acc)
        if m == "for_each" and n == 1:
            for x in seq:
                self._closure_call(a[0], [x])
            return ()
        if m == "try_for_each" and n == 1:
            wrap = None
            for x in seq:
                r = self._closure_call(a[0], [x])
                if not is_optres(r):
                    raise Unsupported("try_for_each closure result")
                if r == NONE or r[0] == "Err":
                    return r
                wrap = r[0]
            if wrap is None:
                raise Unsupported("try_for_each over an empty sequence")
            return (wrap, ())
        if m == "find" and n == 1:
            for x in seq:
                if self._truth(a[0], [x]):
                    return some(x)
            return NONE
        if m == "find_map" and n == 1:
            for x in seq:
                r = self._closure_call(a[0], [x])
                if not is_optres(r):
                    raise Unsupported("find_map closure result")
                if r != NONE:
                    return r
            return NONE
        if m in ("position", "rposition") and n == 1:
            idx = range(len(seq)) if m == "position" else range(len(seq) - 1, -1, -1)
            for i in idx:
                if self._truth(a[0], [seq[i]]):
                    return some(i)
            return NONE
        if m == "any" and n == 1:
            for x in seq:
                if self._truth(a[0], [x]):
                    return True
            return False
        if m == "all" and n == 1:
            for x in seq:
                if not self._truth(a[0], [x]):
                    return False
            return True
        if m == "count" and n == 0:
            return len(seq)
        if m in ("sum", "product") and n == 0 and all(_isnum(x) for x in seq):
            r = 0 if m == "sum" else 1
            for x in seq:
                r = r + x if m == "sum" else r * x
            if not seq:
                raise Unsupported("%s of an empty sequence (element type not known)" % m)
            return r
        if m in ("min", "max") and n == 0:
            if not seq:
                return NONE
            best = seq[0]
            for x in seq[1:]:
                o = ordering_of(best, x)
                if o is None:
                    raise Unsupported("ordering of sequence elements")
                if (m == "max" and o.name != "Greater") or (m == "min" and o.name == "Greater"):
                    best = x
            return some(best)
        if m in ("min_by", "max_by") and n == 1:
            if not seq:
                return NONE
            best = seq[0]
            for x in seq[1:]:
                c = self._cmp_by(a[0], best, x)
                if (m == "max_by" and c <= 0) or (m == "min_by" and c > 0):
                    best = x
            return some(best)
        if m in ("min_by_key", "max_by_key") and n == 1:
            if not seq:
                return NONE
            best, bk = seq[0], self._closure_call(a[0], [seq[0]])
            for x in seq[1:]:
                k = self._closure_call(a[0], [x])
                o = ordering_of(bk, k)
                if o is None:
                    raise Unsupported("ordering of keys")
                if (m == "max_by_key" and o.name != "Greater") or (m == "min_by_key" and o.name == "Greater"):
                    best, bk = x, k
            return some(best)
        if m in ("windows", "chunks", "chunks_exact") and n == 1 and _isint(a[0]):
            k = a[0]
            if k <= 0:
                raise Panic("%s(0)" % m)
            if m == "windows":
                return [seq[i:i + k] for i in range(0, len(seq) - k + 1)]
            out = [seq[i:i + k] for i in range(0, len(seq), k)]
            return [c for c in out if len(c) == k] if m == "chunks_exact" else out
        if m in ("split_first", "split_last") and n == 0:
            if not seq:
                return NONE
            return some((seq[0], seq[1:])) if m == "split_first" else some((seq[-1], seq[:-1]))
        if m == "split_at" and n == 1 and _isint(a[0]):
            if not 0 <= a[0] <= len(seq):
                raise Panic("split_at out of bounds")
            return (seq[:a[0]], seq[a[0]:])
        if m == "size_hint" and n == 0:
            return (len(seq), some(len(seq)))
        if m in ("strip_prefix", "strip_suffix") and n == 1 and isinstance(a[0], (list, bytes)):
            o = list(a[0])
            if m == "strip_prefix":
                return some(seq[len(o):]) if seq[:len(o)] == o else NONE
            return some(seq[:len(seq) - len(o)]) if len(o) <= len(seq) and seq[len(seq) - len(o):] == o else NONE
        if m == "splitn" and n == 2 and _isint(a[0]) and isinstance(a[1], (ClosureV, FnRef, LocalFn)):
            out, cur = [], []
            for x in seq:
                if len(out) < a[0] - 1 and self._truth(a[1], [x]):
                    out.append(cur)
                    cur = []
                else:
                    cur.append(x)
            out.append(cur)
            return out
        if m in ("starts_with", "ends_with") and n == 1 and isinstance(a[0], (list, bytes)):
            o = list(a[0])
            return seq[:len(o)] == o if m == "starts_with" else (len(o) <= len(seq) and seq[len(seq) - len(o):] == o)
        if m == "split" and n == 1 and isinstance(a[0], (ClosureV, FnRef, LocalFn)):
            out, cur = [], []
            for x in seq:
                if self._truth(a[0], [x]):
                    out.append(cur)
                    cur = []
                else:
                    cur.append(x)
            out.append(cur)
            return out
        if m == "binary_search" and n == 1:
            return self._bsearch(seq, lambda x: ordering_of(x, a[0]))
        if m == "binary_search_by" and n == 1:
            return self._bsearch(seq, lambda x: self._closure_call(a[0], [x]))
        if m == "binary_search_by_key" and n == 2:
            return self._bsearch(seq, lambda x: ordering_of(self._closure_call(a[1], [x]), a[0]))
        if m == "partition_point" and n == 1:
            flags = [self._truth(a[0], [x]) for x in seq]
            k = 0
            while k < len(flags) and flags[k]:
                k += 1
            if any(flags[k:]):
                raise PreconditionViolated("partition_point", "the predicate is not true on a prefix and false on the rest: %s" % flags)
            return k
        # Vec / io::Write growth (in place)
        if isinstance(s, list):
            if m in ("extend", "extend_from_slice", "append") and n == 1 and isinstance(a[0], (list, bytes)):
                s.extend(list(a[0]))
                if m == "append" and isinstance(a[0], list):
                    del a[0][:]
                return ()
            if m == "push" and n == 1:
                s.append(a[0])
                return ()
            if m == "pop" and n == 0:
                return some(s.pop()) if s else NONE
            if m == "clear" and n == 0:
                del s[:]
                return ()
            if m == "truncate" and n == 1 and _isint(a[0]):
                del s[a[0]:]
                return ()
            if m in ("reserve", "reserve_exact") and n == 1:
                return ()
            if m == "shrink_to_fit" and n == 0:
                return ()
            if m == "reverse" and n == 0:
                s.reverse()
                return ()
            if m == "swap" and n == 2 and _isint(a[0]) and _isint(a[1]):
                if not (0 <= a[0] < len(s) and 0 <= a[1] < len(s)):
                    raise Panic("swap out of bounds")
                s[a[0]], s[a[1]] = s[a[1]], s[a[0]]
                return ()
            if m == "fill" and n == 1:
                for i in range(len(s)):
                    s[i] = copyv(a[0])
                return ()
            if m == "insert" and n == 2 and _isint(a[0]) and 0 <= a[0] <= len(s):
                s.insert(a[0], a[1])
                return ()
            if m == "remove" and n == 1 and _isint(a[0]):
                if not 0 <= a[0] < len(s):
                    raise Panic("remove out of bounds")
                return s.pop(a[0])
            if m in ("sort", "sort_unstable") and n == 0 and all(_isnum(x) for x in s):
                s.sort()
                return ()
            if m == "write" and n == 1 and isinstance(a[0], (list, bytes)):
                s.extend(list(a[0]))
                return ("Ok", len(a[0]))
            if m == "write_all" and n == 1 and isinstance(a[0], (list, bytes)):
                s.extend(list(a[0]))
                return ("Ok", ())
            if m == "flush" and n == 0:
                return ("Ok", ())
        return _NOIMPL

    def _bsearch(self, seq, cmp):
        """slice::binary_search_by: every element is compared with the probe; the orderings must read Less* Equal* Greater*
        (the precondition of the search — otherwise the result is unspecified and PreconditionViolated is raised)"""
        os_ = []
        for x in seq:
            o = cmp(x)
            if not (isinstance(o, EnumV) and o.ty == "Ordering"):
                raise Unsupported("comparator result is not an Ordering")
            os_.append(ORDERING.index(o.name) - 1)
        if any(x > y for x, y in zip(os_, os_[1:])):
            raise PreconditionViolated("binary_search_by", "the comparator does not order the slice as Less.. Equal.. Greater..: %s" % os_)
        eq = [i for i, o in enumerate(os_) if o == 0]
        if len(eq) > 1:
            raise PreconditionViolated("binary_search_by", "several elements compare Equal: any of them may be returned")
        if eq:
            return ("Ok", eq[0])
        return ("Err", sum(1 for o in os_ if o < 0))


_STD_FN_REFS = {"char::is_control": "is_control", "char::is_ascii_digit": "is_ascii_digit", "u8::is_ascii_digit": "is_ascii_digit",
                 "Option::is_some": "is_some", "Option::is_none": "is_none", "Result::ok": "ok", "Result::is_ok": "is_ok"}


class FnRef:
    """a function named as a value (`.and_then(number_decode)`): path + resolved user fn ((file, trait, item), impl type) or None"""
    __slots__ = ("path", "target")

    def __init__(self, path, target):
        self.path = path
        self.target = target


class LocalFn:
    """fn item declared inside a block (visible in that block only)"""
    __slots__ = ("item", "file")

    def __init__(self, item, file):
        self.item = item
        self.file = file


class PreconditionViolated(Unsupported):
    """a std call whose result is unspecified for these arguments (unsorted slice / inconsistent comparator)"""

    def __init__(self, what, msg):
        Unsupported.__init__(self, "%s: %s" % (what, msg))
        self.what = what


def _raise(ex):
    raise ex


def _int_from(v):
    if isinstance(v, bool):
        return int(v)
    if _isint(v):
        return v
    if isinstance(v, tuple) and len(v) == 2 and v[0] == "char":
        return v[1]
    raise Unsupported("integer From of %s" % type(v).__name__)
