"""C05 — encoded commands mean what was commanded: part (a) template agreement of `TTYEncoder::encode`
with refs/ecma48_cmds.json and framing completeness of every path (DESIGN.md §5 C05).

Part (b) (no panic on extreme values: the `-col`, `+ 1` overflow obligations) is NOT here: see `obligations`."""
import json
import os
import re

from .. import templates as T

CLAIM = {
    "text": "For each of the 27 TerminalCommand variants the output template of its TTYEncoder::encode arm (every branch valuation; helpers "
            "inlined, lets and pattern bindings substituted) equals the reference template written from ECMA-48 / xterm ctlseqs / kitty "
            "keyboard protocol: literal bytes and final bytes, hole expressions (row+1, col+1, negated deltas), format specs (two hex digits "
            "per byte for XTGETTCAP), DEC private marker, OSC/DCS framing with ST, alt-screen keyboard-level bracketing under "
            "caps.kitty_keyboard, empty output for Image/ImageErase; variant field types are those the holes assume; every path is a "
            "concatenation of complete control sequences with no non-I/O exit inside one; DecMode discriminants equal xterm's mode numbers; (b) every overflow/negation/bounds/unwrap obligation reachable from TTYEncoder::encode is discharged (abstract interpretation, "
            "CHUNKS-INV, FINITE-COLOR and NEAREST-RANGE lemmas - the last one by giving `nearest` its value on every search outcome and tie direction per table length; code that only runs inside a debug_assert! is a developer-stated invariant, not an obligation). "
            "Not decided: the SGR parameter table (C06; only CSI..m framing and ';' joining), colour reduction (C20), absence of panics on "
            "extreme values (clause (b), hook `obligations` left for the abstract interpreter), control bytes in the ground-state payloads of "
            "Char/Raw (values inside OSC/DCS strings are classified: numeric, hex, trusted Display or control-filtered characters), "
            "what a real terminal does beyond the reference templates.",
    "technique": "output-template extraction from the syntax tree (template language per path, helpers inlined, equivalent idioms normalised), comparison with hand-written reference "
                 "templates over all branch valuations, ECMA-48 framing automaton on templates, enum discriminant table; abstract interpretation "
                 "of MIR for the panic obligations, structural lemmas on canonical terms, denotational evaluation of `nearest`",
    "design_ref": "DESIGN.md §5 C05 (a); §4 output templates, reference tables",
}

REFS = os.path.join(os.path.dirname(os.path.dirname(os.path.abspath(__file__))), "refs", "ecma48_cmds.json")

ENUM = "TerminalCommand"
ENUM_PATH = "terminal::TerminalCommand"
N_VARIANTS = 27      # counted by hand in src/terminal.rs on the pinned tree
N_DECMODES = 9
STR_TYPES = ("std::string::String", "&str", "str", "&'static str", "std::borrow::Cow<'static, str>")


def load_refs():
    d = json.load(open(REFS))
    rows = {}
    for r in d["commands"]:
        if r["variant"] in rows:
            raise ValueError("duplicate reference row " + r["variant"])
        alts = r["any_of"] if "any_of" in r else [r["template"]]
        r["_alts"] = [T.variant_eq_as_match(T.ref_template(a)) for a in alts]
        rows[r["variant"]] = r
    return d, rows


def field_type(prog, refs, variant, path):
    """type of `$.a.b` for a variant of TerminalCommand from the MIR ADT facts"""
    adt = prog.adts.get(ENUM_PATH)
    v = [x for x in adt["variants"] if x["name"] == variant]
    if not v:
        return None
    parts = path.split(".")[1:]
    fields = {f["name"]: f["ty"] for f in v[0]["fields"]}
    ty = None
    for i, p in enumerate(parts):
        if p not in fields:
            return None
        ty = fields[p]
        if i + 1 < len(parts):
            a = prog.adts.get(ty)
            if a is None:
                m = re.match(r"^std::option::Option<(.*)>$", ty)
                if m and parts[i + 1] == "0":
                    fields = {"0": m.group(1)}
                    continue
                return None
            if a["kind"] == "Struct":
                fields = {f["name"]: f["ty"] for f in a["variants"][0]["fields"]}
            else:
                # payload of an enum: `$.name.0` -> the single variant that has such a field
                cands = [vv for vv in a["variants"] if any(f["name"] == parts[i + 1] for f in vv["fields"])]
                if len(cands) != 1:
                    return None
                fields = {f["name"]: f["ty"] for f in cands[0]["fields"]}
    return ty


def make_resolver(src, impl_self, file=None):
    st = src.struct(impl_self)
    ftypes = {}
    if st:
        for f in st[1]["fields"]:
            ftypes[f["name"]] = re.sub(r"^&(mut)?", "", f["ty"])

    def resolver(call):
        if call.recv == "self":
            return src.fn(call.name, impl_self=re.escape(impl_self))
        m = re.match(r"^self\.(\w+)$", call.recv or "")
        if m and m.group(1) in ftypes:
            return src.fn(call.name, impl_self=re.escape(ftypes[m.group(1)]))
        if call.recv is None:
            # helper written as a free function of the crate, or as an associated function `Self::f(..)` / `Type::f(..)`
            segs = call.name.split("::")
            if len(segs) == 1 or segs[-2] in ("self", "super", "crate") or segs[-2].islower():
                cands = [(f, it) for (f, s_, tr, it, t) in src.fns if it["name"] == segs[-1] and s_ is None and not t]
                same = [c for c in cands if file is None or c[0] == file]
                cands = same or cands
                return cands[0] if len(cands) == 1 else None
            owner = impl_self if segs[-2] == "Self" else segs[-2]
            return src.fn(segs[-1], impl_self=re.escape(owner))
        return None
    return resolver


def pattern_cases(pat):
    """[(variant name or None for catch-all, case pattern)]"""
    k = pat.get("k")
    if k == "or":
        out = []
        for c in pat["cases"]:
            out += pattern_cases(c)
        return out
    if k in ("tstruct", "struct"):
        return [(pat["path"].split("::")[-1], pat)]
    if k == "path":
        return [(pat["p"].split("::")[-1], pat)]
    if k == "ident" and not pat.get("sub"):
        if pat["name"][:1].isupper():
            return [(pat["name"], pat)]
        return [(None, pat)]
    if k == "wild":
        return [(None, pat)]
    raise T.Unsupported("arm pattern %s" % T.pat_text(pat))


def check_complete(t, where, report):
    """every valuation of template t is a concatenation of complete sequences / ground text"""
    n = 0
    for val in T.valuations([t]):
        try:
            atoms = T.evaluate(t, val)
        except T.Undefined:
            continue
        n += 1
        for a in atoms:
            if isinstance(a, T.Call):
                report("unresolved-helper", "helper call %s receives the sink and could not be inlined" % a.text(), a.line)

        def nested(a):
            for b in ([a.sep, a.item] if isinstance(a, T.Join) else [a.body]):
                check_complete(b, where, report)
        try:
            T.split_sequences(atoms, nested_ground=nested)
        except T.Malformed as e:
            report(e.reason, "under [%s] the arm writes %s: %s" % (T.val_text(val), T.seq_text(atoms), e), None)
    return n


HEX_SPEC = re.compile(r"^0?\d*[xXob]$")


def _sanitising_filter(node):
    """iterator expression contains `.filter(|c| !c.is_control())` (any parameter name, `&c`/`*c` tolerated)"""
    hit = [False]

    def f(n, parents):
        if n.get("k") == "mcall" and n["m"] == "filter" and len(n["args"]) == 1 and n["args"][0].get("k") == "closure":
            body = n["args"][0]["body"]
            if re.match(r"^!(\w+\.is_control\(\)|char::is_control\(\w+\))$", T.canon(body)):
                hit[0] = True
    from ..src import walk
    walk(node, f)
    return hit[0]


def payload_class(prog, refdoc, variant, atom, loops):
    """('safe'|'string'|'unknown', reason) for a hole written inside a control string"""
    sp = refdoc["string_payload"]
    if isinstance(atom, T.Hole) and HEX_SPEC.match(atom.spec or ""):
        return "safe", "radix format of an integer writes digits only"
    expr = atom.expr
    kinds = []
    for m in re.finditer(r"#(?:item|index|pair)(\d*)", expr):
        depth = int(m.group(1) or "1")
        lp = loops[depth - 1] if 0 < depth <= len(loops) else None
        if m.group(0).startswith("#index"):
            kinds.append(("safe", "loop index"))
        elif lp is None or getattr(lp, "iter_node", None) is None:
            kinds.append(("unknown", "loop item of an unknown loop"))
        else:
            it = T.canon(lp.iter_node)
            if re.search(r"\.(as_bytes|bytes)\(\)", it) and isinstance(atom, T.Hole):
                kinds.append(("safe", "u8 printed as a number"))
            elif re.search(r"\.chars\(\)", it):
                kinds.append(("safe", "characters filtered by !is_control()") if _sanitising_filter(lp.iter_node) else ("string", "characters of a string"))
            else:
                kinds.append(("unknown", "loop item of `%s`" % it))
    for m in re.finditer(r"\$(?:\.\w+)+", expr):
        path = m.group(0)
        ty = None
        parts = path.split(".")
        # longest prefix that is a declared field path (method names may follow)
        for n in range(len(parts), 1, -1):
            ty = field_type(prog, refdoc, variant, ".".join(parts[:n]))
            if ty is not None:
                rest = parts[n:]
                break
        if ty is None:
            kinds.append(("unknown", "type of %s" % path))
        elif ty in sp["numeric"] or (prog.adts.get(ty, {}).get("kind") == "Enum" and re.search(r"\bas (%s)\b" % "|".join(T.INT_TYPES), expr)):
            kinds.append(("safe", "%s is numeric" % ty))
        elif ty in sp["safe_display"]:
            kinds.append(("safe", sp["safe_display"][ty]))
        elif ty in sp["string_like"]:
            kinds.append(("string", "%s: %s" % (path, ty)))
        else:
            kinds.append(("unknown", "%s: %s" % (path, ty)))
    if not kinds:
        if re.match(r"^[A-Za-z_][\w:]*$", expr) and expr.split("::")[-1].isupper():
            return "safe", "named constant"
        return "unknown", "expression `%s`" % expr
    for cls in ("string", "unknown", "safe"):
        for k, why in kinds:
            if k == cls:
                return k, why
    return "unknown", expr


_CTRL_TEST = r"(?:char::is_control|\|&?(?P<c>\w+)\|(?:(?P=c)\.is_control\(\)|char::is_control\((?P=c)\)))"
_NOT_CTRL_TEST = r"\|&?(?P<c>\w+)\|!(?:(?P=c)\.is_control\(\)|char::is_control\((?P=c)\))"
_GUARDS = [
    # (regex on the canonical text of a boolean branch condition, value of the condition) => the string <s> has no control character
    (re.compile(r"^b:(?P<s>.+)\.chars\(\)\.any\(%s\)$" % _CTRL_TEST), "F"),
    (re.compile(r"^b:(?P<s>.+)\.chars\(\)\.all\(%s\)$" % _NOT_CTRL_TEST), "T"),
    (re.compile(r"^b:(?P<s>.+)\.contains\(%s\)$" % _CTRL_TEST), "F"),
    (re.compile(r"^b:(?P<s>.+)\.chars\(\)\.(?:find|position)\(%s\)\.is_none\(\)$" % _CTRL_TEST), "T"),
    (re.compile(r"^b:(?P<s>.+)\.chars\(\)\.(?:find|position)\(%s\)\.is_some\(\)$" % _CTRL_TEST), "F"),
    (re.compile(r"^b:(?P<s>.+)\.find\(%s\)\.is_none\(\)$" % _CTRL_TEST), "T"),
    (re.compile(r"^b:(?P<s>.+)\.find\(%s\)\.is_some\(\)$" % _CTRL_TEST), "F"),
]


def control_free_under(val):
    """canonical texts of the string expressions that the branch valuation `val` states to be free of control characters
    (`!s.chars().any(char::is_control)` and its spellings): a fast path that writes such a string whole is as good as the filtered loop"""
    out = set()
    for key, v in (val or {}).items():
        for rx, want in _GUARDS:
            m = rx.match(key)
            if m and v == want:
                out.add(m.group("s"))
    return out


def string_payloads(t, found, loops=()):
    """(sequence kind, atom, enclosing loops, valuation) for every hole/raw written inside a control string, any valuation"""
    for val in T.valuations([t]):
        try:
            atoms = T.evaluate(t, val)
        except T.Undefined:
            continue
        nested = []
        try:
            seqs = T.split_sequences(atoms, nested_ground=lambda a: nested.append(a))
        except T.Malformed:
            continue          # reported by COMPLETE
        for a in nested:
            for b in ([a.sep, a.item] if isinstance(a, T.Join) else [a.body]):
                string_payloads(b, found, loops + (a.star if isinstance(a, T.Join) else a,))
        for sq in seqs:
            if sq.kind not in ("OSC", "DCS", "APC", "PM", "SOS"):
                continue

            def visit(parts, lps):
                for p in parts:
                    if isinstance(p, (T.Hole, T.Raw)):
                        found.append((sq.kind, p, lps, val))
                    elif isinstance(p, T.Join):
                        inner = lps + (p.star,)
                        visit([x for x in T.atoms_in(p.sep, into_loops=False)], inner)
                        visit([x for x in T.atoms_in(p.item, into_loops=False)], inner)
                    elif isinstance(p, T.Star):
                        visit([x for x in T.atoms_in(p.body, into_loops=False)], lps + (p,))
            visit(sq.parts, loops)


# ------------------------------------------------------------------------------------------------------------------------------
# iterator chains in statement position, as the loops they are
# ------------------------------------------------------------------------------------------------------------------------------
def _has_return(node):
    """a `return` (or break/continue) that belongs to this closure body (nested closures have their own)"""
    if isinstance(node, dict):
        if node.get("k") in ("return", "break", "continue"):
            return True
        if node.get("k") == "closure":
            return False
        return any(_has_return(v) for v in node.values())
    if isinstance(node, list):
        return any(_has_return(v) for v in node)
    return False


def _closure1(args, nparams):
    if len(args) != 1 or not isinstance(args[0], dict) or args[0].get("k") != "closure":
        return None
    c = args[0]
    if len(c.get("params") or []) != nparams or _has_return(c["body"]):
        return None
    return c


def _stmt(e, line):
    return {"k": "expr", "e": e, "semi": True, "line": line}


def _tail_try(body, line):
    """statements of `{ BODY }?`-per-item: the value of the closure body is a Result that `try_for_each` tests like `?` does"""
    if body.get("k") == "block":
        st = list(body["stmts"])
        if not st or st[-1].get("k") != "expr" or st[-1].get("semi"):
            return None
        return st[:-1] + [_stmt({"k": "try", "e": st[-1]["e"], "line": st[-1].get("line", line)}, st[-1].get("line", line))]
    return [_stmt({"k": "try", "e": body, "line": body.get("line", line)}, line)]


def _for(pat, it, stmts, line):
    # the bytes of a str one by one: `s.bytes()` yields what `s.as_bytes()` points to (u8 and &u8 format identically)
    if it.get("k") == "mcall" and it["m"] == "bytes" and not it["args"]:
        it = dict(it, m="as_bytes")
    return {"k": "for", "pat": pat, "iter": it, "label": None, "line": line, "body": {"k": "block", "line": line, "stmts": stmts}}


def _desugar_stmt_expr(e, semi):
    """an expression statement written with an iterator/Option combinator -> the loop / `if` it is, or None.
         I.try_for_each(|P| B)?            ==  for P in I { B?; }     (stops at the first Err and returns it, like `?` in the loop)
         I.for_each(|P| B)                 ==  for P in I { B; }
         C.then(|| X).transpose()?;        ==  if C { X?; }           (value discarded)
       closures with their own return/break/continue are left alone."""
    if not isinstance(e, dict):
        return None
    line = e.get("line", 0)
    if e.get("k") == "try" and isinstance(e.get("e"), dict) and e["e"].get("k") == "mcall":
        mc = e["e"]
        if mc["m"] == "try_for_each":
            c = _closure1(mc["args"], 1)
            st = _tail_try(c["body"], line) if c else None
            if st is not None:
                return _for(c["params"][0], mc["recv"], st, line)
        if mc["m"] == "transpose" and not mc["args"] and semi and isinstance(mc["recv"], dict) and mc["recv"].get("k") == "mcall" \
                and mc["recv"]["m"] == "then":
            c = _closure1(mc["recv"]["args"], 0)
            cond = mc["recv"]["recv"]
            while isinstance(cond, dict) and cond.get("k") == "paren":
                cond = cond["e"]
            st = _tail_try(c["body"], line) if c else None
            if st is not None:
                return {"k": "if", "cond": cond, "line": line, "else": None, "then": {"k": "block", "line": line, "stmts": st}}
    if e.get("k") == "mcall" and e["m"] == "for_each":
        c = _closure1(e["args"], 1)
        if c:
            b = c["body"]
            st = list(b["stmts"]) if b.get("k") == "block" else [_stmt(b, line)]
            if st and st[-1].get("k") == "expr" and not st[-1].get("semi"):
                st = st[:-1] + [dict(st[-1], semi=True)]
            return _for(c["params"][0], e["recv"], st, line)
    return None


def loops_for_chains(node):
    """copy of a syn node with statement-position iterator chains rewritten to the loops they are (see _desugar_stmt_expr), innermost included"""
    if isinstance(node, list):
        return [loops_for_chains(x) for x in node]
    if not isinstance(node, dict):
        return node
    if node.get("k") == "expr" and "semi" in node and isinstance(node.get("e"), dict):
        d = _desugar_stmt_expr(node["e"], node.get("semi"))
        if d is not None:
            return dict(node, e=loops_for_chains(d), semi=True if d["k"] == "if" else node.get("semi"))
    return {k: loops_for_chains(v) for k, v in node.items()}


_ZERO_LIT = re.compile(r"^0(?:_?[ui](?:8|16|32|64|128|size))?$")
_INDEX_KEY = re.compile(r"^v:(#index\d*)$")


def _index_zero_as_cmp(p):
    """`index matches the literal pattern 0` (match index { 0 => .. } / if let 0 = index) asks what `index == 0` asks: one comparison
    variable.  Returns (predicate, index name or None)."""
    k = p[0]
    if k == "var":
        m = _INDEX_KEY.match(p[1])
        if m and p[2] and all(_ZERO_LIT.match(v) for v in p[2]):
            return T.p_var("c:%s,0" % m.group(1), {"eq"}), m.group(1)
        return p, None
    if k == "not":
        q, nm = _index_zero_as_cmp(p[1])
        return (T.p_not(q) if nm else p), nm
    return p, None


def separator_idioms(t, enclosing=0):
    """The separator idiom of an enumerated loop decided on meaning: a loop body that starts with a two-way choice on `index is 0`, whichever
    construct asks it (`if index != 0`, `if index == 0 {} else`, `match index { 0 => {}, _ => SEP }`, `if let 0 = index {} else`), is the
    Join the `if` form is.  The extractor recognises the comparison forms; the literal-pattern forms are rewritten to the comparison variable
    here and handed to the same recogniser (T.as_join), which keeps its own side conditions (first branch empty, SEP writes, ITEM does not
    mention the index).  Only the loop's own index qualifies: nested enumerated loops are left alone."""
    if isinstance(t, T.Seq):
        return T.Seq([separator_idioms(i, enclosing) for i in t.items])
    if isinstance(t, T.Scope):
        return T.Scope(separator_idioms(t.body, enclosing), t.name)
    if isinstance(t, T.Alt):
        return T.Alt([(p, separator_idioms(b, enclosing)) for p, b in t.branches], line=t.line)
    if isinstance(t, T.Join):
        inner = enclosing + (1 if (t.star is not None and t.star.names.get("index")) or t.star is None else 0)
        return T.Join(t.over, separator_idioms(t.sep, inner), separator_idioms(t.item, inner), star=t.star, line=t.line)
    if isinstance(t, T.Star):
        own = bool(t.names.get("index"))
        body = separator_idioms(t.body, enclosing + (1 if own else 0))
        s = T.Star(body, t.iter_text, t.names, kind=t.kind, iter_node=t.iter_node, line=t.line)
        if hasattr(t, "enumerated"):
            s.enumerated = t.enumerated
        if not own or enclosing or t.kind != "for":
            return s
        items = body.items if isinstance(body, T.Seq) else [body]
        # leading empty pieces (a debug_assert!, a non-writing let) do not matter for what is written
        k = 0
        while k < len(items) and not isinstance(items[k], T.Alt) and T.is_empty(items[k]):
            k += 1
        if k >= len(items) or not isinstance(items[k], T.Alt) or len(items[k].branches) != 2:
            return s
        (p1, t1), (p2, t2) = items[k].branches
        q1, nm = _index_zero_as_cmp(p1)
        if nm is None or p2 != T.TRUE:
            return s
        cand = T.Star(T.Seq([T.Alt([(q1, t1), (p2, t2)], line=items[k].line)] + list(items[k + 1:])), t.iter_text, t.names, kind=t.kind,
                      iter_node=t.iter_node, line=t.line)
        j = T.as_join(cand, nm)
        return j if j is not None else s
    return t


def run(ctx):
    src, prog = ctx.src, ctx.prog
    ctx.explanation = (
        "Decides C05(a): for every variant of TerminalCommand the output template of its `TTYEncoder::encode` arm (helpers kitty_level and "
        "Chunks::drain inlined, immutable lets and pattern bindings substituted) equals the reference template written from ECMA-48 / xterm "
        "ctlseqs / kitty keyboard protocol on every valuation of the branch conditions: literal bytes, hole expressions (row+1, col+1, "
        "negation on the Less branches, final bytes), format specs (two-digit hex for XTGETTCAP), DEC private marker, OSC/DCS framing; the "
        "declared field types of the variants are those the decimal/Display holes assume; every path is a concatenation of complete "
        "control sequences with no non-I/O failure exit inside a sequence; DecMode discriminants equal the xterm mode numbers. "
        "NOT decided: the SGR parameter table of Face/FaceModify (C06; only CSI..m framing and ';' joining here), colour depth reduction "
        "(C20), behaviour of a real terminal beyond "
        "the reference templates, control bytes inside the ground-state payloads of Char/Raw. Values written inside OSC/DCS strings are "
        "classified (STRING-PAYLOAD): numeric / hex / trusted Display / control-filtered characters pass, raw strings are reported.")
    ctx.assume("I/O errors of the sink abort the command: Err paths of write!/write_all are not part of the template language")
    ctx.assume("functions called inside hole expressions are pure; Display of usize/i32/char/String/RGBA is the std/rasterize one")
    ctx.trust("refs/ecma48_cmds.json", "reference templates written by hand from ECMA-48 5th ed., xterm ctlseqs, kitty keyboard protocol")

    ctx.rule("TEMPLATE", "encode arm template == reference template (per TerminalCommand variant, every branch valuation)", floor=N_VARIANTS)
    ctx.rule("COMPLETE", "every path of an encode arm is a concatenation of complete control sequences (no exit inside a sequence)", floor=N_VARIANTS)
    ctx.rule("STRING-PAYLOAD", "a value written inside an OSC/DCS/APC string cannot contain bytes that end or corrupt the string (numeric, hex, "
                               "trusted Display, or characters filtered by !is_control())", floor=4)
    ctx.rule("DECMODE", "DecMode discriminants == xterm DECSET/DECRST mode numbers; KEYBOARD_LEVEL within the kitty flag range", floor=N_DECMODES + 1)

    try:
        refdoc, rows = load_refs()
    except Exception as e:  # malformed reference table: fail closed
        ctx.anchor("TEMPLATE", "refs/ecma48_cmds.json", "reference table unreadable: %s" % e)
        return

    # ---------------- variants ------------------------------------------------------------------
    en = src.enum(ENUM)
    mv = prog.enum_variants(ENUM_PATH)
    if en is None or mv is None:
        ctx.anchor("TEMPLATE", "enum-TerminalCommand")
        return
    variants = [v["name"] for v in en[1]["variants"]]
    if variants != [n for n, _ in mv]:
        ctx.anchor("TEMPLATE", "enum-TerminalCommand", "src.json and mir.json disagree on the variants of TerminalCommand")
        return

    r = src.fn("encode", impl_self="TTYEncoder", impl_trait="Encoder")
    if r is None:
        ctx.anchor("TEMPLATE", "TTYEncoder::encode")
        return
    file, fn = r
    where = "<encoder::TTYEncoder as encoder::Encoder>::encode"
    try:
        ex = T.Extractor(src, file, fn)
        others = [p["pat"]["name"] for p in fn["sig"]["inputs"] if p.get("pat") and p["pat"].get("name") and p["pat"]["name"] not in ex.sinks]
        if len(others) != 1:
            raise T.Unsupported("encode has parameters %s besides self and the sink" % others)
        cmd = others[0]
        m = ex.match_arms(cmd)
    except T.Unsupported as e:
        ctx.anchor("TEMPLATE", "TTYEncoder::encode", "encode is not `match cmd {..}` over a sink: %s" % e)
        return

    arm_of = {}
    catch_all = None
    try:
        for arm in m["arms"]:
            for name, case in pattern_cases(arm["pat"]):
                if name is None:
                    if catch_all is None:
                        catch_all = (arm, case)
                elif name not in arm_of and catch_all is None:
                    arm_of[name] = (arm, case)
    except T.Unsupported as e:
        ctx.anchor("TEMPLATE", "TTYEncoder::encode", str(e))
        return

    resolver = make_resolver(src, "TTYEncoder", file)
    enumerated = 0
    for v in variants:
        got = arm_of.get(v) or catch_all
        line = None
        sites = []
        if got is None:
            ctx.instance("TEMPLATE", {"variant": v, "arm": None})
            ctx.violation("TEMPLATE", v, "no-arm", "no arm of encode handles %s" % v, sites=["%s:%d" % (file, m["line"])])
            continue
        arm, case = got
        sites = ["%s:%d" % (file, arm["line"])]
        if arm.get("guard") is not None:
            ctx.instance("TEMPLATE", {"variant": v})
            ctx.violation("TEMPLATE", v, "unsupported-construct", "arm of %s has a guard" % v, sites=sites)
            continue
        try:
            try:
                t = ex.arm_template(case, arm["body"], T.mkpath("$"))
            except T.Unsupported:
                # iterator chains whose closures write to the sink (try_for_each / for_each / then..transpose) are the loops they stand for
                body2 = loops_for_chains(arm["body"])
                if body2 == arm["body"]:
                    raise
                t = ex.arm_template(case, body2, T.mkpath("$"))
            t = T.inline_calls(t, resolver, src)
            t = separator_idioms(t)               # `match index { 0 => {}, _ => SEP }` is the join `if index != 0 { SEP }` is
            # the bytes of a String/&str are what its Display writes
            t = T.variant_eq_as_match(t)          # `x == Enum::V` and `matches!(x, Enum::V)` are one case variable
            # ... and the UTF-8 encoding of a char (encode_utf8 into a buffer of >= 4 bytes, to_string) is what its Display writes
            t = T.str_bytes_as_display(t, lambda text, node, v=v: field_type(prog, None, v, text) in STR_TYPES if re.match(r"^\$(\.\w+)+$", text) else False,
                                       is_char=lambda text, node, v=v: field_type(prog, None, v, text) == "char" if re.match(r"^\$(\.\w+)+$", text) else False)
        except T.Unsupported as e:
            ctx.instance("TEMPLATE", {"variant": v})
            ctx.instance("COMPLETE", {"variant": v})
            ctx.violation("TEMPLATE", v, "unsupported-construct", "the arm of %s uses a construct outside the template subset (fail closed): %s" % (v, e), sites=sites)
            continue
        enumerated += 1
        row = rows.get(v)
        if row is None:
            ctx.instance("TEMPLATE", {"variant": v, "template": t.text()})
            ctx.violation("TEMPLATE", v, "no-reference", "TerminalCommand::%s has no row in refs/ecma48_cmds.json; its arm writes %s" % (v, t.text() or "(nothing)"), sites=sites)
        else:
            try:
                ms, n = T.compare(t, row["_alts"])
            except T.Unsupported as e:
                ms, n = None, 0
                ctx.violation("TEMPLATE", v, "unsupported-construct", str(e), sites=sites)
            ctx.instance("TEMPLATE", {"variant": v, "reference": row["name"], "template": t.text()[:300], "valuations": n})
            for mm in ms or []:
                ctx.violation("TEMPLATE", v, mm.shape,
                              "%s (%s): %s; reference: %s" % (v, row["name"], mm, row["cite"]), sites=sites,
                              detail={"valuation": mm.val, "expected": mm.expected, "found": mm.actual})
            if ms is not None and n == 0:
                ctx.violation("TEMPLATE", v, "structure", "no branch valuation on which both the arm and the reference are defined", sites=sites)
            for path, ty in sorted(row.get("types", {}).items()):
                have = field_type(prog, refdoc, v, path)
                if have != ty:
                    ctx.violation("TEMPLATE", v, "field-type",
                                  "%s: the reference template assumes %s: %s but the variant declares %s" % (v, path, ty, have), sites=sites)

        def report(reason, msg, ln, v=v, sites=sites):
            ctx.violation("COMPLETE", v, reason, "%s: %s" % (v, msg), sites=sites if ln is None else ["%s:%s" % (file, ln)])
        try:
            nval = check_complete(t, v, report)
        except T.Unsupported as e:
            nval = 0
            ctx.violation("COMPLETE", v, "unsupported-construct", str(e), sites=sites)
        ctx.instance("COMPLETE", {"variant": v, "valuations": nval})
        # values written inside control strings
        found = []
        try:
            string_payloads(t, found)
        except T.Unsupported as e:
            ctx.violation("STRING-PAYLOAD", v, "unsupported-construct", str(e), sites=sites)
        seen_p = set()
        # an atom is guarded when every valuation under which it is written states that the string it prints has no control character
        guarded = {}
        for kind, a, lps, val in found:
            g = a.expr in control_free_under(val)
            guarded[id(a)] = guarded.get(id(a), True) and g
        for kind, a, lps, val in found:
            key = (kind, a.text(), guarded[id(a)])
            if key in seen_p:
                continue
            seen_p.add(key)
            cls, why = payload_class(prog, refdoc, v, a, lps)
            if cls == "string" and guarded[id(a)]:
                cls, why = "safe", "written only on the branch where %s was tested to contain no control character" % a.expr
            ctx.instance("STRING-PAYLOAD", {"variant": v, "in": kind, "hole": a.text(), "class": cls, "why": why})
            ln = ["%s:%s" % (file, a.line)] if getattr(a, "line", None) else sites
            if cls == "string":
                ctx.violation("STRING-PAYLOAD", v, "unescaped-string-in-%s" % kind,
                              "%s writes %s (%s) unescaped inside an %s string: a payload containing BEL, ESC or another control character ends or "
                              "corrupts the sequence, so the command stream does not parse back into this command (%s)"
                              % (v, a.text(), why, kind, refdoc["string_payload"]["cite"]), sites=ln)
            elif cls == "unknown":
                ctx.violation("STRING-PAYLOAD", v, "unclassified-payload-in-%s" % kind,
                              "%s writes %s inside an %s string and its byte range could not be classified (%s)" % (v, a.text(), kind, why), sites=ln)
            elif "trusted" in why:
                ctx.trust("Display of rasterize::RGBA", why)
        if any(isinstance(a, (T.Hole, T.Raw)) for a in T.atoms_in(t)) and row is not None and v in ("Char", "Raw"):
            ctx.note("%s passes its payload through in ground state: C0 controls are legitimate data-stream content there and Raw is an explicit "
                     "escape hatch, so no escaping is required by the reference" % v)
    for name in rows:
        if name not in variants:
            ctx.note("reference row %s has no variant in the repository (constrains nothing)" % name)
    ctx.exhaustive = (enumerated == len(variants))
    ctx.extra["variants"] = len(variants)

    # ---------------- DEC private mode numbers ------------------------------------------------
    dm = prog.enum_variants("terminal::DecMode")
    if dm is None:
        ctx.anchor("DECMODE", "enum-DecMode")
    else:
        want = {r["variant"]: r for r in refdoc["dec_modes"]["rows"]}
        for name, discr in dm:
            ctx.instance("DECMODE", {"mode": name, "code": discr})
            if name not in want:
                ctx.violation("DECMODE", "terminal::DecMode", "%s-no-reference" % name, "DecMode::%s = %s has no row in the reference mode table" % (name, discr))
            elif discr != want[name]["code"]:
                ctx.violation("DECMODE", "terminal::DecMode", name,
                              "DecMode::%s = %s but xterm's mode number is %d (%s)" % (name, discr, want[name]["code"], want[name]["cite"]))
    kl = src.const("KEYBOARD_LEVEL")
    val = T.canon(kl[1]["expr"]) if kl else None
    if kl and not re.match(r"^\d+$", val or ""):
        # written as an expression (`1 | 2 | 4`, `0b11 << 1`, another constant): its value
        try:
            from ..consteval import Interp, Unsupported as _Unsup
            try:
                v_ = Interp(src).const(None, "KEYBOARD_LEVEL", kl[0])
                if isinstance(v_, int) and not isinstance(v_, bool):
                    val = str(v_)
            except _Unsup:
                pass
        except ImportError:
            pass
    ctx.instance("DECMODE", {"const": "KEYBOARD_LEVEL", "value": val})
    if kl is None or not re.match(r"^\d+$", val or ""):
        ctx.anchor("DECMODE", "KEYBOARD_LEVEL")
    elif int(val) > refdoc["consts"]["KEYBOARD_LEVEL"]["max"]:
        ctx.violation("DECMODE", "decoder::KEYBOARD_LEVEL", "range", "KEYBOARD_LEVEL = %s exceeds the defined kitty keyboard flags (<= %d)" % (val, refdoc["consts"]["KEYBOARD_LEVEL"]["max"]))

    obligations(ctx)
    sgr_params(ctx)


_DBG_EXP = re.compile(r"^bang:debug_assert(_eq|_ne)?:")


def debug_only_blocks(body):
    """blocks of `body` that run only inside a debug_assert!/debug_assert_eq!/debug_assert_ne!: the macro expands to
    `if cfg!(debug_assertions) { assert!(..) }`; in MIR the flag is a constant assigned by a statement of the macro's own expansion and
    switched on at once, so the region is everything dominated by the taken target of that switch (the join after the macro is not:
    it is also reached from the other edge)."""
    flags = {}
    for bb, blk in enumerate(body.blocks):
        for st in blk["stmts"]:
            if st["k"] == "assign" and not st["place"]["p"] and _DBG_EXP.match(st.get("expk") or "") and st["rv"]["k"] == "use" \
                    and st["rv"]["a"].get("k") == "const" and st["rv"]["a"]["c"].get("ty") == "bool":
                flags.setdefault(st["place"]["l"], []).append(bb)
    if not flags:
        return set()
    cfg = body.cfg()
    out = set()
    for bb, blk in enumerate(body.blocks):
        t = blk["term"]
        if t["k"] != "switch" or t["d"].get("k") not in ("copy", "move") or t["d"]["place"]["p"] or not t.get("exp"):
            continue
        l = t["d"]["place"]["l"]
        if flags.get(l) != [bb] or len(body.defs_of(l)) != 1 or t.get("vals") != ["0"]:
            continue
        entry = t["otherwise"]
        if entry in t["targets"] or cfg.pred[entry] != [bb]:
            continue
        out |= {x for x in cfg.reach if cfg.dominates(entry, x)}
    return out


def debug_only_lemmas(prog, scope):
    """(body path, site key | '*') -> lemma for every obligation that exists only in debug builds, as part of a debug_assert!: obligations
    of the enclosing body that lie in the macro's region, and every obligation of a closure written inside the asserted expression
    (the closure value is built in the region, so it only ever runs there).  Such code states an invariant its author believes and is absent
    from release builds (same policy as the engine's DEBUGCHK class for the assertion itself)."""
    from .. import oblrules, obligations as OB
    why = "runs only inside a debug_assert!: developer-stated invariant, absent from release builds"
    out = {}
    dbg_closures = set()
    for b in prog.bodies:
        if not scope(b):
            continue
        region = debug_only_blocks(b)
        if not region:
            continue
        for bb in region:
            for st in b.blocks[bb]["stmts"]:
                if st["k"] == "assign" and st["rv"]["k"] == "agg" and st["rv"].get("ak") == "closure" and st["rv"].get("def"):
                    dbg_closures.add(st["rv"]["def"])
        obs = [o for o in OB.collect(b, lossy=False, unsafe=True) if not o.exp]
        keys = oblrules.site_keys(obs)
        for o in obs:
            if o.bb in region:
                out[(b.path, keys[id(o)])] = ("DEBUG-ONLY", why)
    for b in prog.bodies:
        if any(b.path == c or b.path.startswith(c + "::") for c in dbg_closures):
            out[(b.path, "*")] = ("DEBUG-ONLY", why)
    return out


# ---- SGR-PARAMS ---------------------------------------------------------------------------------------------------------------------------
def sgr_params(ctx):
    """Under every colour depth, what TTYEncoder::encode writes for a Face / FaceModify is either nothing or ONE control sequence `ESC [ p ; p .. m`
    whose every parameter is a non-empty decimal number (with ':' sub-parameters): an empty parameter means 0 = reset to a terminal.  Decided by
    giving the arm its value (source expressions evaluated by C06's evaluator; the colour arithmetic of the rasterize crate is modelled loosely -
    any finite model will do, the shape of the output does not depend on which palette entry is picked).  Undecided (note) when not evaluable."""
    ctx.rule("SGR-PARAMS", "Face/FaceModify under TrueColor, EightBit and Gray depth: the output is nothing or one ESC [ p;p.. m with every parameter a non-empty decimal (':' sub-parameters allowed)", floor=6)
    try:
        from . import c06
        from ..consteval import Unsupported as EvUnsupported, StructV, EnumV, NONE, some
    except ImportError as ex:
        ctx.note("SGR-PARAMS not evaluated: %s" % ex)
        return
    it = c06.Ev(ctx.src)

    def lin(c):
        return ("LinColor",) + tuple(float(x) / 255.0 for x in c[1:4]) + (1.0,)
    it.extern_fns["LinColor::from"] = lambda a: lin(a[0]) if isinstance(a[0], tuple) and a[0][:1] == ("RGBA",) else a[0]
    it.extern_fns["LinColor::new"] = lambda a: ("LinColor",) + tuple(float(x) for x in a)
    std_method = it.std_method

    def with_colours(recv, m, a, fr=None, turbofish=""):
        if isinstance(recv, tuple) and recv[:1] in (("LinColor",), ("RGBA",)) and len(recv) == 5:
            ch = [float(x) / (255.0 if recv[0] == "RGBA" else 1.0) for x in recv[1:4]]
            if m == "luma" and not a:
                return 0.2126 * ch[0] + 0.7152 * ch[1] + 0.0722 * ch[2]
            if m == "distance" and len(a) == 1 and isinstance(a[0], tuple) and len(a[0]) == 5:
                o = [float(x) / (255.0 if a[0][0] == "RGBA" else 1.0) for x in a[0][1:4]]
                return sum((x - y) ** 2 for x, y in zip(ch, o)) ** 0.5
            if m == "into" and not a and recv[0] == "LinColor":
                return [float(x) for x in recv[1:5]]
        return std_method(recv, m, a, fr, turbofish)
    it.std_method = with_colours
    w = c06.SgrWorld(it, ctx.src)
    if not w.ok:
        ctx.note("SGR-PARAMS not evaluated: %s not found" % ", ".join(w.problems))
        return
    depths = [v["name"] for v in w.en_depth[1]["variants"]]
    param = re.compile(rb"^[0-9]+(:[0-9]+)*$")
    C = c06.colour()
    flag_bits, style_bits = {}, {}
    try:
        for cn in c06.FLAG_NAMES:
            v = it.const("FaceAttrs", cn)
            if isinstance(v, StructV):
                flag_bits[cn] = v.fields.get("bits")
        for sname, cn in c06.UCONST.items():
            v = it.const("FaceAttrs", cn)
            if isinstance(v, StructV):
                style_bits[sname] = v.fields.get("bits")
    except EvUnsupported:
        pass
    mods = [("reset", {"reset": True})] + [(c, {c: some(C)}) for c in w.colour_fields] + [("underline-" + st_, {"underline": some(EnumV("UnderlineStyle", st_))}) for st_ in w.styles] \
        + [("%s-%s" % (b_, v_), {b_: some(v_)}) for b_ in w.bool_fields for v_ in (True, False)]
    all_mod = {}
    for _, kw in mods:
        for k2, v2 in kw.items():
            all_mod.setdefault(k2, v2)
    mods.append(("all-fields", all_mod))
    bits_all = 0
    for b_ in list(flag_bits.values()) + list(style_bits.values())[:1]:
        if isinstance(b_, int):
            bits_all |= b_
    faces = [("default", w.face()), ("fg", w.face(fg=some(C))), ("bg", w.face(bg=some(C))), ("all", w.face(fg=some(C), bg=some(c06.colour((200, 100, 0))), bits=bits_all))]
    faces += [("attrs-%s" % k2, w.face(bits=b_)) for k2, b_ in list(flag_bits.items()) + list(style_bits.items()) if isinstance(b_, int)]
    for depth in depths:
        w.caps = (lambda depth=depth: StructV("TerminalCaps", {f["name"]: (EnumV("ColorDepth", depth) if f["ty"].replace(" ", "") == "ColorDepth" else it.default_of(f["ty"].replace(" ", "")))
                                                              for f in w.st_caps[1]["fields"]}))
        for arm, rows in (("FaceModify", [(l, w.mod(**kw)) for l, kw in mods]), ("Face", faces)):
            n_ok = 0
            undecided = None
            for label, arg in rows:
                try:
                    out = w.encode(arm, arg)
                except c06.Panic as ex:
                    ctx.violation("SGR-PARAMS", "TTYEncoder::encode/%s" % arm, "panics-%s" % depth, "%s(%s) under %s depth panics: %s" % (arm, label, depth, ex), sites=[c06.ENC])
                    continue
                except EvUnsupported as ex:
                    undecided = "%s(%s): %s" % (arm, label, ex)
                    break
                n_ok += 1
                if out == b"":
                    continue
                p_ = c06.sgr_payload(out)
                bad = None
                if p_ is None:
                    bad = "is not one ESC [ .. m sequence"
                else:
                    empties = [i for i, x in enumerate(p_.split(b";")) if not param.match(x)]
                    if empties:
                        bad = "has a malformed parameter (number %d is %r; an empty parameter is 0 = reset)" % (empties[0] + 1, p_.split(b";")[empties[0]].decode("latin-1"))
                if bad:
                    ctx.violation("SGR-PARAMS", "TTYEncoder::encode/%s" % arm, "%s-%s" % (depth, "framing" if p_ is None else "empty-parameter"),
                                  "%s(%s) under %s depth is written as %s, which %s" % (arm, label, depth, c06.shb(out), bad), sites=[c06.ENC])
            ctx.instance("SGR-PARAMS", {"depth": depth, "arm": arm, "commands": n_ok, "undecided": undecided}, nontrivial=undecided is None)
            if undecided:
                ctx.note("SGR-PARAMS undecided for %s depth (construct outside the evaluator's models): %s" % (depth, undecided))


# ---- NEAREST-RANGE ------------------------------------------------------------------------------------------------------------------------
def _split_args(text):
    """top-level comma split of `a, f(b, c), d`"""
    out, depth, cur = [], 0, []
    for ch in text:
        if ch in "([{":
            depth += 1
        elif ch in ")]}":
            depth -= 1
        if ch == "," and depth == 0:
            out.append("".join(cur).strip())
            cur = []
        else:
            cur.append(ch)
    if cur:
        out.append("".join(cur).strip())
    return out


def _term_upper(term, nearest_max, table_max):
    """upper bound of a canonical term (sa.flow.expr) built from non-negative constants, `encoder::nearest(_, T)` (< len T), reads of integer
    const tables and Add/Mul; None when the term has anything else"""
    term = term.strip()
    if re.fullmatch(r"\d+", term):
        return int(term)
    m = re.fullmatch(r"(Add|Mul)\((.*)\)", term)
    if m:
        parts = _split_args(m.group(2))
        if len(parts) != 2:
            return None
        a, b = _term_upper(parts[0], nearest_max, table_max), _term_upper(parts[1], nearest_max, table_max)
        if a is None or b is None:
            return None
        return a + b if m.group(1) == "Add" else a * b
    m = re.fullmatch(r"encoder::nearest\((.*)\)", term)
    if m:
        parts = _split_args(m.group(1))
        return nearest_max(parts[1]) if len(parts) == 2 else None
    m = re.fullmatch(r"([\w:]+)\[(.*)\]", term)
    if m:
        return table_max(m.group(1))
    return None


def _operand_upper(body, operand, nearest_max, table_max, depth=0):
    """upper bound of an operand: of its canonical term, or -- for a local that is assigned on several paths (the value of a `match`/`if`
    whose arms pick constants or table elements: `match level { 0 => T[0], 1 => T[1], .. }`) -- the largest bound over all its assignments.
    None when some assignment is anything else than a plain use, when the local may be written through a reference, or on a cycle."""
    from ..flow import expr
    u = _term_upper(expr(body, operand), nearest_max, table_max)
    if u is not None or depth > 4:
        return u
    if operand.get("k") not in ("copy", "move") or operand["place"]["p"]:
        return None
    l = operand["place"]["l"]
    for _, _, st in body.assigns():
        rv = st["rv"]
        if rv.get("k") in ("ref", "addr", "addrof", "rawptr") and rv.get("place", {}).get("l") == l and (rv.get("mut") or rv.get("k") != "ref"):
            return None
    defs = body.defs_of(l)
    if not defs:
        return None
    best = 0
    for _, si, rv in defs:
        if si == "term" or not isinstance(rv, dict) or rv.get("k") != "use":
            return None
        d = _operand_upper(body, rv["a"], nearest_max, table_max, depth + 1)
        if d is None:
            return None
        best = max(best, d)
    return best


def nearest_range_lemmas(ctx, lemmas):
    """`encoder::nearest(v, vs)` is given its value (source expression, std binary_search_by modelled) on every outcome of the search (Ok(i), Err(i))
    and every outcome of the neighbour comparison, for a strictly increasing table of each length it is called with: the result is an index < len and no
    index arithmetic leaves the unsigned range.  That does not depend on how nearest is written (match on the Result, unwrap_or_else(closure), early
    returns ..).  Used where the interval engine cannot see it itself: bounds/overflow obligations inside nearest, `TABLE[nearest(_, TABLE)]` and sums
    of such indices in its callers."""
    from .. import oblrules, obligations as OB
    from ..flow import expr
    from ..mir import call_matches
    prog = ctx.prog
    ctx.rule("NEAREST-RANGE", "encoder::nearest(v, vs) < vs.len() without index underflow, on every search outcome and tie direction, per table length used at its call sites", floor=3)
    try:
        from .c06 import Ev, Panic
        from ..consteval import Unsupported as EvUnsupported
    except ImportError as ex:
        ctx.note("NEAREST-RANGE not evaluated: %s" % ex)
        return
    nb = prog.body("encoder::nearest")
    if nb is None:
        ctx.anchor("NEAREST-RANGE", "encoder::nearest")
        return
    # ---- table lengths at the call sites
    ENC_FILE = "src/encoder.rs"

    def table_len(body, operand):
        """number of elements of the slice passed as table, when it is a constant table"""
        text = expr(body, operand)
        m = re.fullmatch(r"(?:\w+::)*(\w+)", text)
        hit = ctx.src.const(m.group(1), file=ENC_FILE) if m else None
        if hit is not None:
            e = hit[1]["expr"]
            while e.get("k") in ("ref", "paren", "cast"):
                e = e["e"]
            if e.get("k") == "array":
                return text, len(e["elems"])
        if operand.get("k") in ("copy", "move") and not operand["place"]["p"]:
            for _, _, rv in body.defs_of(operand["place"]["l"]):
                if isinstance(rv, dict) and rv.get("k") == "cast" and "Unsize" in (rv.get("ck") or ""):
                    mm = re.fullmatch(r"&(?:'\w+ )?\[\w+; (\d+)\]", rv.get("from") or "")
                    if mm:
                        return text, int(mm.group(1))
        return text, None
    lens = {}
    all_known = True
    for b in prog.bodies:
        for bb, t in b.calls():
            if call_matches(t, r"^encoder::nearest$") and len(t["args"]) == 2:
                text, n = table_len(b, t["args"][1])
                if n is None or n == 0:
                    all_known = False
                    ctx.note("NEAREST-RANGE: table of nearest() called in %s (%s) is not a constant table" % (b.path, text))
                else:
                    lens[(b.path, text)] = n
    if not lens or not all_known:
        ctx.instance("NEAREST-RANGE", {"call_site_tables": {"%s %s" % k: v for k, v in lens.items()}, "all_constant": all_known})
        return
    # ---- evaluation
    it = Ev(ctx.src)
    it.unsigned_sub = True
    f = it.find_fn(None, "nearest", file=ENC_FILE)
    if f is None or len(f[2]["sig"]["inputs"]) != 2:
        ctx.note("NEAREST-RANGE not evaluated: fn nearest(v, vs) not found in the source dump")
        return
    established = True
    for n in sorted(set(lens.values())):
        table = [float(k) for k in range(n)]
        probes = [-1e30, -0.5, 1e30, float(n)] + [k + d for k in range(n) for d in (0.0, 0.25, 0.5, 0.75)]
        bad = None
        try:
            for v in probes:
                r = it.call_item(f[2], None, [v, list(table)], f[0], memo=False)
                if not (isinstance(r, int) and not isinstance(r, bool) and 0 <= r < n):
                    bad = "nearest(%r, <%d increasing values>) = %r" % (v, n, r)
                    break
        except Panic as ex:
            bad = "nearest(%r, <%d increasing values>) panics: %s" % (v, n, ex)
        except EvUnsupported as ex:
            ctx.note("NEAREST-RANGE not evaluated (construct outside the modelled subset): %s" % ex)
            established = False
            break
        ctx.instance("NEAREST-RANGE", {"table_length": n, "probes": len(probes), "ok": bad is None})
        if bad:
            established = False
            ctx.violation("NEAREST-RANGE", "encoder::nearest", "index-range", "%s: not an index of the table (callers index CUBE/GREYS with it)" % bad, sites=[nb.loc])
    if not established:
        return
    why = "nearest() evaluated on every search outcome and tie direction for table lengths %s: result < len, no index underflow (NEAREST-RANGE)" % sorted(set(lens.values()))
    # (a) inside nearest and its closures (the NaN unwrap is FINITE-COLOR's, not this lemma's)
    for b in prog.bodies:
        if b.path == "encoder::nearest" or b.path.startswith("encoder::nearest::"):
            for kind in ("OVF", "BOUNDS", "BOUNDSCALL", "RANGEIDX"):
                lemmas.setdefault((b.path, kind), ("NEAREST-RANGE", why))
    # (b) in the callers: TABLE[nearest(_, TABLE')] with len TABLE' <= len TABLE; sums/products of such indices and constants
    max_by_text = {}
    for (path, text), n in lens.items():
        max_by_text[text] = max(max_by_text.get(text, 0), n - 1)

    def nearest_max(table_text):
        return max_by_text.get(table_text.strip())

    def table_max(name):
        hit = ctx.src.const(name.split("::")[-1], file=ENC_FILE)
        if hit is None:
            return None
        e = hit[1]["expr"]
        while e.get("k") in ("ref", "paren", "cast"):
            e = e["e"]
        if e.get("k") != "array":
            return None
        vals = []
        for x in e["elems"]:
            if x.get("k") == "lit" and x.get("t") in ("int", "byte"):
                vals.append(int(x["v"]))
            else:
                return None
        return max(vals) if vals else None
    TY_MAX = {"u8": 255, "u16": 65535, "u32": (1 << 32) - 1, "u64": (1 << 64) - 1, "usize": (1 << 64) - 1}
    for path in sorted({p_ for (p_, _) in lens}):
        b = prog.body(path)
        obs = [o for o in OB.collect(b, lossy=False, unsafe=True) if not o.exp]
        keys = oblrules.site_keys(obs)
        for o in obs:
            msg = (o.term or {}).get("msg") or {}
            if o.kind == "BOUNDS":
                idx, ln = expr(b, msg["index"]), expr(b, msg["len"])
                m = re.fullmatch(r"encoder::nearest\((.*)\)", idx)
                parts = _split_args(m.group(1)) if m else []
                if len(parts) == 2 and nearest_max(parts[1]) is not None:
                    n_tab = nearest_max(parts[1]) + 1
                    if ln == "PtrMetadata(%s)" % parts[1] or (re.fullmatch(r"\d+", ln) and int(ln) >= n_tab):
                        lemmas.setdefault((path, keys[id(o)]), ("NEAREST-RANGE", why))
            elif o.kind == "OVF" and o.sub in ("Add", "Mul") and msg.get("a") and msg.get("b"):
                ua, ub = _operand_upper(b, msg["a"], nearest_max, table_max), _operand_upper(b, msg["b"], nearest_max, table_max)
                tys = []
                for opnd in (msg["a"], msg["b"]):
                    if opnd.get("k") in ("copy", "move"):
                        tys.append(b.local_ty(opnd["place"]["l"]) if not opnd["place"]["p"] else None)
                    elif opnd.get("k") == "const":
                        tys.append(opnd["c"].get("ty"))
                ty = next((t_ for t_ in tys if t_ in TY_MAX), None)
                if ua is not None and ub is not None and ty is not None:
                    total = ua + ub if o.sub == "Add" else ua * ub
                    if total <= TY_MAX[ty]:
                        lemmas.setdefault((path, keys[id(o)]), ("NEAREST-RANGE", "%s; operands at most %d and %d (%s)" % (why, ua, ub, ty)))


def obligations(ctx):
    """C05(b) "encoding never panics": every overflow/neg/bounds/unwrap obligation reachable from TTYEncoder::encode is discharged by the
    abstract interpreter (extreme values: `-col`, `pos.row + 1`, ...), by the CHUNKS-INV lemma (structurally checked here) or by the
    FINITE-COLOR lemma (colours are RGBA)."""
    import re
    from .. import oblrules
    from ..mir import call_matches, callee_name
    from ..flow import resolve_place, expr, arg_place as arg_place_of
    prog = ctx.prog
    ENC = "<encoder::TTYEncoder as encoder::Encoder>::encode"
    lemmas = {}
    # ---- CHUNKS-INV: offsets are non-decreasing and <= buffer.len() ---------------------------------------------------------
    ctx.rule("CHUNKS-INV", "encoder::Chunks: offsets only grows by push(buffer.len()), buffer only grows, both are cleared together; "
                           "Chunks::iter walks offsets in order starting from 0 — so buffer[start..end] is in range", floor=5)
    ALLOWED = {"offsets": [r"^std::vec::Vec::<T, A>::push$", r"^std::vec::Vec::<T, A>::clear$", r"^std::vec::Vec::<T, A>::(reserve|reserve_exact|try_reserve|shrink_to_fit)$"],
               "buffer": [r"Extend<&'a T>>::extend$|as std::iter::Extend<.*>>::extend$", r"^std::vec::Vec::<T, A>::(extend_from_slice|push|reserve|reserve_exact|try_reserve|shrink_to_fit)$", r"(as std::io::Write>|impl std::io::Write for std::vec::Vec<u8, A>>)::write(_all)?$", r"^std::vec::Vec::<T, A>::clear$"]}
    NEUTRAL = r"^std::vec::Vec::<T, A>::(reserve|reserve_exact|try_reserve|try_reserve_exact|shrink_to_fit|shrink_to)$"
    ok_inv = True
    n_mut = 0
    clears = {}
    for b in prog.bodies:
        own = re.sub(r"<.*$", "", b.impl_self or "") == "encoder::Chunks" or (b.closure_root or "").startswith("encoder::Chunks::") or b.path.startswith("<encoder::Chunks as ")
        for bb, si, st in b.assigns():
            rp = resolve_place(b, st["place"])
            m = re.search(r"\.(buffer|offsets)$", rp)
            base_ty = b.local_ty(st["place"]["l"])
            if m and "Chunks" in base_ty:
                ok_inv = False
                ctx.violation("CHUNKS-INV", b.path, "assign-" + m.group(1), "Chunks.%s is overwritten directly" % m.group(1), sites=["%s:%d" % (b.file, st["line"])])
            rv = st["rv"]
            if rv["k"] == "ref" and rv["mut"]:
                rp = resolve_place(b, rv["place"])
                m = re.search(r"\.(buffer|offsets)$", rp)
                if not m or "Chunks" not in b.local_ty(rv["place"]["l"]):
                    continue
                pj = rv["place"]["p"]
                if not (pj and pj[-1].get("k") == "field" and pj[-1].get("name") == m.group(1)):
                    continue          # a reborrow `&mut *r` of a reference taken earlier: followed from that reference below
                n_mut += 1
                fld = m.group(1)
                l = st["place"]["l"]
                # every call that receives this reference, directly or through a reborrow / move into another local (`let buf = &mut self.buffer; buf.extend(..)`)
                refs_, work_, users, escapes = {l}, [l], [], bool(st["place"]["p"])
                while work_:
                    x = work_.pop()
                    users += [(ub, t) for ub, t in b.calls() if any(a.get("k") in ("copy", "move") and a["place"]["l"] == x and not a["place"]["p"] for a in t["args"])]
                    for _, _, st2 in b.assigns():
                        rv2 = st2["rv"]
                        via = (rv2["k"] == "ref" and rv2["place"]["l"] == x and [e_.get("k") for e_ in rv2["place"]["p"]] == ["deref"]) or \
                              (rv2["k"] == "use" and rv2["a"].get("k") in ("copy", "move") and rv2["a"]["place"]["l"] == x and not rv2["a"]["place"]["p"])
                        if via:
                            if st2["place"]["p"]:
                                escapes = True          # stored into a field / through a pointer
                            elif st2["place"]["l"] not in refs_:
                                refs_.add(st2["place"]["l"])
                                work_.append(st2["place"]["l"])
                # capacity-only calls leave length and content alone: harmless wherever they are made; everything else only inside Chunks' own methods
                neutral = bool(users) and not escapes and all(call_matches(t, NEUTRAL) for _, t in users)
                good = neutral or (own and bool(users) and not escapes and all(any(call_matches(t, p) for p in ALLOWED[fld]) for _, t in users))
                what = ", ".join(sorted({callee_name(t) or "?" for _, t in users})) if users else None
                for _, t in users:
                    if good and call_matches(t, r"Vec::<T, A>::push$"):
                        good = expr(b, t["args"][1]) in ("Vec::len(arg1.buffer)", "len(arg1.buffer)")
                        what = "push(%s)" % expr(b, t["args"][1])
                    if good and call_matches(t, r"Vec::<T, A>::clear$"):
                        clears.setdefault(b.path, set()).add(fld)
                ctx.instance("CHUNKS-INV", {"fn": b.path, "field": fld, "mutated_by": what, "allowed": bool(good)})
                if not good:
                    ok_inv = False
                    ctx.violation("CHUNKS-INV", b.path, "mutation-" + fld, "Chunks.%s is mutated by %s (%s): offsets may then exceed buffer.len() or decrease"
                                  % (fld, what, "outside Chunks' methods" if not own else "not push(buffer.len())/extend/write/clear"), sites=["%s:%d" % (b.file, st["line"])])
    for path, flds in clears.items():
        if flds != {"buffer", "offsets"}:
            ok_inv = False
            ctx.violation("CHUNKS-INV", path, "partial-clear", "%s clears %s but not the other vector" % (path, sorted(flds)), sites=[prog.body(path).loc])
    it = prog.body("encoder::Chunks::iter")
    itc = prog.body("encoder::Chunks::iter::{closure#0}")
    if it is None or itc is None or n_mut < 4:
        ctx.anchor("CHUNKS-INV", "Chunks::iter")
        ok_inv = False
    else:
        # in-order walk, decided on canonical terms (not on statement order, names or capture positions): the one range index is
        #   buffer[S .. offsets[I]]   with S, I captured state;   every write to S stores that same offsets[I] (the one read of offsets);
        #   every write to I is I + <positive constant>;   nothing else of the state is written;   S and I start at 0
        init = [expr(it, {"k": "copy", "place": st["place"]}) for bb, si, st in it.assigns() if st["rv"]["k"] == "agg" and st["rv"].get("ak") == "closure"]
        init_fields = [[expr(it, f) for f in st["rv"]["fields"]] for bb, si, st in it.assigns() if st["rv"]["k"] == "agg" and st["rv"].get("ak") == "closure"]
        writes = sorted("%s := %s" % (resolve_place(itc, st["place"]), expr(itc, st["rv"]["a"]) if st["rv"]["k"] == "use" else st["rv"]["k"])
                        for bb, si, st in itc.assigns() if resolve_place(itc, st["place"]).startswith("(*_1)."))
        idx_calls = [t for bb, t in itc.calls() if call_matches(t, r"ops::Index<I>>::index$")]
        off_reads = [t for t in idx_calls if (arg_place_of(itc, t, 0) or "").endswith(".offsets")]
        rng_reads = [t for t in idx_calls if (arg_place_of(itc, t, 0) or "").endswith(".buffer")]
        ok_w = False
        why_not = "not one read of offsets and one range read of buffer"
        if len(off_reads) == 1 and len(rng_reads) == 1 and len(idx_calls) == 2 and len(init_fields) == 1:
            end_term = "Index::index(%s)" % ", ".join(expr(itc, a) for a in off_reads[0]["args"])
            m_i = re.fullmatch(r"arg1\.(\d+)", expr(itc, off_reads[0]["args"][1]))
            m_r = re.fullmatch(r"Range\{start: arg1\.(\d+), end: (.*)\}", expr(itc, rng_reads[0]["args"][1]))
            if m_i and m_r and m_r.group(2) == end_term and m_i.group(1) != m_r.group(1):
                I, S = m_i.group(1), m_r.group(1)
                good_w = True
                for wtxt in writes:
                    lhs, rhs = wtxt.split(" := ", 1)
                    if lhs == "(*_1).%s" % S:
                        good_w &= rhs == end_term
                    elif lhs == "(*_1).%s" % I:
                        mm = re.fullmatch(r"Add\(arg1\.%s, (\d+)\)" % I, rhs)
                        good_w &= bool(mm) and int(mm.group(1)) > 0
                    else:
                        good_w = False
                fi = init_fields[0]
                starts_zero = int(I) < len(fi) and int(S) < len(fi) and fi[int(I)] == "0" and fi[int(S)] == "0"
                advances = any(w_.startswith("(*_1).%s := " % I) for w_ in writes) and any(w_.startswith("(*_1).%s := " % S) for w_ in writes)
                ok_w = good_w and starts_zero and advances
                why_not = "" if ok_w else "state writes %s / initial state %s" % (writes, fi)
            else:
                why_not = "range read is %s, offsets read is %s" % (expr(itc, rng_reads[0]["args"][1]), end_term)
        if not ok_w:
            # the same walk written with an adaptor: `self.offsets.iter().scan(0, |start, &end| { .. buffer[*start..end] ..; *start = end; .. })`
            #   the items are the offsets in order, the state starts at 0, the one range read is buffer[state .. item], the state is only ever set to the item
            scans = [t for bb, t in it.calls() if call_matches(t, r"^std::iter::Iterator::scan$|as std::iter::Iterator>::scan$")]
            if len(scans) == 1 and len(scans[0]["args"]) == 3:
                a0, a1, a2 = [expr(it, a) for a in scans[0]["args"]]
                over_offsets = bool(re.fullmatch(r"(?:slice::iter|Vec::iter|iter|IntoIterator::into_iter)\((?:Deref::deref\()?arg1\.offsets\)?\)", a0))
                st_writes = sorted("%s := %s" % (resolve_place(itc, st["place"]), expr(itc, st["rv"]["a"]) if st["rv"]["k"] == "use" else st["rv"]["k"])
                                   for bb, si, st in itc.assigns() if resolve_place(itc, st["place"]).startswith("(*_"))
                rng_ok = len(idx_calls) == 1 and len(rng_reads) == 1 and expr(itc, rng_reads[0]["args"][1]) == "Range{start: arg2, end: arg3}"
                ok_w = over_offsets and a1 == "0" and a2.startswith("closure:") and rng_ok and bool(st_writes) and all(w_ == "(*_2) := arg3" for w_ in st_writes)
                writes = st_writes
                init = ["scan(%s, %s, ..)" % (a0, a1)]
                why_not = "" if ok_w else "scan over %s from %s; range read %s; state writes %s" % (a0, a1, [expr(itc, t["args"][1]) for t in rng_reads], st_writes)
        ctx.instance("CHUNKS-INV", {"iter_env_init": init, "closure_state_writes": writes, "ok": ok_w})
        if not ok_w:
            ok_inv = False
            ctx.violation("CHUNKS-INV", itc.path, "iter-shape", "Chunks::iter is not the in-order walk (index, start from 0; chunk = buffer[start..offsets[index]]; start := that offset; index += 1): %s" % why_not, sites=[itc.loc])
    if ok_inv:
        lemmas[("encoder::Chunks::iter::{closure#0}", "RANGEIDX")] = ("CHUNKS-INV", "offsets is non-decreasing and every element <= buffer.len() (CHUNKS-INV), start is the previous offset")
    # ---- SCRATCH-RESET: the SGR parameter buffer kept in the encoder is emptied before each command uses it -----------------------
    ctx.rule("SCRATCH-RESET", "TTYEncoder::encode: every use of the persistent scratch buffer self.chunks (push/mark/write/drain, or handing it to a helper) is dominated by "
                              "self.chunks.clear() in the same call — parameters left behind by a command that failed with an I/O error cannot leak into the next one", floor=4)
    # helpers of encode that were extracted from it (private, called from encode only) are looked through: the body with them expanded in place
    enc = prog.inlined(ENC) if prog.body(ENC) is not None else None
    if enc is None:
        ctx.anchor("SCRATCH-RESET", "TTYEncoder::encode")
    else:
        ecfg = enc.cfg()
        uses, clears = [], []
        for bb, t in enc.calls():
            if bb not in ecfg.reach:
                continue
            for i, a in enumerate(t["args"]):
                if a.get("k") not in ("copy", "move"):
                    continue
                ap = arg_place_of(enc, t, i) or ""
                if ap == "(*_1).chunks" or ap.startswith("(*_1).chunks."):
                    if ap == "(*_1).chunks" and call_matches(t, r"^encoder::Chunks::clear$"):
                        clears.append(bb)
                    elif call_matches(t, r"^encoder::Chunks::is_empty$|^std::vec::Vec::<T, A>::(is_empty|len|capacity)$"):
                        pass          # reads that emit nothing
                    else:
                        uses.append((bb, t))
        for bb, t in uses:
            ok = any(ecfg.dominates(c, bb) and c != bb for c in clears)
            ctx.instance("SCRATCH-RESET", {"use": (callee_name(t) or "").split("::")[-1], "line": t["line"], "dominated_by_clear": ok})
            if not ok:
                ctx.violation("SCRATCH-RESET", ENC, "use-without-clear", "self.chunks is used by %s without a preceding self.chunks.clear() in this call: SGR parameters left in the buffer by an "
                              "earlier Face/FaceModify that failed on I/O would be emitted in front of this command's parameters" % (callee_name(t) or "?"), sites=["%s:%d" % (enc.file, t["line"])])
        if not uses:
            ctx.anchor("SCRATCH-RESET", "chunks-uses")
    # ---- FINITE-COLOR: partial_cmp(..).unwrap() in `nearest` ---------------------------------------------------------
    ctx.rule("FINITE-COLOR", "nearest() is only called by color_sgr_encode, which is only instantiated with rasterize::RGBA (8-bit channels: finite linear components)", floor=2)
    ok_fin = True
    n_calls = 0
    cgr = prog.callgraph()

    def only_from_color_sgr_encode(path, depth=0):
        """`path` is color_sgr_encode, or a private non-generic helper of src/encoder.rs all of whose callers are (a helper extracted from
        color_sgr_encode receives the same finite values)"""
        b_ = prog.body(path)
        root = (b_.closure_root or b_.path) if b_ is not None else path
        if root == "encoder::color_sgr_encode":
            return True
        rb = prog.body(root)
        if depth > 3 or rb is None or rb.kind not in ("Fn", "AssocFn") or rb.impl_trait or not rb.file.endswith("encoder.rs") or (rb.j.get("vis") or "").startswith("Public"):
            return False
        cs = [c for c in cgr.callers(root) if (prog.body(c).closure_root if prog.body(c) is not None else None) != root and c != root]
        return bool(cs) and all(only_from_color_sgr_encode(c, depth + 1) for c in cs)
    for b in prog.bodies:
        for bb, t in b.calls():
            if call_matches(t, r"^encoder::nearest$"):
                n_calls += 1
                good = only_from_color_sgr_encode(b.path)
                ctx.instance("FINITE-COLOR", {"nearest_called_from": b.path, "ok": good})
                ok_fin &= good
            if call_matches(t, r"^encoder::color_sgr_encode$"):
                n_calls += 1
                good = t["fn"].get("generics") == ["rasterize::RGBA"]
                ctx.instance("FINITE-COLOR", {"color_sgr_encode_called_from": b.path, "generics": t["fn"].get("generics"), "ok": good})
                ok_fin &= good
    if ok_fin and n_calls:
        lemmas[("encoder::nearest::{closure#0}", "UNWRAP")] = ("FINITE-COLOR", "f32::partial_cmp is None only for NaN; table entries are finite literals and the probe derives from u8 channels")
        ctx.trust("FINITE-COLOR", "rasterize's LinColor::from(RGBA) yields finite components (sRGB transfer function on 8-bit channels)")
    elif n_calls:
        ctx.violation("FINITE-COLOR", "encoder::nearest", "callers", "nearest()/color_sgr_encode is used with a colour type whose components may be NaN: partial_cmp(..).unwrap() can panic", sites=[])
    nearest_range_lemmas(ctx, lemmas)
    in_scope = lambda b: b.file.endswith(("encoder.rs", "terminal.rs", "face.rs"))
    for k_, v_ in debug_only_lemmas(prog, in_scope).items():
        lemmas.setdefault(k_, v_)
    oblrules.run(ctx, "TOTAL", [ENC], lossy=False, lemmas=lemmas, floor_bodies=4,
                 scope=in_scope,
                 desc="encoding never panics: no reachable overflow/negation/bounds/unwrap failure from TTYEncoder::encode")
