"""C14 mutants: breaking edits that still compile (must be reported by the named rule) and benign
edits (must stay silent).  Based on /repo after the short-read repair (db96ff4): python3 selftest/run.py C14
edits: (file, old text occurring exactly once, new text)."""

I16 = " " * 16
I12 = " " * 12

WRITE_BLOCK = (
    I16 + "let [s0, s1, s2] = self.buffer;\n"
    + I16 + "let mut dst = [b'='; 4];\n"
    + I16 + "dst[0] = BASE64_ENCODE[(s0 >> 2) as usize];\n"
    + I16 + "dst[1] = BASE64_ENCODE[(((s0 << 4) | (s1 >> 4)) & 0x3f) as usize];\n"
    + I16 + "dst[2] = BASE64_ENCODE[(((s1 << 2) | (s2 >> 6)) & 0x3f) as usize];\n"
    + I16 + "dst[3] = BASE64_ENCODE[(s2 & 0x3f) as usize];\n"
)

DEC4_BODY = (
    "        let [i0, i1, i2, i3] = chunk;\n"
    "        let o0 = BASE64_DECODE[i0 as usize];\n"
    "        let o1 = BASE64_DECODE[i1 as usize];\n"
    "        let o2 = BASE64_DECODE[i2 as usize];\n"
    "        let o3 = BASE64_DECODE[i3 as usize];\n"
    "        let b0 = (o0 << 2) | (o1 >> 4);\n"
    "        let b1 = (o1 << 4) | (o2 >> 2);\n"
    "        let b2 = (o2 << 6) | o3;\n"
    "        [b0, b1, b2]\n"
)

# current text of buffer_fill (after the repair db96ff4 in /repo)
READ_NOW = (
    "            // the inner reader may return fewer bytes than requested: keep reading\n"
    "            // until a full quantum is collected or the end of input is reached\n"
    "            let mut filled = 0;\n"
    "            while filled < input.len() {\n"
    "                let size = self.read.read(&mut input[filled..])?;\n"
    "                if size == 0 {\n"
    "                    break;\n"
    "                }\n"
    "                filled += size;\n"
    "            }\n"
    "            if filled == 0 {\n"
    "                break;\n"
    "            } else if filled != 4 {\n"
)
# the original defect: one read, any count other than 0/4 is an error
READ_ORIG = (
    "            let size = self.read.read(&mut input)?;\n"
    "            if size == 0 {\n"
    "                break;\n"
    "            } else if size != 4 {\n"
)
READ_FIXED = (
    "            let mut filled = 0;\n"
    "            while filled < 4 {\n"
    "                let size = self.read.read(&mut input[filled..])?;\n"
    "                if size == 0 {\n"
    "                    break;\n"
    "                }\n"
    "                filled += size;\n"
    "            }\n"
    "            if filled == 0 {\n"
    "                break;\n"
    "            } else if filled != 4 {\n"
)
# accumulates but reads only once more instead of looping: still fails for 1-byte readers
READ_HALF_FIXED = READ_FIXED.replace("while filled < 4 {", "if filled < 4 {").replace(
    "                if size == 0 {\n                    break;\n                }\n", "")
# `match` form of the repair
READ_FIXED_MATCH = (
    "            let mut filled = 0;\n"
    "            while filled < input.len() {\n"
    "                match self.read.read(&mut input[filled..])? {\n"
    "                    0 => break,\n"
    "                    n => filled += n,\n"
    "                }\n"
    "            }\n"
    "            if filled == 0 {\n"
    "                break;\n"
    "            } else if filled < 4 {\n"
)

LEN_ERR = (
    "return Err(std::io::Error::other(Error::ParseError(\n"
    "                    \"Base64Decoder\",\n"
    "                    \"input length is not dividable by 4\".to_owned(),\n"
    "                )));"
)

COPY = (
    "            let size = buffer.len().min(out.len() - out_offset);\n"
    "            out[out_offset..out_offset + size].copy_from_slice(&buffer[..size]);\n"
    "            out_offset += size;\n"
    "            self.buffer_offset += size;\n"
)

MUTANTS = [
    # ---------------- (a) tables ----------------
    {"id": "C14-alphabet-swap", "prop": "C14", "expect": "ALPHABET",
     "edits": [("src/encoder.rs", 'b"ABCDEFGHIJKLMNOPQRSTUVWXYZabc', 'b"ABCDEFGHIJKLMNOPQRSTUVWXYZbac')]},
    {"id": "C14-alphabet-url-safe", "prop": "C14", "expect": "ALPHABET",
     "edits": [("src/encoder.rs", '0123456789+/";', '0123456789-_";')]},
    {"id": "C14-decode-entry", "prop": "C14", "expect": "DECODE-INVERSE",
     "edits": [("src/decoder.rs", "\\x01\\x02\\x03\\x04", "\\x01\\x02\\x02\\x04")]},
    {"id": "C14-decode-pad-nonzero", "prop": "C14", "expect": "DECODE-INVERSE/BASE64_DECODE/pad",
     "edits": [("src/decoder.rs", "?456789:;<=\\x00\\x00\\x00\\x00", "?456789:;<=\\x00\\x00\\x00\\x01")]},
    # ---------------- (b) bit regrouping ----------------
    {"id": "C14-enc-write-shift-4-not-6", "prop": "C14", "expect": "ENC-BITS",
     "edits": [("src/encoder.rs", "\n" + I16 + "dst[2] = BASE64_ENCODE[(((s1 << 2) | (s2 >> 6)) & 0x3f) as usize];",
                "\n" + I16 + "dst[2] = BASE64_ENCODE[(((s1 << 2) | (s2 >> 4)) & 0x3f) as usize];")]},
    {"id": "C14-enc-write-shift-drops-bit", "prop": "C14", "expect": "ENC-BITS/encoder::Base64Encoder::write/write-full:char1",
     "edits": [("src/encoder.rs", "usize];\n" + I16 + "dst[1] = BASE64_ENCODE[(((s0 << 4) | (s1 >> 4)) & 0x3f) as usize];\n" + I16 + "dst[2]",
                "usize];\n" + I16 + "dst[1] = BASE64_ENCODE[(((s0 << 4) | (s1 >> 5)) & 0x3f) as usize];\n" + I16 + "dst[2]")]},
    {"id": "C14-enc-finish-wrong-mask", "prop": "C14", "expect": "ENC-BITS/encoder::Base64Encoder::finish/finish-1:char1",
     "edits": [("src/encoder.rs", "dst[1] = BASE64_ENCODE[((s0 << 4) & 0x3f) as usize];", "dst[1] = BASE64_ENCODE[((s0 << 4) & 0x1f) as usize];")]},
    {"id": "C14-enc-finish-2-shift", "prop": "C14", "expect": "ENC-BITS/encoder::Base64Encoder::finish/finish-2:char2",
     "edits": [("src/encoder.rs", "dst[2] = BASE64_ENCODE[((s1 << 2) & 0x3f) as usize];", "dst[2] = BASE64_ENCODE[((s1 << 4) & 0x3f) as usize];")]},
    {"id": "C14-enc-write-wrong-octet", "prop": "C14", "expect": "ENC-BITS",
     "edits": [("src/encoder.rs", "let [s0, s1, s2] = self.buffer;", "let [s1, s0, s2] = self.buffer;")]},
    {"id": "C14-dec-shift-4-not-6", "prop": "C14", "expect": "DEC-BITS",
     "edits": [("src/decoder.rs", "let b2 = (o2 << 6) | o3;", "let b2 = (o2 << 4) | o3;")]},
    {"id": "C14-dec-shift-drops-bit", "prop": "C14", "expect": "DEC-BITS/decoder::Base64Decoder::decode_u8x4/byte0",
     "edits": [("src/decoder.rs", "let b0 = (o0 << 2) | (o1 >> 4);", "let b0 = (o0 << 2) | (o1 >> 5);")]},
    {"id": "C14-dec-wrong-sextet", "prop": "C14", "expect": "DEC-BITS",
     "edits": [("src/decoder.rs", "let o2 = BASE64_DECODE[i2 as usize];", "let o2 = BASE64_DECODE[i3 as usize];"),
               ("src/decoder.rs", "let o3 = BASE64_DECODE[i3 as usize];", "let o3 = BASE64_DECODE[i2 as usize];")]},
    # ---------------- padding ----------------
    {"id": "C14-finish-one-pad-for-one-octet", "prop": "C14", "expect": "ENC-PAD",
     "edits": [("src/encoder.rs", "dst[1] = BASE64_ENCODE[((s0 << 4) & 0x3f) as usize];",
                "dst[1] = BASE64_ENCODE[((s0 << 4) & 0x3f) as usize];\n                dst[2] = BASE64_ENCODE[0];")]},
    {"id": "C14-finish-pad-char", "prop": "C14", "expect": "ENC-PAD",
     "edits": [("src/encoder.rs", "        let mut dst = [b'='; 4];\n        let mut iter", "        let mut dst = [b'-'; 4];\n        let mut iter")]},
    {"id": "C14-decode-size-swapped", "prop": "C14", "expect": "PAD-AGREE",
     "edits": [("src/decoder.rs", "            1\n        } else if i3 == b'=' {\n            2\n", "            2\n        } else if i3 == b'=' {\n            1\n")]},
    {"id": "C14-finish-empty-emits-padding", "prop": "C14", "expect": "ENC-PAD",
     "edits": [("src/encoder.rs", "            inner.write_all(&dst)?;\n        }\n        Ok(inner)", "        }\n        inner.write_all(&dst)?;\n        Ok(inner)")]},
    # ---------------- (c) streaming state ----------------
    {"id": "C14-no-carry-reset", "prop": "C14", "expect": "CARRY",
     "edits": [("src/encoder.rs", I16 + "self.size = 0;\n", "")]},
    {"id": "C14-carry-reset-every-byte", "prop": "C14", "expect": "CARRY",
     "edits": [("src/encoder.rs", I16 + "self.size = 0;\n            }\n", "            }\n            self.size %= 3;\n            self.size = 0;\n")]},
    {"id": "C14-write-returns-zero", "prop": "C14", "expect": "CARRY/<encoder::Base64Encoder<W>asstd::io::Write>::write/ok-value",
     "edits": [("src/encoder.rs", "        Ok(buf.len())\n    }\n\n    fn flush(&mut self) -> std::io::Result<()> {\n        self.inner.flush()", "        Ok(buf.len().min(3))\n    }\n\n    fn flush(&mut self) -> std::io::Result<()> {\n        self.inner.flush()")]},
    {"id": "C14-copy-buf-len-not-min", "prop": "C14", "expect": "READ-MIN",
     "edits": [("src/decoder.rs", "let size = buffer.len().min(out.len() - out_offset);", "let size = buffer.len();")]},
    {"id": "C14-offset-not-advanced-by-size", "prop": "C14", "expect": "READ-MIN",
     "edits": [("src/decoder.rs", "            self.buffer_offset += size;\n", "            self.buffer_offset += buffer.len();\n")]},
    {"id": "C14-fill-size-plus-3", "prop": "C14", "expect": "DEC-USE",
     "edits": [("src/decoder.rs", "            self.buffer_size += out_size;\n", "            self.buffer_size += 3;\n")]},
    # ---------------- (d) short reads ----------------
    {"id": "C14-orig-short-read", "prop": "C14", "expect": "SHORT-READ/decoder::Base64Decoder::<R>::buffer_fill/short-read-is-error",
     "edits": [("src/decoder.rs", READ_NOW, READ_ORIG)]},
    {"id": "C14-orig-short-read-match", "prop": "C14", "expect": "SHORT-READ/decoder::Base64Decoder::<R>::buffer_fill/short-read-is-error",
     "edits": [("src/decoder.rs", READ_NOW + "                " + LEN_ERR + "\n            }\n",
                "            match self.read.read(&mut input)? {\n                0 => break,\n                4 => {}\n                _ => {\n"
                "                    " + LEN_ERR + "\n                }\n            }\n")]},
    {"id": "C14-half-fix-no-retry-loop", "prop": "C14", "expect": "SHORT-READ/decoder::Base64Decoder::<R>::buffer_fill/partial-count-without-retry-loop",
     "edits": [("src/decoder.rs", READ_NOW, READ_HALF_FIXED)]},
    {"id": "C14-retry-loop-stops-at-2", "prop": "C14", "expect": "SHORT-READ/decoder::Base64Decoder::<R>::buffer_fill/partial-count-without-retry-loop",
     "edits": [("src/decoder.rs", "while filled < input.len() {", "while filled < 2 {")]},
    # ---------------- (e) length error ----------------
    {"id": "C14-len-error-unreachable", "prop": "C14", "expect": "LEN-ERROR",
     "edits": [("src/decoder.rs", "} else if filled != 4 {", "} else if filled > 4 {")]},
    {"id": "C14-len-silent-truncate", "prop": "C14", "expect": "LEN-ERROR",
     "edits": [("src/decoder.rs", LEN_ERR, "break;")]},
    {"id": "C14-len-error-on-eof-too", "prop": "C14", "expect": "LEN-ERROR",
     "edits": [("src/decoder.rs", "            if filled == 0 {\n                break;\n            } else if filled != 4 {", "            if filled != 4 {")]},
    {"id": "C14-len-error-only-for-odd", "prop": "C14", "expect": "LEN-ERROR",
     "edits": [("src/decoder.rs", "} else if filled != 4 {", "} else if filled != 4 && filled != 2 {")]},
    {"id": "C14-read-swallows-fill-error", "prop": "C14", "expect": "LEN-ERROR",
     "edits": [("src/decoder.rs", "                self.buffer_fill()?;\n", "                let _ = self.buffer_fill();\n")]},

    # ---------------- benign ----------------
    {"id": "C14-benign-retry-loop-literal-4", "prop": "C14", "benign": True,
     "edits": [("src/decoder.rs", READ_NOW, READ_FIXED)]},
    {"id": "C14-benign-retry-loop-match", "prop": "C14", "benign": True,
     "edits": [("src/decoder.rs", READ_NOW, READ_FIXED_MATCH)]},
    {"id": "C14-benign-rename-encoder-locals", "prop": "C14", "benign": True,
     "edits": [("src/encoder.rs", WRITE_BLOCK,
                WRITE_BLOCK.replace("s0", "first").replace("s1", "second").replace("s2", "third").replace("dst", "quad")),
               ("src/encoder.rs", I16 + "self.inner.write_all(&dst)?;", I16 + "self.inner.write_all(&quad)?;")]},
    {"id": "C14-benign-rename-decoder-locals", "prop": "C14", "benign": True,
     "edits": [("src/decoder.rs", DEC4_BODY,
                DEC4_BODY.replace("o0", "sa").replace("o1", "sb").replace("o2", "sc").replace("o3", "sd").replace("chunk;", "chunk; // quantum"))]},
    {"id": "C14-benign-div-mul-for-shifts", "prop": "C14", "benign": True,
     "edits": [("src/encoder.rs", "\n" + I16 + "dst[0] = BASE64_ENCODE[(s0 >> 2) as usize];", "\n" + I16 + "dst[0] = BASE64_ENCODE[(s0 / 4) as usize];"),
               ("src/encoder.rs", "\n" + I16 + "dst[3] = BASE64_ENCODE[(s2 & 0x3f) as usize];", "\n" + I16 + "dst[3] = BASE64_ENCODE[(s2 % 64) as usize];"),
               ("src/decoder.rs", "let b0 = (o0 << 2) | (o1 >> 4);", "let b0 = (o0 * 4) + (o1 / 16);")]},
    {"id": "C14-benign-reorder-statements", "prop": "C14", "benign": True,
     "edits": [("src/encoder.rs",
                "\n" + I16 + "dst[0] = BASE64_ENCODE[(s0 >> 2) as usize];\n" + I16 + "dst[1] = BASE64_ENCODE[(((s0 << 4) | (s1 >> 4)) & 0x3f) as usize];",
                "\n" + I16 + "dst[1] = BASE64_ENCODE[(((s0 << 4) | (s1 >> 4)) & 0x3f) as usize];\n" + I16 + "dst[0] = BASE64_ENCODE[(s0 >> 2) as usize];"),
               ("src/decoder.rs", "        let o0 = BASE64_DECODE[i0 as usize];\n        let o1 = BASE64_DECODE[i1 as usize];\n",
                "        let o1 = BASE64_DECODE[i1 as usize];\n        let o0 = BASE64_DECODE[i0 as usize];\n"),
               ("src/decoder.rs", "            let out = Self::decode_u8x4(input);\n            let out_size = Self::decode_size(input);\n",
                "            let out_size = Self::decode_size(input);\n            let out = Self::decode_u8x4(input);\n")]},
    {"id": "C14-benign-decode-size-negated", "prop": "C14", "benign": True,
     "edits": [("src/decoder.rs",
                "        if i2 == b'=' {\n            1\n        } else if i3 == b'=' {\n            2\n        } else {\n            3\n        }\n",
                "        if i2 != b'=' && i3 != b'=' {\n            3\n        } else if b'=' != i2 {\n            2\n        } else {\n            1\n        }\n")]},
    {"id": "C14-benign-cmp-min-rename", "prop": "C14", "benign": True,
     "edits": [("src/decoder.rs", COPY,
                COPY.replace("buffer.len().min(out.len() - out_offset)", "std::cmp::min(out.len() - out_offset, buffer.len())").replace("size", "n"))]},
    {"id": "C14-benign-explicit-final-mask", "prop": "C14", "benign": True,
     "edits": [("src/encoder.rs", "\n" + I12 + "dst[0] = BASE64_ENCODE[(s0 >> 2) as usize];", "\n" + I12 + "dst[0] = BASE64_ENCODE[((s0 >> 2) & 0x3f) as usize];")]},
]

MUTANTS += [
    {"id": "C14-inv-fill-guard-plus-2", "prop": "C14", "expect": "TOTAL",
     "edits": [("src/decoder.rs", "while self.buffer_size + 3 <= self.buffer.len() {", "while self.buffer_size + 2 <= self.buffer.len() {")]},
    {"id": "C14-inv-offset-not-reset", "prop": "C14", "expect": "INV-DECODER",
     "edits": [("src/decoder.rs", "            self.buffer_offset = 0;\n            self.buffer_size = 0;", "            self.buffer_size = 0;")]},
    {"id": "C14-inv-carry-reset-late", "prop": "C14", "expect": "",
     "edits": [("src/encoder.rs", "            if self.size == 3 {\n                let [s0, s1, s2] = self.buffer;", "            if self.size == 4 {\n                let [s0, s1, s2] = self.buffer;")]},
]


MUTANTS += [
    {"id": "C14-read-drops-error-after-progress", "prop": "C14", "expect": "LEN-ERROR",
     "edits": [("src/decoder.rs", "                self.buffer_fill()?;\n", "                match self.buffer_fill() {\n                    Err(_) if out_offset > 0 => break,\n                    result => result?,\n                }\n")]},
    {"id": "C14-read-ignores-fill-result", "prop": "C14", "expect": "LEN-ERROR",
     "edits": [("src/decoder.rs", "                self.buffer_fill()?;\n", "                if self.buffer_fill().is_err() {\n                    break;\n                }\n")]},
    {"id": "C14-benign-fill-match-propagate", "prop": "C14", "benign": True,
     "edits": [("src/decoder.rs", "                self.buffer_fill()?;\n", "                match self.buffer_fill() {\n                    Ok(()) => {}\n                    Err(error) => return Err(error),\n                }\n")]},
]
