"""Call graph over crate-local bodies: resolved calls, class-hierarchy analysis for
unresolved trait calls, and mentioned fn items / closures."""
import re
from collections import defaultdict


class CallGraph:
    def __init__(self, prog):
        self.prog = prog
        self.edges = defaultdict(set)      # body path -> set(body path)
        self.static_edges = defaultdict(set)   # body path -> static initialiser bodies it may trigger
        self.cha = defaultdict(set)        # body path -> set(body path) added by class-hierarchy analysis only
        self.ext = defaultdict(set)        # body path -> set(external callee name)
        self.unresolved = defaultdict(set)
        trait_impls = defaultdict(list)    # (trait, method) -> [body]
        for b in prog.bodies:
            if b.impl_trait and b.kind == "AssocFn":
                trait_impls[(b.impl_trait, b.name)].append(b)
        self.trait_impls = trait_impls
        local_paths = set(prog.by_path)
        for b in prog.bodies:
            for bi, blk in enumerate(b.blocks):
                for s in blk["stmts"]:
                    if s["k"] != "assign":
                        continue
                    self._scan_rv(b, s["rv"], local_paths)
                t = blk["term"]
                if t["k"] == "call":
                    for a in t["args"]:
                        self._scan_op(b, a, local_paths)
                    f = t["fn"]
                    if f.get("path") is None:
                        self.unresolved[b.path].add("<indirect>")
                        continue
                    self._add_fn(b, f, local_paths)
                elif t["k"] == "switch":
                    pass

    def _add_fn(self, b, f, local_paths):
        r = f.get("resolved")
        if r is not None:
            if f.get("resolved_local") and r in local_paths:
                self.edges[b.path].add(r)
            elif f.get("resolved_local"):
                # local item without MIR body dumped (e.g. derive/closure shim) – record as external
                self.ext[b.path].add(r)
            else:
                self.ext[b.path].add(r)
            return
        # unresolved: CHA
        tr = f.get("trait")
        name = f["path"].split("::")[-1]
        if tr:
            impls = self.trait_impls.get((tr, name), [])
            for ib in impls:
                self.cha[b.path].add(ib.path)
            # trait default method body (local trait)
            if f.get("local") and f["path"] in local_paths:
                self.edges[b.path].add(f["path"])
            if not impls:
                self.ext[b.path].add(f["path"])
            self.unresolved[b.path].add(f["path"])
        else:
            if f.get("local") and f["path"] in local_paths:
                self.edges[b.path].add(f["path"])
            else:
                self.ext[b.path].add(f["path"])

    def _scan_op(self, b, o, local_paths):
        if o["k"] == "const" and "fn" in o["c"]:
            self._add_fn(b, o["c"]["fn"], local_paths)
        if o["k"] == "const" and o["c"].get("static") in local_paths:
            # mentioning a static may run its (lazy) initialiser
            self.static_edges[b.path].add(o["c"]["static"])

    def _scan_rv(self, b, rv, local_paths):
        k = rv["k"]
        if k == "agg":
            if rv["ak"] == "closure" and rv["def"] in local_paths:
                self.edges[b.path].add(rv["def"])
            for f in rv["fields"]:
                self._scan_op(b, f, local_paths)
        elif k in ("use", "cast", "un", "repeat"):
            self._scan_op(b, rv["a"], local_paths)
        elif k == "bin":
            self._scan_op(b, rv["a"], local_paths)
            self._scan_op(b, rv["b"], local_paths)

    def _mentions(self, path):
        """type names mentioned by a body: local types, call generics/arg types"""
        b = self.prog.body(path)
        if b is None:
            return ""
        key = path
        if key not in self._mention_cache:
            parts = [l["ty"] for l in b.locals]
            for bb, t in b.calls(include_cleanup=True):
                f = t["fn"]
                parts += f.get("generics") or []
                parts += f.get("resolved_generics") or []
            self._mention_cache[key] = " ".join(parts)
        return self._mention_cache[key]

    def reach_split(self, entries):
        """(dynamic, init_only): bodies reachable without entering static initialisers, and bodies reachable only
        through a static (lazy) initialiser — the latter run once on constant data, independent of any input."""
        full = self.reach(entries, statics=True)
        text = " ".join(self._mentions(x) for x in full)
        dyn = self.reach(entries, statics=False, extra_mentions=text)
        return dyn, full - dyn

    def reach(self, entries, rta=True, statics=True, extra_mentions=""):
        """Reachable bodies.  Resolved calls and mentioned fn items/closures are followed always; targets added by
        class-hierarchy analysis (unresolved trait calls on generic/dyn receivers) are followed only if every
        crate-local type named in the impl's self type is mentioned in the types of an already reachable body
        (rapid type analysis, iterated to a fixpoint)."""
        if not hasattr(self, "_mention_cache"):
            self._mention_cache = {}
        local_adts = set(self.prog.adts)
        seen = set()
        pending_cha = set()
        mentioned = [extra_mentions]
        st = [e for e in entries]
        while True:
            while st:
                x = st.pop()
                if x in seen:
                    continue
                seen.add(x)
                mentioned.append(self._mentions(x))
                for y in self.edges.get(x, ()):
                    if y not in seen:
                        st.append(y)
                if statics:
                    for y in self.static_edges.get(x, ()):
                        if y not in seen:
                            st.append(y)
                for y in self.cha.get(x, ()):
                    if y not in seen:
                        pending_cha.add(y)
            if not rta:
                st = [y for y in pending_cha if y not in seen]
                pending_cha = set()
                if not st:
                    break
                continue
            text = " ".join(mentioned)
            progressed = False
            for y in sorted(pending_cha):
                if y in seen:
                    continue
                b = self.prog.body(y)
                st_ty = (b.impl_self or "") if b is not None else ""
                need = [a for a in local_adts if re.search(r"(?<![\w:])%s(?![\w])" % re.escape(a), st_ty)]
                if all(re.search(r"(?<![\w:])%s(?![\w])" % re.escape(a), text) for a in need):
                    st.append(y)
                    progressed = True
            pending_cha = {y for y in pending_cha if y not in seen and y not in st}
            if not progressed:
                break
        return seen

    def callers(self, path):
        return sorted(set(a for a, bs in self.edges.items() if path in bs) | set(a for a, bs in self.cha.items() if path in bs))

    def path_to(self, entries, target):
        prev = {}
        q = list(entries)
        for e in q:
            prev[e] = None
        while q:
            x = q.pop(0)
            if x == target:
                out = []
                while x is not None:
                    out.append(x)
                    x = prev[x]
                return out[::-1]
            for y in sorted(self.edges.get(x, set()) | self.cha.get(x, set()) | self.static_edges.get(x, set())):
                if y not in prev:
                    prev[y] = x
                    q.append(y)
        return None
