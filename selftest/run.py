#!/usr/bin/env python3
"""Self-test of the checkers (not a registered check): applies each mutant / benign edit of
selftest/mutants.py to a scratch copy of /repo (under /tmp, removed afterwards) and runs the
property's check against it.  Breaking mutants must be reported with the expected rule;
benign edits must stay silent.   usage: selftest/run.py [id-regex] [-j N]"""
import json
import os
import re
import shutil
import subprocess
import sys
import tempfile
from concurrent.futures import ThreadPoolExecutor

HERE = os.path.dirname(os.path.abspath(__file__))
VERIF = os.path.dirname(HERE)
sys.path.insert(0, HERE)
import glob
import importlib
MUTANTS = []
for _f in sorted(glob.glob(os.path.join(HERE, 'mutants*.py'))):
    MUTANTS += importlib.import_module(os.path.basename(_f)[:-3]).MUTANTS


def run_one(m):
    d = tempfile.mkdtemp(prefix="snt-mut-")
    try:
        repo = os.path.join(d, "repo")
        shutil.copytree("/repo", repo, ignore=shutil.ignore_patterns("target", ".git"))
        for (f, old, new) in m["edits"]:
            p = os.path.join(repo, f)
            s = open(p).read()
            if s.count(old) != 1:
                return (m["id"], "BAD-MUTANT", "pattern occurs %d times in %s" % (s.count(old), f))
            s = s.replace(old, new)
            open(p, "w").write(s)
        env = dict(os.environ)
        env["VERIF_REPO"] = repo
        env["VERIF_EVIDENCE_DIR"] = os.path.join(d, "evidence")
        r = subprocess.run([os.path.join(VERIF, "check"), m["prop"], "--tier", "quick"], cwd=VERIF, env=env,
                           stdout=subprocess.PIPE, stderr=subprocess.STDOUT, text=True)
        out = r.stdout
        if "facts: mirdump failed" in out:
            return (m["id"], "NO-COMPILE", out[-1500:])
        keys = re.findall(r"^REPORT (\S+)", out, re.M)
        if r.returncode not in (0, 1) or (r.returncode == 1 and not keys and "VIOLATION" not in out):
            # the check itself crashed (traceback, cache race under load): not a verdict; retried once
            if not m.get("_retried"):
                return run_one(dict(m, _retried=True))
            return (m["id"], "ERROR", out[-600:].replace("\n", " | "))
        if m.get("benign"):
            if r.returncode == 0 and not keys:
                return (m["id"], "ok-silent", "")
            return (m["id"], "FALSE-ALARM", " ".join(keys))
        if m.get("known_miss"):
            if r.returncode == 0 and not keys:
                return (m["id"], "ok-known-miss", m["known_miss"])
            return (m["id"], "NOW-CAUGHT", " ".join(keys))
        exp = m.get("expect", "")
        hit = [k for k in keys if exp in k]
        if r.returncode == 1 and hit:
            return (m["id"], "ok-caught", hit[0])
        return (m["id"], "MISSED", "rc=%d keys=%s" % (r.returncode, keys))
    finally:
        shutil.rmtree(d, ignore_errors=True)


def main():
    args = [a for a in sys.argv[1:] if not a.startswith("-")]
    rx = re.compile(args[0]) if args else None
    ms = [m for m in MUTANTS if rx is None or rx.search(m["id"])]
    jobs = int(os.environ.get("SELFTEST_JOBS", "4"))
    bad = 0
    with ThreadPoolExecutor(max_workers=jobs) as ex:
        for (mid, status, info) in ex.map(run_one, ms):
            print("%-34s %-12s %s" % (mid, status, info[:160]))
            if not status.startswith("ok"):
                bad += 1
    print("%d mutants, %d not as expected" % (len(ms), bad))
    return 1 if bad else 0


if __name__ == "__main__":
    sys.exit(main())
