"""Rule context: instances, floors, violations, known findings, evidence."""
import json
import os
import re
import time

VERIF = os.path.dirname(os.path.dirname(os.path.abspath(__file__)))
KNOWN = os.path.join(VERIF, "known_findings.txt")


class Violation:
    def __init__(self, prop, rule, key, msg, sites, detail):
        self.prop = prop
        self.rule = rule
        self.key = key
        self.msg = msg
        self.sites = sites
        self.detail = detail


def load_known():
    """known_findings.txt lines:
         finding: property=<id> key=<exact key> :: <what fails, with the failing input>
         fixed: property=<id> <commit> <what failed>          (suppresses nothing)
    """
    findings = {}
    fixed = []
    lines = []
    if os.path.exists(KNOWN):
        lines += list(open(KNOWN))
    extra = os.environ.get("VERIF_KNOWN_EXTRA")
    if extra and os.path.exists(extra):
        lines += list(open(extra))
    if lines:
        for ln in lines:
            ln = ln.strip()
            if not ln or ln.startswith("#"):
                continue
            m = re.match(r"finding: property=(\S+) key=(\S+) :: (.*)$", ln)
            if m:
                findings[(m.group(1), m.group(2))] = m.group(3)
                continue
            m = re.match(r"fixed: property=(\S+) (\S+) (.*)$", ln)
            if m:
                fixed.append((m.group(1), m.group(2), m.group(3)))
                continue
            raise SystemExit("known_findings.txt: unparsable line: " + ln)
    return findings, fixed


class Ctx:
    def __init__(self, prop, tier, prog, src, facts_info):
        self.prop = prop
        self.tier = tier
        self.prog = prog
        self.src = src
        self.facts_info = facts_info
        self.violations = []
        self.notes = []
        self.rules = {}          # rule -> {"instances": n, "floor": n, "nontrivial": n, "desc": str}
        self.samples = []
        self.obligations = 0
        self.discharged = 0
        self.discharge_classes = {}
        self.trusted = []
        self.assumptions = []
        self.explanation = ""
        self.extra = {}
        self.t0 = time.time()
        self.exhaustive = None

    # ---- bookkeeping -------------------------------------------------------------------------
    def rule(self, name, desc, floor=0):
        r = self.rules.setdefault(name, {"instances": 0, "floor": floor, "nontrivial": 0, "desc": desc, "violations": 0})
        r["floor"] = floor
        r["desc"] = desc
        return r

    def instance(self, rule, sample=None, nontrivial=True):
        r = self.rules[rule]
        r["instances"] += 1
        if nontrivial:
            r["nontrivial"] += 1
        if sample is not None and len([s for s in self.samples if s.get("rule") == rule]) < 6:
            s = {"rule": rule}
            if isinstance(sample, dict):
                s.update(sample)
            else:
                s["case"] = sample
            self.samples.append(s)

    def oblig(self, discharged, cls=None):
        self.obligations += 1
        if discharged:
            self.discharged += 1
        if cls:
            self.discharge_classes[cls] = self.discharge_classes.get(cls, 0) + 1

    def trust(self, name, reason):
        s = "%s: %s" % (name, reason)
        if s not in self.trusted:
            self.trusted.append(s)

    def assume(self, text):
        if text not in self.assumptions:
            self.assumptions.append(text)

    def note(self, text):
        self.notes.append(text)

    def violation(self, rule, where, shape, msg, sites=(), detail=None):
        """key = <prop>/<rule>/<where>/<shape> – no line numbers in keys; sites carry file:line"""
        key = "%s/%s/%s/%s" % (self.prop, rule, where, shape)
        key = re.sub(r"\s+", "", key)
        for v in self.violations:
            if v.key == key:
                v.sites = list(v.sites) + [s for s in sites if s not in v.sites]
                return v
        v = Violation(self.prop, rule, key, msg, list(sites), detail or {})
        self.violations.append(v)
        if rule in self.rules:
            self.rules[rule]["violations"] += 1
        return v

    def anchor(self, rule, what, msg=None):
        """fail closed: an anchor the rule needs was not found / not understood"""
        return self.violation(rule, "ANCHOR", what, msg or ("anchor not found or not understood: " + what))

    def check_floors(self):
        for name, r in self.rules.items():
            if r["instances"] < r["floor"]:
                self.violation(name, "ANCHOR", "floor",
                               "rule %s matched %d instances, floor is %d (counted by hand on the pinned tree)" % (name, r["instances"], r["floor"]))

    # ---- evidence ----------------------------------------------------------------------------
    def evidence(self, unknown, known_hit):
        ev_n = sum(r["instances"] for r in self.rules.values())
        nt = sum(r["nontrivial"] for r in self.rules.values())
        cov = {
            "explanation": self.explanation,
            "evaluations": ev_n,
            "distinct_nontrivial": nt,
            "rule": "one evaluation = one rule instance (call site, table row, CFG path set, obligation) decided from the "
                    "facts of the current tree; non-trivial = the decision needed a dataflow/CFG/automaton/table computation "
                    "rather than a presence test; instances are distinct by construction (keyed by function and site shape)",
            "samples": self.samples[:40] if self.samples else [{"note": "no instances"}],
            "rules": {k: {"instances": v["instances"], "floor": v["floor"], "violations": v["violations"], "what": v["desc"]} for k, v in self.rules.items()},
            "bodies_in_crate": len(self.prog.bodies),
            "facts": self.facts_info,
            "checker_cmd": "./check %s --tier %s" % (self.prop, self.tier),
            "trusted_base": self.trusted,
            "notes": self.notes[:60],
            "known_findings_reported": [k for k in known_hit],
            "unlisted_violations": [v.key for v in unknown],
        }
        if self.obligations:
            cov["obligations"] = self.obligations
            cov["discharged"] = self.discharged
            cov["discharge_classes"] = self.discharge_classes
        if self.exhaustive is not None:
            if isinstance(self.exhaustive, bool):
                cov["exhaustive"] = self.exhaustive
            else:
                cov["exhaustive"] = False
                cov["exhaustive_parts"] = self.exhaustive
        cov.update({k: v for k, v in self.extra.items() if k not in ("exhaustive",)})
        seed = os.environ.get("VERIF_SEED", "0")
        try:
            seed = int(seed)
        except ValueError:
            seed = 0
        return {
            "property_id": self.prop,
            "tier": self.tier,
            "seed": seed,
            "level": "other",
            "coverage": cov,
            "assumptions": self.assumptions,
            "wall_s": round(time.time() - self.t0, 3),
            "violations": len(unknown),
        }
