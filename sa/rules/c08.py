"""C08 — range selectors resolve with Python slice semantics: structural/numeric clauses
POST 0 <= start < end <= size, no overflow / lossy conversion, i64-width sibling rule."""
import re
from ..mir import call_matches, callee_name, op_local, op_const_int
from ..flow import origins
from ..absint import V, INF
from ..discharge import Engine
from .. import oblrules
from ..obligations import ty_range

SIZE_MAX = (1 << 63) - 1

CLAIM = {
    "text": "For all 61 ViewBounds impls and range_bounds, decided by abstract interpretation of MIR (symbolically in the axis length): every "
            "returned window satisfies 0 <= start < end <= size; no overflow, division by zero or lossy integer conversion is reachable "
            "(selectors beyond i64 must saturate); no impl computes in a type narrower than 64 bits. That the window equals Python's "
            "for every selector value is not decided.",
    "technique": "abstract interpretation over MIR (intervals + difference/sum bounds), postcondition check at return sites, sibling width rule",
    "design_ref": "DESIGN.md §5 C08",
}


def impls(prog):
    return [b for b in prog.bodies if b.name == "view_bounds" and b.impl_trait == "surface::ViewBounds"]


def run(ctx):
    prog = ctx.prog
    ctx.explanation = (
        "Decides from MIR, for all 61 ViewBounds impls (10 integer index impls, 50 range impls, RangeFull) and range_bounds: (a) POST: every "
        "`Some((start, end))` returned satisfies 0 <= start < end <= size, proven symbolically in `size` by abstract interpretation (range impls "
        "inherit it by delegating to range_bounds with the size argument passed through); (b) no reachable overflow, division by zero or lossy "
        "integer conversion on the way (selector values beyond i64 must saturate, not wrap); (c) sibling width rule: no impl performs bound "
        "arithmetic in a type narrower than 64 bits. NOT decided: that the selected window equals Python's for every value (value-level; only "
        "the invariant, totality and width of the computation are decided).")
    ctx.assume("axis lengths are lengths of Vec-backed surfaces: size <= isize::MAX (used to discharge `size as i64`)")
    bodies = impls(prog)
    rb = prog.one(r"^surface::range_bounds$")
    ctx.rule("IMPLS", "ViewBounds impls present (10 index + 50 range + RangeFull) and range_bounds", floor=62)
    for b in bodies:
        ctx.instance("IMPLS", {"impl": b.impl_self}, nontrivial=False)
    if rb is not None:
        ctx.instance("IMPLS", {"fn": rb.path}, nontrivial=False)
    else:
        ctx.anchor("IMPLS", "surface::range_bounds")
        return

    # ---------- (b) obligations ---------------------------------------------------------------------
    entries = [b.path for b in bodies] + [rb.path]
    ef = {b.path: {2: {"itv": (0, SIZE_MAX)}} for b in bodies}
    ef[rb.path] = {2: {"itv": (0, SIZE_MAX)}}
    clamp = prog.one(r"^common::clamp$")
    outs, dyn, init = oblrules.run(ctx, "TOTAL", entries, lossy=True, entry_facts=ef, floor_bodies=10,
                                   desc="no overflow / div-by-zero / lossy integer conversion reachable from any view_bounds impl")

    # ---------- (a) POST -------------------------------------------------------------------------------
    ctx.rule("POST", "every Some((start,end)) satisfies 0 <= start < end <= size (direct impls + range_bounds); range impls delegate with size passed through", floor=61)
    eng = Engine(prog)
    direct = [b for b in bodies if not any(call_matches(t, r"^surface::range_bounds$") for bb, t in b.calls())] + [rb]
    for b in direct:
        an = eng.analyze(b.path, ef[b.path])
        n_some = 0
        for bb, blk in enumerate(b.blocks):
            for si, s in enumerate(blk["stmts"]):
                if s["k"] != "assign" or s["place"]["l"] != 0 or s["place"]["p"]:
                    continue
                rv = s["rv"]
                if rv["k"] != "agg" or rv.get("variant") != "Some":
                    continue
                n_some += 1
                st = an.in_states.get(bb)
                if st is None:
                    ctx.instance("POST", {"fn": b.path, "site": "%s:%d" % (b.file, s["line"]), "unreachable": True})
                    continue
                st = st.copy()
                for sj, s2 in enumerate(blk["stmts"][:si]):
                    if s2["k"] == "assign":
                        an.do_assign(st, s2, bb, sj)
                tk = an.pkey(st, rv["fields"][0]["place"]) if rv["fields"][0]["k"] != "const" else None
                sv = st.vals.get(tk + ".0") if tk else None
                evv = st.vals.get(tk + ".1") if tk else None
                size_t = ("s", "a2", 0)
                ts, te = st.term(sv) if sv else None, st.term(evv) if evv else None
                ok0 = ts is not None and st.le(("c", 0), ts)
                ok1 = ts is not None and te is not None and st.le(ts, te, True)
                ok2 = te is not None and st.le(te, size_t)
                ctx.instance("POST", {"fn": b.path, "site": "%s:%d" % (b.file, s["line"]), "0<=start": ok0, "start<end": ok1, "end<=size": ok2,
                                      "start": str(st.itv(sv)) if sv else None, "end": str(st.itv(evv)) if evv else None})
                ctx.oblig(ok0 and ok1 and ok2, "POST")
                if not (ok0 and ok1 and ok2):
                    miss = [n for n, o in (("0<=start", ok0), ("start<end", ok1), ("end<=size", ok2)) if not o]
                    ctx.violation("POST", b.path, "some-%d" % n_some, "returned window is not provably within 0 <= start < end <= size (%s)" % ", ".join(miss),
                                  sites=["%s:%d" % (b.file, s["line"])])
        if n_some == 0:
            ctx.anchor("POST", b.path + "/no-Some-return")
    for b in bodies:
        if b in direct:
            continue
        # delegation: _0 is the result of range_bounds(_, size) with size = own argument 2
        calls = [(bb, t) for bb, t in b.calls() if call_matches(t, r"^surface::range_bounds$")]
        ok = False
        if len(calls) == 1:
            bb, t = calls[0]
            ok = t["dest"]["l"] == 0 and not t["dest"]["p"] and origins(b, t["args"][1]) == {("arg", 2)}
        ctx.instance("POST", {"impl": b.impl_self, "delegates_to_range_bounds_with_size": ok})
        if not ok:
            ctx.violation("POST", b.path, "delegation", "range impl does not return range_bounds(_, size) unchanged with its own size argument", sites=[b.loc])

    # ---------- (a') delegation keeps the selector's kind and bounds ------------------------------------
    ctx.rule("DELEGATE-KIND", "range impls forward a range of their own kind whose bounds are only converted (no arithmetic): resolution happens in range_bounds alone", floor=51)
    CONV = r"(?:surface::index_i64\(%s\)|\(%s as i64\)|i64::from\(%s\)|%s)"

    def conv(x):
        return CONV % ((re.escape(x),) * 4)
    for b in bodies:
        if b in direct:
            continue
        calls = [(bb, t) for bb, t in b.calls() if call_matches(t, r"^surface::range_bounds$")]
        if len(calls) != 1:
            continue
        from ..flow import expr as _expr
        e = _expr(b, calls[0][1]["args"][0])
        kind = re.sub(r"<.*$", "", b.impl_self).split("::")[-1]
        tmpl = {
            "RangeFull": r"^arg1$",
            "Range": r"^Range\{start: %s, end: %s\}$" % (conv("arg1.start"), conv("arg1.end")),
            "RangeFrom": r"^RangeFrom\{start: %s\}$" % conv("arg1.start"),
            "RangeTo": r"^RangeTo\{end: %s\}$" % conv("arg1.end"),
            "RangeInclusive": r"^RangeInclusive::new\(%s, %s\)$" % (conv("RangeInclusive::start(arg1)"), conv("RangeInclusive::end(arg1)")),
            "RangeToInclusive": r"^RangeToInclusive\{end: %s\}$" % conv("arg1.end"),
        }.get(kind)
        ok = tmpl is not None and re.match(tmpl, e) is not None
        ctx.instance("DELEGATE-KIND", {"impl": b.impl_self, "forwards": e[:140], "ok": ok})
        if not ok:
            ctx.violation("DELEGATE-KIND", b.path, "forwarded-selector",
                          "%s does not forward a %s with converted bounds to range_bounds (got %s): bound arithmetic outside range_bounds makes this selector form resolve differently from its siblings" % (b.impl_self, kind, e[:160]),
                          sites=[b.loc])

    # ---------- (c) width -------------------------------------------------------------------------------
    ctx.rule("WIDTH", "no arithmetic in a type narrower than 64 bits inside any view_bounds impl / range_bounds", floor=61)
    for b in bodies + [rb] + prog.closures_of(rb):
        bad = []
        for i, si, s in b.assigns():
            rv = s["rv"]
            if rv["k"] == "bin" and re.match(r"(Add|Sub|Mul|Div|Rem|Shl|Shr)", rv["op"]):
                for o in (rv["a"], rv["b"]):
                    ty = o["c"]["ty"] if o["k"] == "const" else b.local_ty(o["place"]["l"]) if not o["place"]["p"] else None
                    if ty in ("i8", "i16", "i32", "u8", "u16", "u32"):
                        bad.append((s["line"], rv["op"], ty))
            if rv["k"] == "un" and rv["op"] == "Neg":
                o = rv["a"]
                ty = o["c"]["ty"] if o["k"] == "const" else b.local_ty(o["place"]["l"])
                if ty in ("i8", "i16", "i32"):
                    bad.append((s["line"], "Neg", ty))
        ctx.instance("WIDTH", {"fn": b.path, "narrow_ops": len(bad)})
        if bad:
            ctx.violation("WIDTH", b.path, "narrow-arithmetic",
                          "bound arithmetic is performed in %s (%s): selectors and axis lengths that do not fit wrap or resolve differently from the 64-bit siblings" % (bad[0][2], bad[0][1]),
                          sites=["%s:%d" % (b.file, bad[0][0])])
    ctx.exhaustive = True
