"""C06 — the library reads back its own SGR output; FaceModify::apply / FaceAttrs follow SGR semantics.

All facts come from src.json trees.  Nothing of the repository is run: `Ev` (below) gives the *source expressions* of
`TTYEncoder::encode` / `color_sgr_encode` / `Chunks` (src/encoder.rs), `sgr_face` / `sgr_color` / `number_decode` (src/decoder.rs) and
`FaceAttrs` / `FaceModify::apply` (src/face.rs) their value on every input of a finite domain (every face change a FaceModify can
express, every Face attribute, pairs of them, all 8-bit attribute states ..), so the rules decide on what is written and read back,
not on the statements, helpers or idioms used to get there.
"""
import json
import os
import re

from ..src import find_all
from .. import consteval
from ..consteval import Interp, Frame, Unsupported, StructV, EnumV, ClosureV, NONE, some, copyv, freeze
from .. import templates as Tm
from .. import grammar, regex

ENC = "src/encoder.rs"
DEC = "src/decoder.rs"
FACE = "src/face.rs"
REFS = os.path.join(os.path.dirname(os.path.dirname(os.path.abspath(__file__))), "refs", "xterm256.json")


CLAIM = {
    "text": "Decides, by giving the source expressions of the current tree their value on finite domains: every face change a FaceModify can express (reset, "
            "bold/italic/blink/strike on and off, six underline styles, the three colour roles) and every Face attribute is written by TTYEncoder::encode in "
            "true-colour mode as one ESC[ ; m sequence that the decoder's sgr_face/sgr_color read back as the same field and value - alone, with reset first, in pairs "
            "(a true-colour triple is read back unchanged also when another parameter follows it; the parameters of a combined change are those of its parts joined by ;) "
            "and all at once; on two consecutive parameters the later overrides and a reset discards; a component above 255 yields no colour; the matcher hands "
            "sgr_face exactly the parameter bytes; FaceModify::apply moves "
            "exactly the flag named like the updated field (injective, complete, Some(true) sets / Some(false) clears), and apply - evaluated on all 192 valid attribute states x 2 colour states for "
            "every single-field modification and all set/clear combinations of the four flags - sets or clears exactly that attribute and "
            "reset yields the default face; (APPLY-PRODUCT, 14 instances = reset{0,1} x underline{None, 6 styles}, each 4 colour x 81 flag-update combinations x 4 incoming "
            "faces) apply equals the SGR reference - reset to the default face first, then colours replaced when Some, the underline style replaced when Some keeping the "
            "flags of the possibly reset face, each flag set/cleared independently - on EVERY combination of the fields one modification can carry (one ESC[..m is decoded into "
            "one FaceModify; the library's own Face output is always reset + the rest), on the default face, the all-flags + style + colours face and two complementary "
            "partial faces; every XAssign operator of FaceAttrs equals `*self = *self X rhs` on all 256x256 raw values; "
            "pack/unpack/underline/From and the bit constants realise the 3-bit-style + flags<<3 layout on all 8-bit values; Char(c) is written verbatim and "
            "(UTF8-LANG, 28 instances: 9 RFC 3629 ABNF rows x 3 decoders + the command automaton) the UTF-8 grammar as built for TTYCommandDecoder, Utf8Decoder "
            "and TTYEventDecoder accepts the encoding of every Unicode scalar value that decoder must read back (command decoder: all but ESC, also accepted by "
            "the whole command automaton; Utf8Decoder: all; event decoder: printable ASCII and every multi-byte character) - decided by language inclusion of the "
            "RFC 3629 rows in the grammar's DFA, lead byte by lead byte. NOT decided: "
            "arbitrary SGR histories and chunked writes through TTYCellWriter, the decoder automaton that frames ESC[..m and which matcher wins on a character, "
            "reduced colour depths (C20), ECMA-48 conformance of the code numbers (bold-off is 21 on both sides).",
    "technique": "exhaustive denotational evaluation of the encoder, decoder and attribute functions over finite domains (src.json expression trees, std items modelled); "
                 "grammar extraction (engine E2) + DFA language inclusion against the RFC 3629 byte-sequence table",
    "design_ref": "DESIGN.md §5 C06",
}


# ------------------------------------------------------------------------------------------ evaluator with std models
# `Ev` extends sa.consteval.Interp (denotation of source expression trees on concrete values; nothing of the repository is run) by models
# of the std items the SGR encoder and decoder are written with: Vec<u8>/slices, Option/Result combinators, lazy iterators (split, take,
# by_ref, enumerate, from_fn ..), io::Write sinks and `write!` formatting, closures that keep state, enum variants with payloads.  The
# rules below then decide on the *value* (bytes written / record decoded), whatever idiom or helper the source uses to get there.
class Panic(Unsupported):
    """evaluation reached a panic (panic!/unreachable!/failing assert!/unwrap of None/index out of range)"""


class VariantV:
    """value of an enum variant that carries fields: TerminalCommand::FaceModify(m), CursorMove{row, col}"""
    __slots__ = ("ty", "name", "fields")

    def __init__(self, ty, name, fields):
        self.ty = ty
        self.name = name
        self.fields = fields          # list (tuple variant) or dict (struct variant)

    def __eq__(self, o):
        return isinstance(o, VariantV) and (o.ty, o.name, o.fields) == (self.ty, self.name, self.fields)

    def __ne__(self, o):
        return not self.__eq__(o)

    __hash__ = None

    def __repr__(self):
        return "%s::%s%r" % (self.ty, self.name, self.fields)


class FnV:
    """a function item used as a value (`.and_then(number_decode)`, `.all(Option::is_none)`)"""
    __slots__ = ("path", "user")

    def __init__(self, path, user=None):
        self.path = path
        self.user = user             # (file, trait, item) of a crate function, or None for a std item

    def __repr__(self):
        return "fn " + self.path


class CharV(int):
    """a `char` (code point); an int for arithmetic and comparison, a character for Display"""
    def __repr__(self):
        return "'%s'" % chr(int(self)) if 32 <= int(self) < 127 else "'\\u{%x}'" % int(self)


def is_control(c):
    return c < 0x20 or 0x7f <= c < 0xa0          # Unicode general category Cc


class Sink:
    """an io::Write that records what is written"""
    __hash__ = None

    def __init__(self):
        self.data = bytearray()

    def __repr__(self):
        return "Sink(%r)" % bytes(self.data)


class IterV:
    """lazy iterator: wraps a python generator; `nxt()` -> some(v) | NONE.  by_ref()/&mut share the object (and so the position)"""
    __hash__ = None

    def __init__(self, gen):
        self.gen = iter(gen)
        self.peeked = []

    def nxt(self):
        if self.peeked:
            return some(self.peeked.pop(0))
        for v in self.gen:
            return some(v)
        return NONE

    def peek(self):
        if not self.peeked:
            for v in self.gen:
                self.peeked.append(v)
                break
        return some(self.peeked[0]) if self.peeked else NONE

    def __iter__(self):
        while True:
            v = self.nxt()
            if v == NONE:
                return
            yield v[1]

    def size_hint(self):
        raise Unsupported("size_hint of this iterator")


class SplitIter(IterV):
    """core::slice::Split: pieces of `data` between elements satisfying pred; the piece after the last separator is yielded too;
    size_hint() = (0, Some(0)) once finished, else (1, Some(len + 1))"""
    def __init__(self, data, pred):
        IterV.__init__(self, ())
        self.v = data
        self.pred = pred
        self.finished = False

    def nxt(self):
        if self.finished:
            return NONE
        for i, b in enumerate(self.v):
            if self.pred(b):
                piece, self.v = self.v[:i], self.v[i + 1:]
                return some(piece)
        self.finished = True
        return some(self.v)

    def size_hint(self):
        return (0, some(0)) if self.finished else (1, some(len(self.v) + 1))


class MutRef:
    """`&mut` to a value that has no identity of its own here (an integer, bool, Option ..): reads and writes go to where it lives"""
    __slots__ = ("get", "set")
    __hash__ = None

    def __init__(self, get, set_):
        self.get = get
        self.set = set_

    def __repr__(self):
        return "&mut %r" % (self.get(),)


def deref(v):
    while isinstance(v, MutRef):
        v = v.get()
    return v


class Scope(dict):
    """variables of a closure call: reads fall through to the defining frame, `let`/parameters bind locally, assignments to a captured
    variable update the defining frame (a closure that counts keeps counting)"""
    def __init__(self, parent):
        dict.__init__(self)
        self.parent = parent

    def __missing__(self, k):
        return self.parent[k]

    def __contains__(self, k):
        return dict.__contains__(self, k) or k in self.parent

    def get(self, k, d=None):
        return self[k] if k in self else d

    def assign(self, k, v):
        if dict.__contains__(self, k) or k not in self.parent:
            self[k] = v
        elif isinstance(self.parent, Scope):
            self.parent.assign(k, v)
        else:
            self.parent[k] = v


def _isint(v):
    return isinstance(v, int) and not isinstance(v, bool)


def _plain(v):
    """a value without identity or position (safe to hand out again from the memo): no iterator, closure or sink inside"""
    if v is None or isinstance(v, (int, float, str, bytes, EnumV)):
        return True
    if isinstance(v, (tuple, list)):
        return all(_plain(x) for x in v)
    if isinstance(v, StructV):
        return all(_plain(x) for x in v.fields.values())
    if isinstance(v, VariantV):
        return all(_plain(x) for x in (v.fields.values() if isinstance(v.fields, dict) else v.fields))
    return False


def _isopt(v):
    return v == NONE or (isinstance(v, tuple) and not isinstance(v, EnumV) and len(v) == 2 and v[0] == "Some")


def _isres(v):
    return isinstance(v, tuple) and not isinstance(v, EnumV) and len(v) == 2 and v[0] in ("Ok", "Err")


U64 = (1 << 64) - 1
_INT_CONSTS = {"u8": 8, "u16": 16, "u32": 32, "u64": 64, "usize": 64, "u128": 128}
_SINT_CONSTS = {"i8": 8, "i16": 16, "i32": 32, "i64": 64, "isize": 64}


def _from_utf8(b):
    try:
        return ("Ok", bytes(b).decode("utf-8"))
    except UnicodeDecodeError:
        return ("Err", "Utf8Error")


class Ev(Interp):
    def __init__(self, src, max_steps=400_000_000):
        Interp.__init__(self, src, max_steps)
        self._enums.setdefault("Ordering", ["Less", "Equal", "Greater"])
        self._variants = {}          # variant name -> [enum] (for names brought in by `use Enum::*`)
        self._variant_fields = {}
        for (f, it, t) in src.enums:
            if t:
                continue
            for v in it["variants"]:
                self._variants.setdefault(v["name"], []).append(it["name"])
                self._variant_fields[(it["name"], v["name"])] = [x["name"] for x in v["fields"]]
        self.extern_fns.setdefault("RGBA::new", lambda args: ("RGBA",) + tuple(args))

    # ------------------------------------------------------------------ values
    def _lit(self, e):
        v = Interp._lit(self, e)
        if e.get("k") == "lit" and e.get("t") == "char":
            return CharV(v)
        return v

    def default_of(self, ty):
        t = ty.replace(" ", "")
        if t.startswith("Vec<") or t.startswith("VecDeque<") or t.startswith("SmallVec<"):
            return []
        if t == "String":
            return ""
        if t == "char":
            return CharV(0)
        return Interp.default_of(self, ty)

    def _path_value(self, p, fr):
        if p in fr.vars:
            return fr.vars[p]
        try:
            return Interp._path_value(self, p, fr)
        except Unsupported:
            pass
        segs = re.sub(r"<[^<>]*>", "", p).split("::")
        name = segs[-1]
        if len(segs) >= 2 and segs[-2] == "Ordering" and name in ("Less", "Equal", "Greater"):
            return EnumV("Ordering", name)
        if len(segs) >= 2 and name in ("MAX", "MIN", "BITS"):
            ty = segs[-2]
            if ty in _INT_CONSTS:
                return {"MAX": (1 << _INT_CONSTS[ty]) - 1, "MIN": 0, "BITS": _INT_CONSTS[ty]}[name]
            if ty in _SINT_CONSTS:
                b = _SINT_CONSTS[ty]
                return {"MAX": (1 << (b - 1)) - 1, "MIN": -(1 << (b - 1)), "BITS": b}[name]
        if len(segs) == 1:
            en = self._variants.get(name, [])
            if len(en) == 1 and not self._variant_fields[(en[0], name)]:
                return EnumV(en[0], name)
            f = self.find_fn(None, name, file=fr.file) or self.find_fn(None, name)
            if f is not None:
                return FnV(p, f)
        else:
            ty = fr.self_ty if segs[-2] == "Self" else segs[-2]
            if ty in self._enums and name in self._enums[ty]:
                return FnV(p)          # tuple-variant constructor used as a function
            f = self.find_fn(ty, name)
            if f is not None:
                return FnV(p, f)
            return FnV("::".join(segs[-2:]))
        raise Unsupported("path " + p)

    unsigned_sub = False          # set on an instance that evaluates code whose integers are all unsigned (indices): `a - b` below zero is a panic

    def binop(self, op, a, b, memo=True):
        a, b = deref(a), deref(b)
        if op == "-" and self.unsigned_sub and _isint(a) and _isint(b) and a >= 0 and b >= 0 and a < b:
            raise Panic("attempt to subtract with overflow (%d - %d)" % (a, b))
        if op in ("==", "!=") and isinstance(a, (list, bytes, bytearray)) and isinstance(b, (list, bytes, bytearray)):
            r = list(a) == list(b)
            return r if op == "==" else not r
        if _isopt(a) and _isopt(b) and op in ("<", "<=", ">", ">="):
            raise Unsupported("ordering of Options")
        return Interp.binop(self, op, a, b, memo)

    # ------------------------------------------------------------------ patterns
    def _const_of_pattern(self, name):
        """(True, value) when a bare identifier in pattern position names a constant item in scope (rustc resolves such a pattern to the constant:
        `match n { SGR_COLOR_RGB => .. }` compares, it does not bind), else (False, None).  In scope: a module-level const of the file the pattern
        is in; an upper-case name that is the one const of that name in the crate (imported with `use`; an upper-case binding is rejected by the
        crate's #![deny(warnings)])."""
        file = getattr(self, "_pat_file", None)
        cache = self.__dict__.setdefault("_const_pat_cache", {})
        if (name, file) in cache:
            pick = cache[(name, file)]
            if pick is None:
                return False, None
            cv = self.const(None, name, pick)
            return (True, cv) if cv is not None else (False, None)
        cache[(name, file)] = None
        hits = [(f, it_) for (f, s_, it_, t_) in self.src.consts if it_["name"] == name and not t_ and s_ is None]
        here = [h for h in hits if file is not None and h[0] == file]
        pick = here[0] if len(here) == 1 else (hits[0] if len(hits) == 1 and not here and name.upper() == name and name[:1].isalpha() else None)
        if pick is None:
            return False, None
        try:
            cv = self.const(None, name, pick[0])
        except Unsupported:
            raise Unsupported("constant pattern %s could not be evaluated" % name)
        if cv is None:
            return False, None
        cache[(name, file)] = pick[0]
        return True, cv

    def match_pat(self, p, v, binds):
        k = p["k"]
        if k == "ident" and not p.get("sub") and p["name"][:1].isupper() and isinstance(v, (EnumV, VariantV)) \
                and p["name"] in self._enums.get(v.ty, ()):
            return v.name == p["name"]
        if k == "ident" and not p.get("sub") and not p.get("mut") and not p.get("by_ref") and p["name"] not in ("None", "true", "false"):
            is_c, cv = self._const_of_pattern(p["name"])
            if is_c:
                if isinstance(cv, bytes) and isinstance(v, list):
                    return list(cv) == v
                return cv == v and isinstance(v, bool) == isinstance(cv, bool)
        if k == "path" and isinstance(v, (EnumV, VariantV)):
            segs = p["p"].split("::")
            if segs[-1] in self._enums.get(v.ty, ()) and (len(segs) == 1 or segs[-2] in (v.ty, "Self")):
                return v.name == segs[-1]
        if k == "tstruct":
            nm = p["path"].split("::")[-1]
            if isinstance(v, (VariantV, EnumV)) and nm in self._enums.get(v.ty, ()):
                if not isinstance(v, VariantV) or v.name != nm or not isinstance(v.fields, list):
                    return False
                el = [x for x in p["elems"]]
                if any(x["k"] == "rest" for x in el):
                    i = [x["k"] for x in el].index("rest")
                    head, tail = el[:i], el[i + 1:]
                    vs = v.fields
                    return len(vs) >= len(head) + len(tail) and all(self.match_pat(a, x, binds) for a, x in zip(head, vs)) and \
                        all(self.match_pat(a, x, binds) for a, x in zip(tail, vs[len(vs) - len(tail):]))
                return len(el) == len(v.fields) and all(self.match_pat(a, x, binds) for a, x in zip(el, v.fields))
        if k == "struct":
            nm = p["path"].split("::")[-1]
            if isinstance(v, (VariantV, EnumV)) and nm in self._enums.get(v.ty, ()):
                if not isinstance(v, VariantV) or v.name != nm or not isinstance(v.fields, dict):
                    return False
                fields = v.fields
            elif isinstance(v, StructV) and nm in (v.ty, "Self"):
                fields = v.fields
            else:
                raise Unsupported("struct pattern " + p["path"])
            for f in p["fields"]:
                if f["name"] not in fields:
                    raise Unsupported("field %s in pattern" % f["name"])
                sub = f.get("pat")
                if sub is None:
                    binds[f["name"]] = fields[f["name"]]
                elif not self.match_pat(sub, fields[f["name"]], binds):
                    return False
            return True
        if k in ("tuple", "slice") and any(x["k"] == "rest" for x in p["elems"]) and isinstance(v, (tuple, list, bytes)) and not isinstance(v, EnumV):
            el = p["elems"]
            i = [x["k"] for x in el].index("rest")
            head, tail = el[:i], el[i + 1:]
            vs = list(v)
            return len(vs) >= len(head) + len(tail) and all(self.match_pat(a, x, binds) for a, x in zip(head, vs)) and \
                all(self.match_pat(a, x, binds) for a, x in zip(tail, vs[len(vs) - len(tail):]))
        if k == "slice" and isinstance(v, bytes):
            v = list(v)
        return Interp.match_pat(self, p, v, binds)

    # ------------------------------------------------------------------ places / stores
    def place(self, e, fr):
        k = e["k"]
        if k == "un" and e["op"] == "*":
            return deref(self.place(e["e"], fr))
        if k == "index":
            b = deref(self.place(e["e"], fr))
            r = e["i"]
            if r.get("k") == "range":
                if not isinstance(b, (list, bytes, bytearray, str)):
                    raise Unsupported("range index into a non-slice")
                lo = self.eval(r["lo"], fr) if r.get("lo") else 0
                hi = (self.eval(r["hi"], fr) + (1 if r.get("incl") else 0)) if r.get("hi") else len(b)
                if not _isint(lo) or not _isint(hi):
                    raise Unsupported("slice bounds")
                if not 0 <= lo <= hi <= len(b):
                    raise Panic("slice %d..%d of a slice of length %d" % (lo, hi, len(b)))
                return b[lo:hi]
            i = self.eval(r, fr)
            if isinstance(b, (list, bytes, bytearray)) and _isint(i):
                if not 0 <= i < len(b):
                    raise Panic("index %d of a slice of length %d" % (i, len(b)))
                return b[i]
            raise Unsupported("index into %s" % type(b).__name__)
        if k == "field":
            b = self.place(e["e"], fr)
            if isinstance(b, VariantV):
                raise Unsupported("field of an enum value")
        return Interp.place(self, e, fr)

    def store(self, e, fr, v):
        if e["k"] == "path" and isinstance(fr.vars, Scope):
            if e["p"] not in fr.vars:
                raise Unsupported("assignment to non-local " + e["p"])
            fr.vars.assign(e["p"], v)
            return
        if e["k"] == "paren":
            return self.store(e["e"], fr, v)
        if e["k"] == "un" and e["op"] == "*":
            inner = e["e"]
            while inner.get("k") == "paren":
                inner = inner["e"]
            tgt = Interp.place(self, inner, fr) if inner.get("k") == "path" else self.place(inner, fr)
            if isinstance(tgt, MutRef):
                tgt.set(v)
                return
            if not isinstance(tgt, StructV) and inner.get("k") in ("path", "field", "index"):
                return self.store(inner, fr, v)      # `*counter = ..` through a reference held in a local / field
        return Interp.store(self, e, fr, v)

    # ------------------------------------------------------------------ expressions
    def _e_ref(self, e, fr):
        v = self.place(e["e"], fr)
        inner = e["e"]
        while inner.get("k") == "paren":
            inner = inner["e"]
        if e.get("mut") and not isinstance(v, (list, StructV, Sink, IterV, MutRef, VariantV, ClosureV)) and inner.get("k") in ("path", "field", "index") \
                and not (inner.get("k") == "path" and inner["p"] not in fr.vars):
            # `&mut counter`: a reference the callee can write through
            return MutRef(lambda: self.place(inner, fr), lambda nv: self.store(inner, fr, nv))
        return v

    def _e_un(self, e, fr):
        if e["op"] == "*":
            return copyv(deref(self.place(e["e"], fr)))
        v = deref(self.eval(e["e"], fr))
        if e["op"] == "!" and isinstance(v, bool):
            return not v
        if e["op"] == "-" and isinstance(v, (int, float)) and not isinstance(v, bool):
            return -v
        raise Unsupported("unary " + e["op"])

    def _discriminant(self, v):
        """`Enum::V as <int>`: declared discriminant, else one more than the previous variant's"""
        hit = self.src.enum(v.ty)
        if hit is None:
            raise Unsupported("discriminant of " + v.ty)
        d = -1
        for var in hit[1]["variants"]:
            if var.get("discr") is not None:
                d = self.eval(var["discr"], Frame({}, None, hit[0]))
                if not _isint(d):
                    raise Unsupported("discriminant expression of %s::%s" % (v.ty, var["name"]))
            else:
                d += 1
            if var["name"] == v.name:
                return d
        raise Unsupported("variant %s::%s" % (v.ty, v.name))

    def _e_cast(self, e, fr):
        ty = e["ty"].replace(" ", "")
        if ty in _INT_CONSTS or ty in _SINT_CONSTS:
            v = self.eval(e["e"], fr)
            if isinstance(v, EnumV):
                v = self._discriminant(v)
            if isinstance(v, bool):
                v = int(v)
            return Interp._e_cast(self, {"k": "cast", "e": {"k": "$value", "v": int(v) if isinstance(v, CharV) else v}, "ty": e["ty"]}, fr)
        if ty == "char":
            v = self.eval(e["e"], fr)
            if _isint(v) and 0 <= v < 256:
                return CharV(v)
            raise Unsupported("cast to char")
        return Interp._e_cast(self, e, fr)

    def _e_block(self, e, fr):
        # items declared inside a block (`const CODES: [..] = ..;`, a nested `fn`) are in scope in the whole block
        for st in e.get("stmts") or []:
            if st.get("k") == "item" and isinstance(st.get("item"), dict):
                it_ = st["item"]
                if it_.get("k") in ("const", "static") and it_.get("name") and it_.get("expr") is not None:
                    fr.vars[it_["name"]] = self.eval(it_["expr"], fr)
                elif it_.get("k") == "fn" and it_.get("name") and it_.get("body") is not None:
                    fr.vars[it_["name"]] = FnV(it_["name"], (fr.file, None, it_))
        return Interp._e_block(self, e, fr)

    def _e_loop(self, e, fr):
        n = 0
        while True:
            n += 1
            if n > 100000:
                raise Unsupported("loop bound")
            try:
                self.eval(e["body"], fr)
            except consteval._Break:
                return ()
            except consteval._Continue:
                continue

    def _e_repeat(self, e, fr):
        n = self.eval(e["n"], fr)
        if not _isint(n) or not 0 <= n <= 1 << 16:
            raise Unsupported("repeat length")
        v = self.eval(e["e"], fr)
        return [copyv(v) for _ in range(n)]

    def _e_unsafe(self, e, fr):
        raise Unsupported("unsafe")

    def _iter_of(self, v):
        """python iterable over the items a Rust `for` / iterator adaptor sees"""
        if isinstance(v, IterV):
            return v
        if isinstance(v, (list, bytes, bytearray)):
            return iter(list(v))
        if _isopt(v):
            return iter([v[1]] if v != NONE else [])
        raise Unsupported("iteration over %s" % type(v).__name__)

    def _e_for(self, e, fr):
        it = self._iter_of(self.eval(e["iter"], fr))
        n = 0
        for x in it:
            n += 1
            if n > 1000000:
                raise Unsupported("loop bound")
            if not self.match_pat(e["pat"], x, fr.vars):
                raise Unsupported("refutable for pattern")
            try:
                self.eval(e["body"], fr)
            except consteval._Break:
                break
            except consteval._Continue:
                continue
        return ()

    def _e_range(self, e, fr):
        if not e.get("hi"):
            raise Unsupported("open range")
        return Interp._e_range(self, e, fr)

    def _e_struct(self, e, fr):
        segs = e["path"].split("::")
        if len(segs) >= 2 and segs[-2] in self._enums and segs[-1] in self._enums[segs[-2]] and not e.get("rest"):
            return VariantV(segs[-2], segs[-1], {f["name"]: self.eval(f["e"], fr) for f in e["fields"]})
        rest = e.get("rest")
        if isinstance(rest, dict) and rest.get("k") == "call" and not rest.get("args") and rest["f"].get("k") == "path" \
                and rest["f"]["p"].split("::")[-1] == "default" and rest["f"]["p"].split("::")[-2:-1] in (["Default"], []):
            # `..Default::default()`: the default of the struct being built
            ty = fr.self_ty if segs[-1] == "Self" else segs[-1]
            e = dict(e)
            e["rest"] = {"k": "$value", "v": self.default_of(ty)}
        return Interp._e_struct(self, e, fr)

    def eval(self, e, fr):
        if e.get("k") == "$value":
            return e["v"]
        return Interp.eval(self, e, fr)

    # ------------------------------------------------------------------ closures and function values
    def call_closure(self, c, args):
        if len(c.params) != len(args):
            raise Unsupported("closure arity")
        fr = Frame(Scope(c.frame.vars), c.frame.self_ty, c.frame.file)
        for p, a in zip(c.params, args):
            if p.get("k") == "type" and isinstance(p.get("pat"), dict):
                p = p["pat"]
            if not self.match_pat(p, a, fr.vars):
                raise Unsupported("refutable closure parameter")
        try:
            return self.eval(c.body, fr)
        except consteval._Return as r:
            return r.v

    STD_FNS = {
        "Some": lambda a: some(a[0]),
        "Ok": lambda a: ("Ok", a[0]),
        "Err": lambda a: ("Err", a[0]),
        "Option::is_none": lambda a: a[0] == NONE,
        "Option::is_some": lambda a: a[0] != NONE,
        "Result::is_ok": lambda a: a[0][0] == "Ok",
        "Result::is_err": lambda a: a[0][0] == "Err",
        "Result::ok": lambda a: some(a[0][1]) if a[0][0] == "Ok" else NONE,
        "char::is_control": lambda a: is_control(a[0]),
        "char::is_ascii_digit": lambda a: 0x30 <= a[0] <= 0x39,
        "u8::is_ascii_digit": lambda a: 0x30 <= a[0] <= 0x39,
        "char::from": lambda a: CharV(a[0]),
        "Vec::new": lambda a: [],
        "Vec::with_capacity": lambda a: [],
        "Vec::from": lambda a: list(a[0]),
        "String::new": lambda a: "",
        "String::with_capacity": lambda a: "",
        "identity": lambda a: a[0],
        "str::from_utf8": lambda a: _from_utf8(a[0]),
        "String::from_utf8": lambda a: _from_utf8(a[0]),
        "String::from_utf8_lossy": lambda a: bytes(a[0]).decode("utf-8", "replace"),
        "String::from": lambda a: chr(int(a[0])) if isinstance(a[0], CharV) else a[0],
        "drop": lambda a: (),
    }
    for _t in list(_INT_CONSTS) + list(_SINT_CONSTS):
        STD_FNS[_t + "::from"] = lambda a: int(a[0])

    def apply_fn(self, f, args):
        if isinstance(f, ClosureV):
            return self.call_closure(f, args)
        if isinstance(f, FnV):
            if f.user is not None:
                file, tr, item = f.user
                segs = f.path.split("::")
                return self.call_item(item, segs[-2] if len(segs) > 1 else None, list(args), file)
            segs = f.path.split("::")
            if len(segs) >= 2 and segs[-2] in self._enums and segs[-1] in self._enums[segs[-2]]:
                return VariantV(segs[-2], segs[-1], list(args))
            key = "::".join(segs[-2:])
            h = self.STD_FNS.get(key) or self.STD_FNS.get(segs[-1])
            if h is not None:
                return h(list(args))
            raise Unsupported("function value " + f.path)
        raise Unsupported("call of a non-function")

    def _truth(self, f, args):
        r = self.apply_fn(f, args)
        if not isinstance(r, bool):
            raise Unsupported("predicate does not yield a bool")
        return r

    def _e_call(self, e, fr):
        f = e["f"]
        if f["k"] == "paren":
            f = f["e"]
        args_e = e.get("args") or []
        if f["k"] != "path":
            fv = self.eval(f, fr)
            return self.apply_fn(fv, [self.eval(a, fr) for a in args_e])
        p = f["p"]
        if p in fr.vars and isinstance(fr.vars[p], (ClosureV, FnV)):
            return self.apply_fn(fr.vars[p], [self.eval(a, fr) for a in args_e])
        segs = re.sub(r"<[^<>]*>", "", p).split("::")
        name = segs[-1]
        if p in self.extern_fns or p in ("Some", "Ok", "Err"):
            return Interp._e_call(self, e, fr)
        if name == "from_fn" and len(args_e) == 1 and (len(segs) == 1 or segs[-2] == "iter"):
            c = self.eval(args_e[0], fr)

            def gen(c=c):
                while True:
                    r = self.apply_fn(c, [])
                    if r == NONE:
                        return
                    if not _isopt(r):
                        raise Unsupported("from_fn closure result")
                    yield r[1]
            return IterV(gen())
        if name in ("once", "empty", "repeat") and len(segs) >= 2 and segs[-2] == "iter":
            vals = [self.eval(a, fr) for a in args_e]
            if name == "repeat":
                raise Unsupported("iter::repeat")
            return IterV(iter(vals))
        # enum variant with fields built like a function call
        ety = None
        if len(segs) >= 2 and (segs[-2] in self._enums or segs[-2] == "Self"):
            ety = fr.self_ty if segs[-2] == "Self" else segs[-2]
        elif len(segs) == 1 and len(self._variants.get(name, [])) == 1 and self.find_fn(None, name, file=fr.file) is None:
            ety = self._variants[name][0]
        if ety in self._enums and name in self._enums[ety] and self._variant_fields.get((ety, name)):
            return VariantV(ety, name, [self.eval(a, fr) for a in args_e])
        if len(segs) >= 2:
            ty = fr.self_ty if segs[-2] == "Self" else segs[-2]
            key = "%s::%s" % (segs[-2], name)
            if self.find_fn(ty, name) is None and not (name == "default" and not args_e) and name != "try_from":
                h = self.STD_FNS.get(key)
                if h is not None:
                    return h([self.eval(a, fr) for a in args_e])
                # `Type::method(recv, args..)` for a std method: same as `recv.method(args..)`
                if args_e and (ty[:1].islower() or ty in ("Option", "Result", "Vec", "String", "Iterator", "Write", "Ord", "PartialOrd", "Into", "From", "Clone")):
                    recv = self.place(args_e[0], fr)
                    r = self.std_method(recv, name, [self.place(a, fr) for a in args_e[1:]], fr)
                    if r is not _NOIMPL:
                        return r
        elif len(segs) == 1 and self.find_fn(None, name, file=fr.file) is None and self.find_fn(None, name) is not None:
            return self._apply(self.find_fn(None, name), None, args_e, fr)
        return Interp._e_call(self, e, fr)

    def _apply(self, fn, ty, args_e, fr, recv=None):
        """as the base, but an argument written `&x` / `&mut x` (or a receiver) for a by-value generic parameter (`mut out: W`, `impl Write`) is
        the referenced object itself, not a copy: what the callee writes must be visible to the caller"""
        file, tr, item = fn
        inputs = item["sig"]["inputs"]
        vals, byref = [], []
        es = list(args_e)
        for inp in inputs:
            if inp["name"] == "self" and recv is not None:
                vals.append(recv)
                byref.append(True)
                continue
            if not es:
                raise Unsupported("arity of " + item["name"])
            a = es.pop(0)
            inner = a
            while inner.get("k") == "paren":
                inner = inner["e"]
            ref = inp["ty"].startswith("&") or inner.get("k") == "ref"
            vals.append(self._e_ref(inner, fr) if inner.get("k") == "ref" else self.place(a, fr) if ref else self.eval(a, fr))
            byref.append(ref)
        if es:
            raise Unsupported("arity of " + item["name"])
        return self.call_item(item, ty, vals, file, byref=byref)

    def call_item(self, item, impl_self, args, file=None, memo=True, byref=None):
        inputs = item["sig"]["inputs"]
        if len(inputs) != len(args):
            raise Unsupported("arity of " + item["name"])
        byref = byref or [inp["ty"].startswith("&") for inp in inputs]
        hidden = any(r and not inp["ty"].startswith("&") for r, inp in zip(byref, inputs))
        pure = memo and not hidden and not any(i["ty"].startswith("&mut") for i in inputs)
        key = None
        if pure:
            try:
                key = (id(item), tuple(freeze(a) for a in args))
                if key in self._memo:
                    return copyv(self._memo[key])
            except TypeError:
                key = None
        fr = Frame({}, impl_self, file)
        for inp, a, r in zip(inputs, args, byref):
            v = a if r else copyv(a)
            if inp["name"] == "self":
                fr.vars["self"] = v
            elif not self.match_pat(inp["pat"], v, fr.vars):
                raise Unsupported("refutable parameter pattern")
        try:
            r = self.eval(item["body"], fr)
        except consteval._Return as ex:
            r = ex.v
        if key is not None and _plain(r):
            self._memo[key] = copyv(r)
        return r

    # ------------------------------------------------------------------ macros
    def _e_macro(self, e, fr):
        sh = e.get("short")
        args = e.get("args")
        if sh in ("debug_assert", "debug_assert_eq", "debug_assert_ne"):
            return ()             # absent from release builds; whether it can fire is C05's obligation (DEBUGCHK)
        if sh in ("panic", "unreachable", "unimplemented", "todo"):
            raise Panic("%s! reached" % sh)
        if sh == "assert" and args:
            if self._cond(args[0], fr) is not True:
                raise Panic("assert! fails")
            return ()
        if sh in ("assert_eq", "assert_ne") and args and len(args) >= 2:
            if self.binop("==", self.eval(args[0], fr), self.eval(args[1], fr)) != (sh == "assert_eq"):
                raise Panic(sh + "! fails")
            return ()
        if sh in ("write", "writeln") and args and len(args) >= 2:
            dst = self.place(args[0], fr)
            data = self.format(args[1:], fr) + ("\n" if sh == "writeln" else "")
            return self.write_bytes(dst, data.encode("utf-8"))
        if sh == "format" and args:
            return self.format(args, fr)
        if sh == "vec" and args is not None:
            return [self.eval(a, fr) for a in args]
        if sh in ("trace", "debug", "info", "warn", "error", "event", "eprintln", "println"):
            return ()             # logging: no value, no effect on what is written
        return Interp._e_macro(self, e, fr)

    def format(self, args_e, fr):
        f0 = args_e[0]
        if f0.get("k") != "lit" or f0.get("t") != "str":
            raise Unsupported("format string is not a literal")
        try:
            pieces = Tm.parse_format(f0["v"])
        except Tm.Unsupported as ex:
            raise Unsupported(str(ex))
        pos, named = [], {}
        for a in args_e[1:]:
            if a.get("k") == "assign" and a["l"].get("k") == "path":
                named[a["l"]["p"]] = self.eval(a["r"], fr)
            else:
                pos.append(self.eval(a, fr))
        out = []
        nxt = 0
        for pc in pieces:
            if pc[0] == "lit":
                out.append(pc[1])
                continue
            which, spec = pc[1], pc[2]
            if which[0] == "next":
                if nxt >= len(pos):
                    raise Unsupported("format arguments")
                v = pos[nxt]
                nxt += 1
            elif which[0] == "pos":
                if which[1] >= len(pos):
                    raise Unsupported("format arguments")
                v = pos[which[1]]
            else:
                v = named[which[1]] if which[1] in named else copyv(self._path_value(which[1], fr))
            out.append(self.format_value(v, spec))
        return "".join(out)

    def format_value(self, v, spec):
        v = deref(v)
        m = Tm._SPEC_RX.match(spec)
        if not m:
            raise Unsupported("format spec {:%s}" % spec)
        fill, align, sign, alt, zero, width, prec, ty = (m.group(g) for g in ("fill", "align", "sign", "alt", "zero", "width", "prec", "ty"))
        width = int(width) if width else 0
        ty = ty or ""
        numeric = False
        if isinstance(v, CharV):
            if ty == "?":
                body = repr(v)
            elif ty:
                raise Unsupported("format spec {:%s} on a char" % spec)
            else:
                body = chr(int(v))
        elif isinstance(v, bool):
            body = "true" if v else "false"
        elif _isint(v):
            numeric = True
            a = abs(v)
            if ty in ("", "?"):
                digits, prefix = str(a), ""
            elif ty in ("x", "X"):
                digits, prefix = ("%x" if ty == "x" else "%X") % a, "0x"
            elif ty == "o":
                digits, prefix = "%o" % a, "0o"
            elif ty == "b":
                digits, prefix = bin(a)[2:], "0b"
            else:
                raise Unsupported("format spec {:%s}" % spec)
            if v < 0 and ty not in ("", "?"):
                raise Unsupported("radix formatting of a negative number")
            pre = ("-" if v < 0 else "+" if sign == "+" else "") + (prefix if alt else "")
            if zero and width > len(pre) + len(digits):
                digits = "0" * (width - len(pre) - len(digits)) + digits
            body = pre + digits
        elif isinstance(v, str):
            if ty == "?":
                body = '"%s"' % v
            elif ty:
                raise Unsupported("format spec {:%s} on a string" % spec)
            else:
                body = v if prec is None else v[:int(prec)]
        else:
            raise Unsupported("Display of %s" % type(v).__name__)
        if width > len(body):
            pad = width - len(body)
            fc = fill or " "
            al = align or (">" if numeric else "<")
            body = body + fc * pad if al == "<" else fc * pad + body if al == ">" else fc * (pad // 2) + body + fc * (pad - pad // 2)
        return body

    def write_bytes(self, dst, data):
        """io::Write::write_all(dst, data) -> Ok(()) (sinks never fail here: I/O errors end the command and are not part of the property)"""
        data = bytes(data)
        if isinstance(dst, Sink):
            dst.data.extend(data)
            return ("Ok", ())
        if isinstance(dst, list):
            dst.extend(data)
            return ("Ok", ())
        if isinstance(dst, StructV):
            f = self.find_fn(dst.ty, "write_all", "Write")
            if f is not None:
                return self.call_item(f[2], dst.ty, [dst, data], f[0])
            f = self.find_fn(dst.ty, "write", "Write")
            if f is not None:
                rest = data
                for _ in range(len(data) + 1):
                    if not rest:
                        return ("Ok", ())
                    r = self.call_item(f[2], dst.ty, [dst, rest], f[0])
                    if not _isres(r):
                        raise Unsupported("Write::write result")
                    if r[0] == "Err":
                        return r
                    if not _isint(r[1]) or not 0 < r[1] <= len(rest):
                        return ("Err", "WriteZero")
                    rest = rest[r[1]:]
                return ("Ok", ())
            f = self.find_fn(dst.ty, "write_str", "Write") or self.find_fn(dst.ty, "write_str", "fmt::Write")
            if f is not None:
                return self.call_item(f[2], dst.ty, [dst, data.decode("utf-8")], f[0])
        raise Unsupported("write into %s" % (dst.ty if isinstance(dst, StructV) else type(dst).__name__))

    # ------------------------------------------------------------------ method calls
    def _e_mcall(self, e, fr):
        m = e["m"]
        recv = deref(self.place(e["recv"], fr))
        args_e = e.get("args") or []
        ty = recv.ty if isinstance(recv, (StructV, EnumV, VariantV)) else None
        if ty is not None:
            fn = self.find_fn(ty, m)
            if fn is not None:
                return self._apply(fn, ty, args_e, fr, recv=recv)
        if m in self.extern_methods:
            return self.extern_methods[m](recv, [self.place(a, fr) for a in args_e])
        tf = (e.get("turbofish") or "")
        tf = re.sub(r"[\s<>:]", "", tf if isinstance(tf, str) else " ".join(map(str, tf)))
        r = self.std_method(recv, m, [self.place(a, fr) for a in args_e], fr, turbofish=tf)
        if r is not _NOIMPL:
            return r
        if ty is not None and m in ("into", "clone", "to_owned"):
            return Interp._e_mcall(self, e, fr)
        raise Unsupported("method %s on %s" % (m, ty or type(recv).__name__))

    def std_method(self, recv, m, a, fr=None, turbofish=""):
        n = len(a)
        if m in ("clone", "to_owned", "cloned", "copied") and n == 0 and not isinstance(recv, IterV) and not _isopt(recv):
            return copyv(recv)
        if m in ("borrow", "borrow_mut", "as_ref", "as_mut", "by_ref", "as_slice", "as_mut_slice", "deref", "as_deref") and n == 0 and not _isopt(recv):
            return recv
        if m == "into" and n == 0 and not isinstance(recv, (StructV, EnumV, VariantV)):
            return recv
        if isinstance(recv, Sink):
            if m == "write_all" and n == 1:
                return self.write_bytes(recv, a[0])
            if m == "write" and n == 1:
                self.write_bytes(recv, a[0])
                return ("Ok", len(a[0]))
            if m == "flush" and n == 0:
                return ("Ok", ())
            return _NOIMPL
        if isinstance(recv, bool):
            if m == "then" and n == 1:
                return some(self.apply_fn(a[0], [])) if recv else NONE
            if m == "then_some" and n == 1:
                return some(a[0]) if recv else NONE
            return _NOIMPL
        if isinstance(recv, CharV):
            c = int(recv)
            if n == 0:
                if m == "is_control":
                    return is_control(c)
                if m == "is_ascii":
                    return c < 128
                if m == "is_ascii_digit":
                    return 0x30 <= c <= 0x39
                if m == "is_ascii_control":
                    return c < 0x20 or c == 0x7f
                if m == "len_utf8":
                    return len(chr(c).encode("utf-8"))
                if m == "to_string":
                    return chr(c)
                if m == "is_alphabetic" and c < 128:
                    return chr(c).isalpha()
                if m == "is_ascii_alphabetic":
                    return c < 128 and chr(c).isalpha()
                if m == "is_ascii_alphanumeric":
                    return c < 128 and chr(c).isalnum()
                if m == "is_ascii_graphic":
                    return 0x21 <= c <= 0x7e
                if m == "is_ascii_whitespace":
                    return c in (0x20, 0x09, 0x0a, 0x0c, 0x0d)
            if m == "encode_utf8" and n == 1 and not 0xd800 <= c <= 0xdfff and c <= 0x10ffff:
                # char::encode_utf8(&mut [u8]) -> &mut str: the encoding is stored at the front of the buffer (panics if it does not fit)
                enc = chr(c).encode("utf-8")
                buf = deref(a[0])
                if not isinstance(buf, (list, bytearray)):
                    raise Unsupported("encode_utf8 buffer")
                if len(buf) < len(enc):
                    raise Panic("encode_utf8: buffer of %d bytes for a %d-byte character" % (len(buf), len(enc)))
                buf[:len(enc)] = list(enc)
                return chr(c)
            return _NOIMPL
        if _isint(recv):
            return self._m_int(recv, m, a)
        if isinstance(recv, float):
            if n == 1 and isinstance(deref(a[0]), (int, float)) and not isinstance(deref(a[0]), bool):
                b = float(deref(a[0]))
                if m == "partial_cmp":
                    if recv != recv or b != b:
                        return NONE
                    return some(EnumV("Ordering", "Less" if recv < b else "Greater" if recv > b else "Equal"))
                if m == "total_cmp" and recv == recv and b == b:
                    return EnumV("Ordering", "Less" if recv < b else "Greater" if recv > b else "Equal")
                if m in ("min", "max") and recv == recv and b == b:
                    return min(recv, b) if m == "min" else max(recv, b)
            if n == 0:
                if m == "abs":
                    return abs(recv)
                if m == "is_nan":
                    return recv != recv
                if m == "is_finite":
                    return recv == recv and abs(recv) != float("inf")
            return _NOIMPL
        if isinstance(recv, str):
            if n == 0:
                if m == "len":
                    return len(recv.encode("utf-8"))
                if m == "is_empty":
                    return recv == ""
                if m in ("as_bytes", "into_bytes"):
                    return recv.encode("utf-8")
                if m == "bytes":
                    return IterV(iter(recv.encode("utf-8")))
                if m == "chars":
                    return IterV(CharV(ord(ch)) for ch in recv)
                if m in ("to_string", "as_str", "to_owned"):
                    return recv
            if m == "contains" and n == 1 and isinstance(a[0], (ClosureV, FnV)):
                return any(self._truth(a[0], [CharV(ord(ch))]) for ch in recv)
            if m == "parse" and n == 0 and turbofish in _INT_CONSTS:
                # <uN as FromStr>: an optional '+', then one or more ASCII digits, value in range
                body = recv[1:] if recv[:1] == "+" else recv
                if body and all("0" <= ch <= "9" for ch in body) and int(body) < (1 << _INT_CONSTS[turbofish]):
                    return ("Ok", int(body))
                return ("Err", "ParseIntError")
            return _NOIMPL
        if _isopt(recv) or _isres(recv):
            return self._m_optres(recv, m, a)
        if isinstance(recv, EnumV) and recv.ty == "Ordering" and n == 0:
            if m in ("is_lt", "is_gt", "is_eq", "is_le", "is_ge", "is_ne"):
                return {"is_lt": recv.name == "Less", "is_gt": recv.name == "Greater", "is_eq": recv.name == "Equal",
                        "is_le": recv.name != "Greater", "is_ge": recv.name != "Less", "is_ne": recv.name != "Equal"}[m]
            if m == "reverse":
                return EnumV("Ordering", {"Less": "Greater", "Greater": "Less", "Equal": "Equal"}[recv.name])
        if isinstance(recv, tuple) and not isinstance(recv, EnumV) and recv[:1] == ("RGBA",) and len(recv) == 5 and n == 0:
            if m == "to_rgb":
                return list(recv[1:4])
            if m == "to_rgba":
                return list(recv[1:5])
            if m in ("red", "green", "blue", "alpha"):
                return recv[1 + ("red", "green", "blue", "alpha").index(m)]
        if isinstance(recv, IterV):
            return self._m_iter(recv, m, a)
        if isinstance(recv, (list, bytes, bytearray)):
            return self._m_seq(recv, m, a)
        return _NOIMPL

    def _m_int(self, v, m, a):
        n = len(a)
        if n == 1 and _isint(a[0]):
            b = a[0]
            # the integer type is not tracked: checked/saturating/wrapping arithmetic is that of usize/u64 (callers keep values small)
            if m in ("checked_add", "checked_sub", "checked_mul"):
                r = v + b if m == "checked_add" else v - b if m == "checked_sub" else v * b
                return some(r) if 0 <= r <= U64 else NONE
            if m in ("checked_div", "checked_rem"):
                if b == 0:
                    return NONE
                return some(v // b if m == "checked_div" else v % b)
            if m in ("saturating_add", "saturating_sub", "saturating_mul"):
                r = v + b if m == "saturating_add" else v - b if m == "saturating_sub" else v * b
                return max(0, min(r, U64))
            if m in ("wrapping_add", "wrapping_sub", "wrapping_mul"):
                r = v + b if m == "wrapping_add" else v - b if m == "wrapping_sub" else v * b
                return r & U64
            if m == "min":
                return min(v, b)
            if m == "max":
                return max(v, b)
            if m == "pow":
                return v ** b
            if m == "abs_diff":
                return abs(v - b)
            if m == "cmp":
                return EnumV("Ordering", "Less" if v < b else "Greater" if v > b else "Equal")
            if m == "partial_cmp":
                return some(EnumV("Ordering", "Less" if v < b else "Greater" if v > b else "Equal"))
            if m in ("eq", "ne", "lt", "le", "gt", "ge"):
                return {"eq": v == b, "ne": v != b, "lt": v < b, "le": v <= b, "gt": v > b, "ge": v >= b}[m]
            if m in ("div_euclid", "rem_euclid") and b > 0 and v >= 0:
                return v // b if m == "div_euclid" else v % b
        if n == 2 and m == "clamp" and _isint(a[0]) and _isint(a[1]):
            if a[0] > a[1]:
                raise Panic("clamp with min > max")
            return max(a[0], min(v, a[1]))
        if n == 0:
            if m in ("abs", "unsigned_abs"):
                return abs(v)
            if m == "is_ascii_digit":
                return 0x30 <= v <= 0x39
            if m == "is_ascii_control":
                return v < 0x20 or v == 0x7f
            if m == "to_string":
                return str(v)
            if m == "count_ones":
                return bin(v).count("1")
            if m == "leading_ones":
                k = 0
                while k < 8 and v >> (7 - k) & 1:
                    k += 1
                return k
            if m == "signum":
                return (v > 0) - (v < 0)
        return _NOIMPL

    def _m_optres(self, v, m, a):
        n = len(a)
        tag = v[0]
        has = tag in ("Some", "Ok")
        x = v[1] if len(v) == 2 else None
        opt = _isopt(v)
        if n == 0:
            if m == "is_some" and opt:
                return has
            if m == "is_none" and opt:
                return not has
            if m == "is_ok" and not opt:
                return has
            if m == "is_err" and not opt:
                return not has
            if m in ("unwrap", "expect"):
                if has:
                    return x
                raise Panic("unwrap of " + tag)
            if m in ("copied", "cloned", "as_ref", "as_mut", "as_deref", "as_deref_mut"):
                return v
            if m == "ok" and not opt:
                return some(x) if has else NONE
            if m == "err" and not opt:
                return NONE if has else some(x)
            if m in ("iter", "into_iter") and opt:
                return IterV(iter([x] if has else []))
            if m == "flatten" and opt:
                return x if has else NONE
            if m == "unwrap_or_default":
                if has:
                    return x
                raise Unsupported("unwrap_or_default of an empty value")
        if n == 1:
            f = a[0]
            if m == "expect":
                if has:
                    return x
                raise Panic("expect of " + tag)
            if m == "map":
                return (tag, self.apply_fn(f, [x])) if has else v
            if m == "map_err" and not opt:
                return v if has else ("Err", self.apply_fn(f, [x]))
            if m == "and_then":
                return self.apply_fn(f, [x]) if has else v
            if m == "and":
                return f if has else v
            if m == "filter" and opt:
                return v if has and self._truth(f, [x]) else NONE
            if m == "or":
                return v if has else f
            if m == "or_else":
                return v if has else self.apply_fn(f, [] if opt else [x])
            if m == "unwrap_or":
                return x if has else f
            if m == "unwrap_or_else":
                return x if has else self.apply_fn(f, [] if opt else [x])
            if m == "ok_or" and opt:
                return ("Ok", x) if has else ("Err", f)
            if m == "ok_or_else" and opt:
                return ("Ok", x) if has else ("Err", self.apply_fn(f, []))
            if m == "is_some_and" and opt:
                return has and self._truth(f, [x])
            if m == "is_none_or" and opt:
                return (not has) or self._truth(f, [x])
            if m == "is_ok_and" and not opt:
                return has and self._truth(f, [x])
            if m == "zip" and opt:
                return some((x, f[1])) if has and _isopt(f) and f != NONE else NONE
            if m == "xor" and opt:
                fh = f != NONE
                return v if has and not fh else f if fh and not has else NONE
            if m == "contains":
                return has and x == f
        if n == 2:
            if m == "map_or":
                return self.apply_fn(a[1], [x]) if has else a[0]
            if m == "map_or_else":
                return self.apply_fn(a[1], [x]) if has else self.apply_fn(a[0], [] if opt else [x])
        return _NOIMPL

    def _m_seq(self, s, m, a):
        n = len(a)
        mutable = isinstance(s, list)
        if n == 0:
            if m == "len":
                return len(s)
            if m == "is_empty":
                return len(s) == 0
            if m in ("iter", "into_iter", "iter_mut"):
                return IterV(self._live(s))
            if m in ("first", "last"):
                return some(s[0 if m == "first" else -1]) if len(s) else NONE
            if m in ("to_vec", "into_vec", "to_owned"):
                return [copyv(x) for x in s]
            if m == "clear" and mutable:
                del s[:]
                return ()
            if m == "pop" and mutable:
                return some(s.pop()) if s else NONE
            if m in ("shrink_to_fit", "flush") and mutable:
                return ("Ok", ()) if m == "flush" else ()
            if m == "concat":
                out = []
                for x in s:
                    out.extend(x)
                return out
        if n == 1:
            x = a[0]
            if m == "push" and mutable:
                s.append(x)
                return ()
            if m in ("extend", "extend_from_slice", "append") and mutable:
                s.extend(list(self._iter_of(x)))
                if m == "append" and isinstance(x, list):
                    del x[:]
                return ()
            if m in ("reserve", "reserve_exact", "shrink_to") and mutable and _isint(x):
                return ()
            if m == "truncate" and mutable and _isint(x):
                del s[x:]
                return ()
            if m == "write_all" and mutable:
                s.extend(bytes(x))
                return ("Ok", ())
            if m == "write" and mutable:
                s.extend(bytes(x))
                return ("Ok", len(x))
            if m == "contains":
                return any(self.binop("==", y, x) for y in s)
            if m in ("starts_with", "ends_with") and isinstance(x, (list, bytes, bytearray)):
                k = len(x)
                return k <= len(s) and list(s[:k] if m == "starts_with" else s[len(s) - k:]) == list(x)
            if m == "get":
                if _isint(x):
                    return some(s[x]) if 0 <= x < len(s) else NONE
                return _NOIMPL
            if m == "split" and isinstance(x, (ClosureV, FnV)):
                return SplitIter(s if isinstance(s, (bytes, bytearray)) else list(s), lambda b, f=x: self._truth(f, [b]))
            if m in ("windows", "chunks", "chunks_exact") and _isint(x):
                if x == 0:
                    raise Panic(m + "(0)")
                if m == "windows":
                    return IterV(s[i:i + x] for i in range(0, len(s) - x + 1))
                end = len(s) - len(s) % x if m == "chunks_exact" else len(s)
                return IterV(s[i:i + x] for i in range(0, end, x))
            if m == "map" and isinstance(x, (ClosureV, FnV)):
                return [self.apply_fn(x, [copyv(y)]) for y in s]
            if m in ("binary_search_by", "partition_point") and isinstance(x, (ClosureV, FnV)):
                # core::slice::binary_search_by: Ok(position of an element the comparator calls Equal) | Err(insertion point); bisection as in std
                lo, hi = 0, len(s)
                while lo < hi:
                    mid = lo + (hi - lo) // 2
                    r = self.apply_fn(x, [s[mid]])
                    if m == "partition_point":
                        if not isinstance(r, bool):
                            raise Unsupported("partition_point predicate")
                        lo, hi = (mid + 1, hi) if r else (lo, mid)
                        continue
                    if not (isinstance(r, EnumV) and r.ty == "Ordering"):
                        raise Unsupported("comparator result")
                    if r.name == "Equal":
                        return ("Ok", mid)
                    lo, hi = (mid + 1, hi) if r.name == "Less" else (lo, mid)
                return lo if m == "partition_point" else ("Err", lo)
            if m == "binary_search" and not isinstance(x, (ClosureV, FnV)):
                lo, hi = 0, len(s)
                while lo < hi:
                    mid = lo + (hi - lo) // 2
                    if s[mid] == x:
                        return ("Ok", mid)
                    lo, hi = (mid + 1, hi) if s[mid] < x else (lo, mid)
                return ("Err", lo)
            if m == "repeat" and _isint(x):
                return list(s) * x
            if m in ("eq", "ne") and isinstance(x, (list, bytes, bytearray)):
                return (list(s) == list(x)) == (m == "eq")
        return _NOIMPL

    @staticmethod
    def _live(s):
        i = 0
        while i < len(s):
            yield s[i]
            i += 1

    def _m_iter(self, it, m, a):
        n = len(a)
        f = a[0] if n else None
        if n == 0:
            if m == "next":
                return it.nxt()
            if m == "size_hint":
                return it.size_hint()
            if m in ("by_ref", "into_iter", "iter", "copied", "cloned", "fuse"):
                return it
            if m == "peekable":
                return it
            if m == "peek":
                return it.peek()
            if m == "enumerate":
                return IterV((i, x) for i, x in enumerate(it))
            if m == "count":
                return sum(1 for _ in it)
            if m == "last":
                r = NONE
                for x in it:
                    r = some(x)
                return r
            if m == "collect":
                return list(it)
            if m == "rev":
                return IterV(iter(list(it)[::-1]))
            if m == "flatten":
                return IterV(y for x in it for y in self._iter_of(x))
            if m in ("sum", "max", "min"):
                xs = list(it)
                if not all(_isint(x) for x in xs):
                    raise Unsupported(m + " of non-integers")
                if m == "sum":
                    return sum(xs)
                return some(max(xs) if m == "max" else min(xs)) if xs else NONE
        if n == 1:
            if m in ("take", "skip", "nth", "step_by") and _isint(f):
                if m == "take":
                    def gen(k=f):
                        for _ in range(k):
                            v = it.nxt()
                            if v == NONE:
                                return
                            yield v[1]
                    return IterV(gen())
                if m == "skip":
                    def gen(k=f):
                        for _ in range(k):
                            if it.nxt() == NONE:
                                return
                        for x in it:
                            yield x
                    return IterV(gen())
                if m == "nth":
                    for _ in range(f):
                        if it.nxt() == NONE:
                            return NONE
                    return it.nxt()
                return _NOIMPL
            if m == "map":
                return IterV(self.apply_fn(f, [x]) for x in it)
            if m == "filter":
                return IterV(x for x in it if self._truth(f, [x]))
            if m == "filter_map":
                return IterV(r[1] for r in (self.apply_fn(f, [x]) for x in it) if r != NONE)
            if m == "flat_map":
                return IterV(y for x in it for y in self._iter_of(self.apply_fn(f, [x])))
            if m == "take_while":
                def gen():
                    for x in it:
                        if not self._truth(f, [x]):
                            return
                        yield x
                return IterV(gen())
            if m == "skip_while":
                def gen():
                    skipping = True
                    for x in it:
                        if skipping and self._truth(f, [x]):
                            continue
                        skipping = False
                        yield x
                return IterV(gen())
            if m == "inspect":
                def gen():
                    for x in it:
                        self.apply_fn(f, [x])
                        yield x
                return IterV(gen())
            if m == "all":
                for x in it:
                    if not self._truth(f, [x]):
                        return False
                return True
            if m == "any":
                for x in it:
                    if self._truth(f, [x]):
                        return True
                return False
            if m == "find":
                for x in it:
                    if self._truth(f, [x]):
                        return some(x)
                return NONE
            if m == "find_map":
                for x in it:
                    r = self.apply_fn(f, [x])
                    if r != NONE:
                        return r
                return NONE
            if m == "position":
                for i, x in enumerate(it):
                    if self._truth(f, [x]):
                        return some(i)
                return NONE
            if m == "for_each":
                for x in it:
                    self.apply_fn(f, [x])
                return ()
            if m == "try_for_each":
                for x in it:
                    r = self.apply_fn(f, [x])
                    if r == NONE or (_isres(r) and r[0] == "Err"):
                        return r
                    if not (_isres(r) or _isopt(r)):
                        raise Unsupported("try_for_each closure result")
                return ("Ok", ())
            if m in ("chain", "zip"):
                other = self._iter_of(f)
                if m == "chain":
                    return IterV(x for src_ in (it, other) for x in src_)
                return IterV(zip(it, other))
            if m in ("max_by_key", "min_by_key"):
                xs = list(it)
                if not xs:
                    return NONE
                ks = [self.apply_fn(f, [x]) for x in xs]
                best = 0
                for i in range(1, len(xs)):
                    if (m == "max_by_key" and ks[i] >= ks[best]) or (m == "min_by_key" and ks[i] < ks[best]):
                        best = i
                return some(xs[best])
        if n == 2:
            if m == "scan":
                cell = [a[0]]
                state = MutRef(lambda: cell[0], lambda nv: cell.__setitem__(0, nv))

                def gen(f=a[1]):
                    for x in it:
                        r = self.apply_fn(f, [state, x])
                        if r == NONE:
                            return
                        if not _isopt(r):
                            raise Unsupported("scan closure result")
                        yield r[1]
                return IterV(gen())
            if m == "fold":
                acc = a[0]
                for x in it:
                    acc = self.apply_fn(a[1], [acc, x])
                return acc
            if m == "try_fold":
                acc = a[0]
                kind = None
                for x in it:
                    r = self.apply_fn(a[1], [acc, x])
                    if r == NONE or (_isres(r) and r[0] == "Err"):
                        return r
                    if not (_isres(r) or _isopt(r)):
                        raise Unsupported("try_fold closure result")
                    acc = r[1]
                    kind = r[0]
                if kind is None:
                    # nothing was folded: Some(init) or Ok(init), by what the closure's own body produces
                    body = a[1].body if isinstance(a[1], ClosureV) else None
                    opt = body is not None and bool(find_all(body, lambda n_: (n_.get("k") == "path" and n_.get("p") in ("None", "Some")) or (n_.get("k") == "ident" and n_.get("name") == "None")))
                    res = body is not None and bool(find_all(body, lambda n_: n_.get("k") == "path" and n_.get("p") in ("Ok", "Err")))
                    if opt == res:
                        raise Unsupported("try_fold over an empty iterator (Option or Result?)")
                    kind = "Some" if opt else "Ok"
                return (kind, acc)
        return _NOIMPL


_NOIMPL = object()


class Dual:
    """the plain evaluator where it suffices (it is several times faster on the 256x256 sweeps), the one with the std models for a function
    whose source needs them; both give a function the same value wherever both are defined"""
    def __init__(self, src, ev):
        self.fast = Interp(src)
        self.fast.extern_fns.update(ev.extern_fns)
        self.ev = ev
        self.slow = set()
        self.seen = set()

    @property
    def steps(self):
        return self.fast.steps + self.ev.steps

    def find_fn(self, *a, **kw):
        return self.fast.find_fn(*a, **kw)

    def default_of(self, ty):
        try:
            return self.fast.default_of(ty)
        except Unsupported:
            return self.ev.default_of(ty)

    def const(self, impl_self, name, file=None):
        try:
            return self.fast.const(impl_self, name, file)
        except Unsupported:
            return self.ev.const(impl_self, name, file)

    def call(self, impl_self, name, args, impl_trait=None, file=None):
        f = self.fast.find_fn(impl_self, name, impl_trait, file)
        if f is None:
            raise Unsupported("fn %s::%s not found" % (impl_self, name))
        return self.call_item(f[2], impl_self, args, f[0])

    def call_item(self, item, impl_self, args, file=None, memo=True):
        key = id(item)
        if key in self.slow:
            return self.ev.call_item(item, impl_self, args, file, memo)
        saved = None
        if key not in self.seen:
            saved = [copyv(a) for a in args]
        try:
            r = self.fast.call_item(item, impl_self, args, file, memo)
            self.seen.add(key)
            return r
        except Unsupported:
            if saved is None and any(i["ty"].startswith("&mut") for i in item["sig"]["inputs"]):
                raise
            self.slow.add(key)
            if saved is not None:
                for a, b in zip(args, saved):
                    if isinstance(a, StructV):
                        a.ty, a.fields = b.ty, b.fields
            return self.ev.call_item(item, impl_self, args, file, memo)


# ------------------------------------------------------------------------------------------ (a) the SGR round trip, by evaluation
ESC_CSI = b"\x1b["
SEP = ord(";")           # ECMA-48 5.4.2: parameter sub-strings are separated by 03/11
SUBSEP = ord(":")        # ... 03/10 separates the parts of one parameter sub-string (ITU T.416 colour form)
RGB = (11, 22, 66)       # three distinct components, none of them a SGR code the decoder knows (so a stray component cannot pass for an attribute)
UCONST = {"Straight": "UNDERLINE", "Double": "UNDERLINE_DOUBLE", "Curly": "UNDERLINE_CURLY", "Dotted": "UNDERLINE_DOTTED", "Dashed": "UNDERLINE_DASHED"}
FLAG_NAMES = ["BOLD", "ITALIC", "BLINK", "REVERSE", "STRIKE"]


def colour(rgb=RGB):
    return ("RGBA",) + tuple(rgb) + (255,)


def sgr_payload(out):
    """parameter bytes of `ESC [ <parameters> m`; None when `out` is not one SGR control sequence"""
    if len(out) >= 3 and out[:2] == ESC_CSI and out[-1:] == b"m" and all(0x30 <= c <= 0x3f for c in out[2:-1]):
        return out[2:-1]
    return None


def shb(b):
    return "".join("ESC" if c == 0x1b else chr(c) if 32 <= c < 127 else "\\x%02x" % c for c in b) or "(nothing)"


def mod_text(m):
    """FaceModify record / other value in few words"""
    if not isinstance(m, StructV):
        return str(m)
    parts = []
    for k2, v in m.fields.items():
        if v is False or v == NONE:
            continue
        if isinstance(v, tuple) and v and v[0] == "Some":
            v = v[1]
        if isinstance(v, tuple) and v and v[0] == "RGBA":
            v = "rgb(%d,%d,%d)" % v[1:4]
        parts.append("%s=%s" % (k2, v.name if isinstance(v, EnumV) else str(v).lower() if isinstance(v, bool) else v))
    return "{%s}" % ", ".join(parts)


class SgrWorld:
    """the encoder and decoder entry points as evaluable items, and constructors for their inputs"""
    def __init__(self, it, src):
        self.it = it
        self.src = src
        self.problems = []
        self.enc = it.find_fn("TTYEncoder", "encode", "Encoder") or it.find_fn("TTYEncoder", "encode")
        self.new = it.find_fn("TTYEncoder", "new")
        self.sgr_face = it.find_fn(None, "sgr_face", file=DEC) or it.find_fn(None, "sgr_face")
        self.decode = it.find_fn("GraphicRenditionMatcher", "decode", "Matcher") or it.find_fn("GraphicRenditionMatcher", "decode")
        self.st_mod = src.struct("FaceModify")
        self.st_face = src.struct("Face")
        self.st_enc = src.struct("TTYEncoder")
        self.st_caps = src.struct("TerminalCaps")
        self.en_style = src.enum("UnderlineStyle")
        self.en_cmd = src.enum("TerminalCommand")
        self.en_depth = src.enum("ColorDepth")
        for name, v in (("TTYEncoder::encode", self.enc), ("sgr_face", self.sgr_face), ("GraphicRenditionMatcher::decode", self.decode), ("struct FaceModify", self.st_mod),
                        ("struct Face", self.st_face), ("struct TTYEncoder", self.st_enc), ("struct TerminalCaps", self.st_caps), ("enum UnderlineStyle", self.en_style),
                        ("enum TerminalCommand", self.en_cmd), ("enum ColorDepth", self.en_depth)):
            if v is None:
                self.problems.append(name)
        self.ok = not self.problems
        if not self.ok:
            return
        self.styles = [v["name"] for v in self.en_style[1]["variants"]]
        self.fm_fields = {f["name"]: f["ty"].replace(" ", "") for f in self.st_mod[1]["fields"]}
        self.bool_fields = [n for n, t in self.fm_fields.items() if t == "Option<bool>"]
        self.colour_fields = [n for n, t in self.fm_fields.items() if t == "Option<RGBA>"]
        self.cmd_variants = [v["name"] for v in self.en_cmd[1]["variants"]]
        if "TrueColor" not in [v["name"] for v in self.en_depth[1]["variants"]]:
            self.problems.append("ColorDepth::TrueColor")
            self.ok = False

    # ---- inputs
    def caps(self):
        fields = {}
        for f in self.st_caps[1]["fields"]:
            ty = f["ty"].replace(" ", "")
            fields[f["name"]] = EnumV("ColorDepth", "TrueColor") if ty == "ColorDepth" else self.it.default_of(ty)
        return StructV("TerminalCaps", fields)

    def encoder(self):
        it = self.it
        caps = self.caps()
        if self.new is not None and [i["name"] for i in self.new[2]["sig"]["inputs"]] != ["self"] and len(self.new[2]["sig"]["inputs"]) == 1:
            return it.call_item(self.new[2], "TTYEncoder", [caps], self.new[0], memo=False)
        fields = {}
        for f in self.st_enc[1]["fields"]:
            ty = f["ty"].replace(" ", "")
            fields[f["name"]] = caps if ty == "TerminalCaps" else it.default_of(ty)
        return StructV("TTYEncoder", fields)

    def mod(self, **kw):
        m = self.it.default_of("FaceModify")
        for k2, v in kw.items():
            m.fields[k2] = v
        return m

    def face(self, fg=NONE, bg=NONE, bits=0):
        return StructV("Face", {"fg": fg, "bg": bg, "attrs": StructV("FaceAttrs", {"bits": bits})})

    # ---- the two functions
    def encode(self, variant, *payload):
        """bytes written by TTYEncoder::encode (true-colour capabilities, fresh encoder) for TerminalCommand::<variant>(payload..)"""
        it = self.it
        cmd = VariantV("TerminalCommand", variant, list(payload)) if payload else EnumV("TerminalCommand", variant)
        sink = Sink()
        r = it.call_item(self.enc[2], "TTYEncoder", [self.encoder(), sink, cmd], self.enc[0], memo=False)
        if r != ("Ok", ()):
            raise Unsupported("encode returned %r" % (r,))
        return bytes(sink.data)

    def read(self, payload):
        """record sgr_face yields for the parameter bytes"""
        return self.it.call_item(self.sgr_face[2], None, [bytes(payload)], self.sgr_face[0])

    def read_sequence(self, out):
        """GraphicRenditionMatcher::decode on a whole `ESC [ .. m`"""
        return self.it.call_item(self.decode[2], "GraphicRenditionMatcher", [StructV("GraphicRenditionMatcher", {}), bytes(out)], self.decode[0])


def sgr_rules(ctx, it, src, ref):
    """rules SGR-TABLE / SGR-COLOR / SGR-FRAME; returns True when everything was evaluable"""
    ctx.rule("SGR-TABLE", "every face modification a FaceModify can express, and every Face attribute, is written by TTYEncoder::encode (true colour) as an SGR sequence that "
                          "sgr_face reads back as the same field and value; a later reset parameter discards what was read before it", floor=31)
    ctx.rule("SGR-COLOR", "true-colour form <38|48|58>;2;r;g;b: each role and the component order are read back, also when another parameter follows; the ';' form is the one read; "
                          "components > 255 yield no colour", floor=7)
    ctx.rule("SGR-FRAME", "the output is one ESC [ p1 ; p2 .. m with the reset parameter first; the parameters of a combined change are those of its parts joined by ';'; "
                          "the decoder hands exactly the parameter bytes to sgr_face", floor=5)
    w = SgrWorld(it, src)
    if not w.ok:
        ctx.anchor("SGR-TABLE", "encoder-arms/sgr_face", "not found: %s" % ", ".join(w.problems))
        return False
    ok_all = [True]
    reported = set()

    def violation(rule, where, label, msg, sites, **kw):
        if (rule, where, label) in reported:
            return
        reported.add((rule, where, label))
        ctx.violation(rule, where, label, msg, sites=sites, **kw)

    def guarded(where, what, fn):
        """value of fn(), or None after an anchor when the source leaves the evaluable subset / panics"""
        try:
            return fn()
        except Panic as ex:
            ok_all[0] = False
            violation("SGR-TABLE", where, "panics", "%s panics: %s" % (what, ex), [ENC])
        except Unsupported as ex:
            ok_all[0] = False
            if (where, "not-evaluable") not in reported:
                reported.add((where, "not-evaluable"))
                ctx.anchor("SGR-TABLE", where + "/not-evaluable", "%s is not evaluable (construct outside the modelled subset, fail closed): %s" % (what, ex))
        return None

    enc_site = ["%s:%d" % (w.enc[0], w.enc[2]["line"])]
    dec_site = ["%s:%d" % (w.sgr_face[0], w.sgr_face[2]["line"])]
    C = colour()

    # ------------------------------------------------------------ rows: what a FaceModify / a Face can express
    fm_rows = [("reset", "True", {"reset": True}, "reset")]
    fm_rows += [(c, None, {c: some(C)}, "%s-colour" % c) for c in w.colour_fields]
    fm_rows += [("underline", s, {"underline": some(EnumV("UnderlineStyle", s))}, "underline-%s" % s) for s in w.styles]
    fm_rows += [(b, str(v), {b: some(v)}, "%s-%s" % (b, "on" if v else "off")) for b in w.bool_fields for v in (True, False)]

    flag_bits = {}
    for cn in FLAG_NAMES:
        v = guarded("FaceAttrs", "FaceAttrs::" + cn, lambda: it.const("FaceAttrs", cn))
        if isinstance(v, StructV) and isinstance(v.fields.get("bits"), int):
            flag_bits[cn] = v.fields["bits"]
    style_bits = {}
    for s, cn in UCONST.items():
        v = guarded("FaceAttrs", "FaceAttrs::" + cn, lambda: it.const("FaceAttrs", cn))
        if isinstance(v, StructV) and isinstance(v.fields.get("bits"), int):
            style_bits[s] = v.fields["bits"]
    face_rows = [("reset", w.face(), {}, "reset")]
    face_rows += [(c, w.face(**{c: some(C)}), {c: some(C)}, "%s-colour" % c) for c in ("fg", "bg")]
    face_rows += [("underline", w.face(bits=style_bits[s]), {"underline": some(EnumV("UnderlineStyle", s))}, "underline-%s" % s) for s in w.styles if s in style_bits]
    for cn in FLAG_NAMES:
        if cn in flag_bits:
            fld = cn.lower()
            face_rows.append((fld if fld in w.fm_fields else "attrs:" + cn, w.face(bits=flag_bits[cn]), {fld: some(True)} if fld in w.fm_fields else {}, "%s-on" % fld if fld in w.fm_fields else "%s-misread" % cn))
    if len(flag_bits) != len(FLAG_NAMES) or len(style_bits) != len(UCONST):
        ctx.anchor("SGR-TABLE", "FaceAttrs-constants", "attribute constants of FaceAttrs not found: %s" % sorted(set(FLAG_NAMES + list(UCONST.values())) - set(flag_bits) - {UCONST[s] for s in style_bits}))
        ok_all[0] = False

    single = {}          # label -> (payload, record) of the FaceModify rows that round-trip

    def chunks_of(payload):
        return payload.split(bytes([SEP]))

    # ------------------------------------------------------------ SGR-TABLE, one row at a time
    for arm_name in ("FaceModify", "Face"):
        where = "TTYEncoder::encode/" + arm_name
        rows = fm_rows if arm_name == "FaceModify" else face_rows
        framing_ok = True
        reset_first = True
        reset_payload = None
        order = []
        for row in rows:
            fld, val, kw, label = row[0], row[1], row[2], row[3]
            if arm_name == "FaceModify":
                arg = w.mod(**kw)
                want = arg
            else:
                arg = row[1]
                want = w.mod(reset=True, **kw)
                val = "True" if kw else None
            out = guarded(where, "TTYEncoder::encode(%s(%s))" % (arm_name, mod_text(arg) if arm_name == "FaceModify" else label), lambda: w.encode(arm_name, arg))
            if out is None:
                ctx.instance("SGR-TABLE", {"arm": arm_name, "row": label, "evaluable": False})
                continue
            if out == b"":
                ctx.instance("SGR-TABLE", {"arm": arm_name, "row": label, "written": ""})
                violation("SGR-TABLE", where, "missing-%s-%s" % (fld, val), "%s.%s = %s is never written by the encoder (nothing is emitted)" % (arm_name, fld, val), enc_site)
                continue
            payload = sgr_payload(out)
            if payload is None:
                framing_ok = False
                ctx.instance("SGR-TABLE", {"arm": arm_name, "row": label, "written": shb(out), "framed": False})
                violation("SGR-FRAME", where, "framing", "%s is written as %s, which is not one ESC [ <parameters> m sequence" % (label, shb(out)), enc_site)
                continue
            got = guarded("decoder::sgr_face", "sgr_face(%s)" % shb(payload), lambda: w.read(payload))
            ctx.instance("SGR-TABLE", {"arm": arm_name, "row": label, "written": shb(out), "read_back": mod_text(got)}, nontrivial=bool(kw) or arm_name == "FaceModify")
            if got is None:
                continue
            if not isinstance(got, StructV) or got.ty != "FaceModify":
                ok_all[0] = False
                ctx.anchor("SGR-TABLE", "sgr_face-result", "sgr_face does not yield a FaceModify record: %r" % (got,))
                break
            order.append(label)
            if label == "reset":
                reset_payload = payload
            elif reset_payload is not None and arm_name == "Face" and chunks_of(payload)[:len(chunks_of(reset_payload))] != chunks_of(reset_payload):
                reset_first = False
            if got == want:
                if arm_name == "FaceModify":
                    single[label] = (payload, want, fld)
                continue
            if fld.startswith("attrs:"):
                violation("SGR-TABLE", where, label, "attribute %s (not expressible by FaceModify) is written as %s and read back as %s" % (fld[6:], shb(payload), mod_text(got)), enc_site)
            elif kw and list(kw)[0] in w.colour_fields and label.endswith("-colour"):
                c = list(kw)[0]
                elsewhere = [o for o in w.colour_fields if o != c and got.fields.get(o) != NONE]
                if got.fields.get(c) == NONE and elsewhere:
                    violation("SGR-TABLE", where, label, "colour field %s is written as %s and read back as %s" % (c, shb(payload), mod_text(got)), enc_site)
                else:
                    # right role (or no colour at all): a matter of the colour sub-protocol; does the ':' form fare better?
                    alt = payload.replace(bytes([SEP]), bytes([SUBSEP]))
                    if arm_name == "Face":
                        alt = bytes([SEP]).join([ch for ch in chunks_of(payload)[:1]] + [bytes([SUBSEP]).join(chunks_of(payload)[1:])])
                    got2 = guarded("decoder::sgr_face", "sgr_face(%s)" % shb(alt), lambda: w.read(alt))
                    if got2 is not None and got2.fields.get(c) == some(C) and got.fields.get(c) == NONE:
                        violation("SGR-COLOR", "decoder::sgr_face", "thunk-iterators",
                                  "the encoder writes %s as %s (parameters separated by ';') but sgr_face reads a colour only from the ':' form: %s gives %s, %s gives %s"
                                  % (c, shb(payload), shb(payload), mod_text(got), shb(alt), mod_text(got2)), dec_site)
                    else:
                        violation("SGR-COLOR", "decoder::sgr_color", "component-order", "%s written for %s = rgb(%d,%d,%d) is read back as %s" % ((shb(payload), c) + RGB + (mod_text(got),)), dec_site,
                                  detail={"written": shb(payload), "read": mod_text(got)})
            else:
                violation("SGR-TABLE", where, label, "%s is written as SGR %s which sgr_face reads as %s" % (mod_text(want), shb(payload), mod_text(got)), enc_site,
                          detail={"written": shb(out), "want": mod_text(want), "read": mod_text(got)})
        # ---- SGR-FRAME per arm
        if arm_name == "FaceModify":
            # reset + one more field: the reset parameter must come first; any two fields: their parameters joined by ';'
            labels = [l for l in single if l != "reset"]
            checked = 0
            if "reset" in single:
                for l in labels:
                    m = w.mod(reset=True, **{single[l][2]: single[l][1].fields[single[l][2]]})
                    out = guarded(where, "TTYEncoder::encode(FaceModify(%s))" % mod_text(m), lambda: w.encode("FaceModify", m))
                    p = sgr_payload(out) if out is not None else None
                    if p is None:
                        if out is not None:
                            framing_ok = False
                            violation("SGR-FRAME", where, "framing", "%s is written as %s, which is not one ESC [ <parameters> m sequence" % (mod_text(m), shb(out)), enc_site)
                        continue
                    checked += 1
                    if p == bytes([SEP]).join([single["reset"][0], single[l][0]]):
                        continue
                    if p == bytes([SEP]).join([single[l][0], single["reset"][0]]):
                        reset_first = False
                        got = guarded("decoder::sgr_face", "sgr_face(%s)" % shb(p), lambda: w.read(p))
                        violation("SGR-FRAME", where, "reset-not-first", "the reset parameter must be the first one (sgr_face's reset discards every field decoded before it): %s is written as %s "
                                  "and read back as %s" % (mod_text(m), shb(out), mod_text(got)), enc_site)
                    else:
                        framing_ok = False
                        violation("SGR-FRAME", where, "framing", "%s is written as %s: not the parameters of its parts (%s and %s) joined by ';'" % (mod_text(m), shb(out), shb(single["reset"][0]), shb(single[l][0])), enc_site)
            ctx.instance("SGR-FRAME", {"arm": arm_name, "reset_first": reset_first and "reset" in single, "combinations": checked})
        else:
            ctx.instance("SGR-FRAME", {"arm": arm_name, "reset_first": reset_first and reset_payload is not None, "rows": len(order)})
            if not reset_first:
                violation("SGR-FRAME", where, "reset-not-first", "every Face must be written with the reset parameter (%s) first" % shb(reset_payload), enc_site)
        ctx.instance("SGR-FRAME", {"arm": arm_name, "framing": "ESC [ .. m", "ok": framing_ok})

    # ------------------------------------------------------------ pairs of fields through the whole round trip (FaceModify arm)
    where = "TTYEncoder::encode/FaceModify"
    labels = [l for l in single if l != "reset"]
    n_pairs = 0
    followers = {}
    for i, la in enumerate(labels):
        for lb in labels[i + 1:]:
            fa, fb = single[la][2], single[lb][2]
            if fa == fb:
                continue
            m = w.mod(**{fa: single[la][1].fields[fa], fb: single[lb][1].fields[fb]})
            out = guarded(where, "TTYEncoder::encode(FaceModify(%s))" % mod_text(m), lambda: w.encode("FaceModify", m))
            if out is None:
                continue
            p = sgr_payload(out)
            pa, pb = single[la][0], single[lb][0]
            joined = {bytes([SEP]).join([pa, pb]): (la, lb), bytes([SEP]).join([pb, pa]): (lb, la)}
            if p is None or p not in joined:
                violation("SGR-FRAME", where, "framing", "%s is written as %s: not the parameters of its parts (%s and %s) joined by ';'" % (mod_text(m), shb(out), shb(pa), shb(pb)), enc_site)
                continue
            n_pairs += 1
            first, second = joined[p]
            followers.setdefault(first, []).append(second)
            got = guarded("decoder::sgr_face", "sgr_face(%s)" % shb(p), lambda: w.read(p))
            if got is None or got == m:
                continue
            if first.endswith("-colour"):
                violation("SGR-COLOR", "decoder::sgr_color", "swallows-next-parameter",
                          "the encoder writes a colour and continues with the next field, but the decoder does not stop after the colour's own parameters: %s is written as %s and read back as %s"
                          % (mod_text(m), shb(out), mod_text(got)), dec_site, detail={"written": shb(out), "read": mod_text(got)})
            else:
                violation("SGR-TABLE", where, "%s+%s" % (first, second), "%s is written as %s and read back as %s (each part alone is read back)" % (mod_text(m), shb(out), mod_text(got)), enc_site)
    col_labels = [l for l in labels if l.endswith("-colour")]
    ctx.instance("SGR-COLOR", {"case": "a colour followed by another parameter", "pairs_evaluated": n_pairs,
                               "colour_fields_followed_by": {l: followers.get(l, [])[:3] for l in col_labels}})
    # everything at once
    if single:
        kw = {}
        for l, (p, rec, fld) in single.items():
            kw.setdefault(fld, rec.fields[fld])
        m = w.mod(**kw)
        out = guarded(where, "TTYEncoder::encode(FaceModify(%s))" % mod_text(m), lambda: w.encode("FaceModify", m))
        p = sgr_payload(out) if out is not None else None
        got = guarded("decoder::sgr_face", "sgr_face(%s)" % shb(p), lambda: w.read(p)) if p is not None else None
        ctx.instance("SGR-TABLE", {"arm": "FaceModify", "row": "all fields at once", "written": shb(out or b""), "read_back": mod_text(got)})
        if got is not None and got != m:
            violation("SGR-TABLE", where, "all-fields", "%s is written as %s and read back as %s" % (mod_text(m), shb(out), mod_text(got)), enc_site)
    if flag_bits and style_bits:
        bits = 0
        kw = {"fg": some(C), "bg": some(colour((66, 11, 22)))}
        for cn, b in flag_bits.items():
            bits |= b
            if cn.lower() in w.fm_fields:
                kw[cn.lower()] = some(True)
        st = sorted(style_bits)[0]
        kw["underline"] = some(EnumV("UnderlineStyle", st))
        f = w.face(fg=kw["fg"], bg=kw["bg"], bits=bits | style_bits[st])
        out = guarded("TTYEncoder::encode/Face", "TTYEncoder::encode(Face(all attributes))", lambda: w.encode("Face", f))
        p = sgr_payload(out) if out is not None else None
        got = guarded("decoder::sgr_face", "sgr_face(%s)" % shb(p), lambda: w.read(p)) if p is not None else None
        want = w.mod(reset=True, **kw)
        ctx.instance("SGR-TABLE", {"arm": "Face", "row": "all attributes at once", "written": shb(out or b""), "read_back": mod_text(got)})
        if got is not None and got != want:
            if got.fields.get("fg") != want.fields.get("fg") or got.fields.get("bg") != want.fields.get("bg"):
                violation("SGR-COLOR", "decoder::sgr_color", "swallows-next-parameter", "a Face with colours and attributes is written as %s and read back as %s, expected %s"
                          % (shb(out), mod_text(got), mod_text(want)), dec_site)
            else:
                violation("SGR-TABLE", "TTYEncoder::encode/Face", "all-attributes", "a Face with every attribute is written as %s and read back as %s, expected %s"
                          % (shb(out), mod_text(got), mod_text(want)), enc_site)

    # ------------------------------------------------------------ the decoder on two parameters: later overrides earlier, reset discards
    n_seq = 0
    for la, (pa, ra, fa) in single.items():
        for lb, (pb, rb, fb) in single.items():
            p = bytes([SEP]).join([pa, pb])
            got = guarded("decoder::sgr_face", "sgr_face(%s)" % shb(p), lambda: w.read(p))
            if got is None:
                continue
            n_seq += 1
            if lb == "reset":
                want = rb
            else:
                want = copyv(ra)
                want.fields[fb] = rb.fields[fb]
            if got != want:
                if lb == "reset":
                    violation("SGR-TABLE", "TTYEncoder::encode/FaceModify", "reset", "a reset parameter must discard what was read before it: %s is read as %s, expected %s" % (shb(p), mod_text(got), mod_text(want)), dec_site)
                else:
                    violation("SGR-TABLE", "decoder::sgr_face", "later-overrides-earlier", "%s is read as %s, expected %s" % (shb(p), mod_text(got), mod_text(want)), dec_site)
    ctx.instance("SGR-TABLE", {"decoder": "two parameters in sequence (later overrides earlier, reset discards)", "sequences": n_seq}, nontrivial=n_seq > 0)

    # ------------------------------------------------------------ SGR-COLOR
    prefixes = {}
    for c in w.colour_fields:
        l = "%s-colour" % c
        if l not in single:
            ctx.instance("SGR-COLOR", {"role": c, "read_back": False})
            continue
        payload = single[l][0]
        parts = chunks_of(payload)
        prefixes[c] = parts[0]
        # which parameter carries which component: change one component and see which parameter moves
        pos = {}
        for j in range(3):
            rgb2 = list(RGB)
            rgb2[j] += 1
            out = guarded(where, "TTYEncoder::encode(FaceModify{%s})" % c, lambda: w.encode("FaceModify", w.mod(**{c: some(colour(rgb2))})))
            p2 = chunks_of(sgr_payload(out) or b"") if out is not None else []
            diff = [k2 for k2 in range(min(len(parts), len(p2))) if parts[k2] != p2[k2]]
            if len(p2) == len(parts) and len(diff) == 1:
                pos[j] = diff[0]
        ctx.instance("SGR-COLOR", {"role": c, "written": shb(payload), "read_back": True, "component_parameters": [pos.get(j) for j in range(3)]})
        if len(pos) != 3:
            ctx.anchor("SGR-COLOR", "component-positions", "could not tell which parameter of %s carries which colour component" % shb(payload))
            ok_all[0] = False
            continue
        bad_over = None
        for j in range(3):
            for big in (256, 1000):
                ps = list(parts)
                ps[pos[j]] = str(big).encode()
                p = bytes([SEP]).join(ps)
                got = guarded("decoder::sgr_face", "sgr_face(%s)" % shb(p), lambda: w.read(p))
                if got is not None and got.fields.get(c) != NONE and bad_over is None:
                    bad_over = (j, big, p, got)
        ctx.instance("SGR-COLOR", {"role": c, "case": "component above 255", "rejected": bad_over is None})
        if bad_over is not None:
            violation("SGR-COLOR", "decoder::sgr_color", "component-overflow", "component %d = %d of a true-colour triple (%s) is read back as %s instead of being rejected (no colour)"
                      % (bad_over[0], bad_over[1], shb(bad_over[2]), mod_text(bad_over[3])), dec_site)
        # every value a component can take, in every position (the three positions are swept together, 85 apart)
        bad_val = None
        n_val = 0
        for v in range(256):
            rgb = (v, (v + 85) % 256, (v + 170) % 256)
            m = w.mod(**{c: some(colour(rgb))})
            out = guarded(where, "TTYEncoder::encode(FaceModify{%s: rgb%s})" % (c, rgb), lambda: w.encode("FaceModify", m))
            if out is None:
                break
            p = sgr_payload(out)
            got = guarded("decoder::sgr_face", "sgr_face(%s)" % shb(p), lambda: w.read(p)) if p is not None else None
            if p is not None and got is None:
                break
            n_val += 1
            if got != m:
                bad_val = (rgb, out, got)
                break
        ctx.instance("SGR-COLOR", {"role": c, "case": "every component value 0..=255 in every position", "colours": n_val, "ok": bad_val is None and n_val == 256})
        if bad_val is not None:
            violation("SGR-COLOR", "encoder::color_sgr_encode", "component-value", "%s = rgb(%d,%d,%d) is written as %s and read back as %s"
                      % ((c,) + bad_val[0] + (shb(bad_val[1]), mod_text(bad_val[2]))), enc_site, detail={"colour": list(bad_val[0]), "written": shb(bad_val[1]), "read": mod_text(bad_val[2])})
        # the ':' form of the same colour (informational: the encoder writes the ';' form)
        alt = payload.replace(bytes([SEP]), bytes([SUBSEP]))
        try:
            got2 = w.read(alt)
            ctx.instance("SGR-COLOR", {"role": c, "colon_form": shb(alt), "read_back": got2 == single[l][1]}, nontrivial=False)
        except Unsupported:
            pass
    if len(set(prefixes.values())) != len(prefixes):
        violation("SGR-COLOR", "encoder::color_sgr_encode", "prefix-not-distinct", "colour roles do not have distinct first parameters: %s" % {k2: shb(v) for k2, v in prefixes.items()}, [ENC])
    want_prefix = ref.get("sgr_colour_params", {}).get("role_prefix", {})
    ctx.instance("SGR-COLOR", {"first_parameter_per_role": {k2: shb(v) for k2, v in prefixes.items()}, "distinct": len(set(prefixes.values())) == len(prefixes), "xterm": want_prefix}, nontrivial=bool(prefixes))

    # ------------------------------------------------------------ the decoder slices ESC [ .. m
    n_dec = 0
    bad = None
    for l, (payload, rec, fld) in single.items():
        out = ESC_CSI + payload + b"m"
        got = guarded("GraphicRenditionMatcher::decode", "GraphicRenditionMatcher::decode(%s)" % shb(out), lambda: w.read_sequence(out))
        if got is None:
            break
        n_dec += 1
        if got != some(rec) and bad is None:
            bad = (out, got)
    ctx.instance("SGR-FRAME", {"decoder_payload": "GraphicRenditionMatcher::decode(ESC [ p m) == Some(sgr_face(p))", "sequences": n_dec, "ok": bad is None and n_dec > 0})
    if bad is not None:
        violation("SGR-FRAME", "GraphicRenditionMatcher::decode", "payload", "sgr_face is not given the bytes between ESC[ and the final m: decode(%s) = %s" % (shb(bad[0]), mod_text(bad[1][1]) if isinstance(bad[1], tuple) and len(bad[1]) == 2 else bad[1]), [DEC])
    # informational: the encoder's bold-off code
    if "bold-off" in single and single["bold-off"][0] != b"22":
        ctx.note("bold-off is written and read as SGR %s; ECMA-48/xterm use 22 for normal intensity (21 = doubly underlined). Self-consistent, so not reported under C06." % single["bold-off"][0].decode())
    return ok_all[0]


# ------------------------------------------------------------------------------------------ characters: the UTF-8 language
# RFC 3629 section 4, "Syntax of UTF-8 Byte Sequences" (ABNF UTF8-1 .. UTF8-4): one row per alternative, lead-byte range followed by the
# continuation-byte ranges; together the rows are exactly the encodings of the Unicode scalar values U+0000..U+D7FF, U+E000..U+10FFFF.
_TAIL = (0x80, 0xBF)
RFC3629_ROWS = [
    ("UTF8-1", [(0x00, 0x7F)]),
    ("UTF8-2", [(0xC2, 0xDF), _TAIL]),
    ("UTF8-3/E0", [(0xE0, 0xE0), (0xA0, 0xBF), _TAIL]),
    ("UTF8-3/E1-EC", [(0xE1, 0xEC), _TAIL, _TAIL]),
    ("UTF8-3/ED", [(0xED, 0xED), (0x80, 0x9F), _TAIL]),
    ("UTF8-3/EE-EF", [(0xEE, 0xEF), _TAIL, _TAIL]),
    ("UTF8-4/F0", [(0xF0, 0xF0), (0x90, 0xBF), _TAIL, _TAIL]),
    ("UTF8-4/F1-F3", [(0xF1, 0xF3), _TAIL, _TAIL, _TAIL]),
    ("UTF8-4/F4", [(0xF4, 0xF4), (0x80, 0x8F), _TAIL, _TAIL]),
]
ASCII = regex.cls_range(0x00, 0x7F)
ESC = 1 << 0x1B
# one-byte characters each consumer has to read back as a character (multi-byte rows are required of every consumer):
#   command decoder  - C06: "all characters except ESC";  Utf8Decoder (plain text writers) - every scalar value;
#   event decoder    - printable ASCII (control bytes are keys there, decoder.rs documents the UTF8Matcher as "one-byte codes are restricted to the printable set")
ONE_BYTE = {"command": ASCII & ~ESC, "utf8decoder": ASCII, "event": regex.cls_range(0x20, 0x7E)}


def _row_dfa(classes):
    return regex.compile_rx(regex.Rx("seq", [regex.Rx("pred", (), m) for m in classes]))


def _scalar(word):
    """code point denoted by a well-formed RFC 3629 sequence"""
    return ord(bytes(word).decode("utf-8"))


def _span_text(bs):
    """'f4' | 'e1..ec' | 'c2,c5' for a sorted list of byte values"""
    if not bs:
        return ""
    if bs == list(range(bs[0], bs[-1] + 1)):
        return "%02x" % bs[0] if len(bs) == 1 else "%02x..%02x" % (bs[0], bs[-1])
    return ",".join("%02x" % b for b in bs[:4]) + ("+%d" % (len(bs) - 4) if len(bs) > 4 else "")


def utf8_row_gaps(d, classes):
    """lead bytes of one RFC 3629 row some of whose sequences the DFA `d` does not accept: ([dead lead bytes], [(lead, witness word)] for
    leads that are live but lose some continuation), decided by language inclusion (product search), one lead byte at a time"""
    dead, partial = [], []
    lead = classes[0]
    while lead:
        w = regex.subset_witness(_row_dfa([lead] + list(classes[1:])), d)
        if w is None:
            break
        b = w[0]
        if d.step(d.start, b) < 0:
            dead.append(b)
        else:
            partial.append((b, bytes(w)))
        lead &= ~(1 << b)
    return dead, partial


def utf8_consumers(src, gs):
    """[(consumer, grammar name, role)] - which extracted UTF-8 grammar each decoder runs; problems as [(anchor, text)]"""
    out, problems = [], []
    for which, dec in (("command", "TTYCommandDecoder"), ("event", "TTYEventDecoder")):
        regs = [r for r in grammar.registrations(src, which) if r.impl == "UTF8Matcher"]
        if len(regs) != 1:
            problems.append((dec + "-utf8-matcher", "%s registers %d UTF8Matcher instances (expected exactly one)" % (dec, len(regs))))
            continue
        out.append((dec, regs[0].name, which))
    # the compiled helper static(s) that Utf8Decoder steps
    helpers = {n for n, g in gs.items() if g.kind == "helper"}
    used = []
    for (f, s, tr, item, t) in src.fns:
        if t or s is None or grammar.base_name(s) != "Utf8Decoder":
            continue
        for n in find_all(item["body"], lambda n: n.get("k") == "path" and n["p"] in helpers):
            if n["p"] not in used:
                used.append(n["p"])
    if len(used) != 1:
        problems.append(("Utf8Decoder-automaton", "Utf8Decoder steps %d compiled helper automata (expected exactly one): %s" % (len(used), used)))
    else:
        out.append(("Utf8Decoder", used[0], "utf8decoder"))
    return out, problems


def utf8_lang(ctx):
    src = ctx.src
    ctx.rule("UTF8-LANG", "the as-built UTF-8 grammar each decoder runs accepts the RFC 3629 encoding of every Unicode scalar value the decoder has to read back "
                          "(language inclusion per ABNF row; command decoder: all but ESC, also in the whole command automaton)", floor=28)
    try:
        gs = grammar.extract(src)
        consumers, problems = utf8_consumers(src, gs)
    except grammar.Unfoldable as ex:
        ctx.anchor("UTF8-LANG", "grammar-extraction", str(ex))
        return False
    for p in grammar.extraction_problems(src):
        ctx.anchor("UTF8-LANG", "grammar-extraction", p)
    for a, text in problems:
        ctx.anchor("UTF8-LANG", a, text)
    ok_all = not problems
    for dec, gname, role in consumers:
        g = gs.get(gname)
        if g is None or g.rx is None:
            ctx.anchor("UTF8-LANG", "grammar-" + gname, "grammar %s not folded: %s" % (gname, g.problem if g else "not extracted"))
            ok_all = False
            continue
        try:
            d = g.asbuilt_dfa
        except grammar.Unfoldable as ex:
            ctx.anchor("UTF8-LANG", "grammar-" + gname, str(ex))
            ok_all = False
            continue
        site = [g.site] if g.site else [DEC]
        for row, ranges in RFC3629_ROWS:
            classes = [regex.cls_range(lo, hi) for lo, hi in ranges]
            if len(classes) == 1:
                classes = [classes[0] & ONE_BYTE[role]]
            dead, partial = utf8_row_gaps(d, classes)
            ctx.instance("UTF8-LANG", {"decoder": dec, "grammar": gname, "row": row, "required": [regex.cls_text(m) for m in classes],
                                       "missing_leads": ["%02x" % b for b in dead], "partial_leads": ["%02x" % b for b, _ in partial]})
            L = len(classes)
            if dead:
                lo = _scalar([dead[0]] + [rg[0] for rg in ranges[1:]])
                hi = _scalar([dead[-1]] + [rg[1] for rg in ranges[1:]])
                ctx.violation("UTF8-LANG", gname, "%d-byte-lead-%s" % (L, _span_text(dead)),
                              "%s (grammar %s) does not accept lead byte(s) %s of RFC 3629 row %s: %s not read back as characters (%d lead bytes), e.g. %s"
                              % (dec, gname, _span_text(dead), row,
                                 "U+%04X" % lo if L == 1 and len(dead) == 1 else "U+%04X..=U+%04X" % (lo, hi) if dead == list(range(dead[0], dead[-1] + 1)) else "characters from U+%04X" % lo,
                                 len(dead), regex.bytes_text(bytes([dead[0]] + [rg[0] for rg in ranges[1:]]))),
                              sites=site, detail={"missing_lead_bytes": dead, "row": row})
            if partial:
                leads = [b for b, _ in partial]
                w = partial[0][1]
                ctx.violation("UTF8-LANG", gname, "%d-byte-continuation-after-%s" % (L, _span_text(leads)),
                              "%s (grammar %s) accepts lead byte(s) %s but not every continuation RFC 3629 row %s allows: e.g. %s = U+%04X is not accepted"
                              % (dec, gname, _span_text(leads), row, regex.bytes_text(w), _scalar(w)), sites=site, detail={"witness": list(w), "row": row})
            if dead or partial:
                ok_all = False
    # the whole command automaton (what TTYCommandDecoder steps): the union as written in MatcherAutomata::new still accepts every character
    cmd = [c for c in consumers if c[2] == "command"]
    st = grammar.extraction(src).statics_of.get("command")
    ug = gs.get(st[1]) if st else None
    if not cmd or ug is None or ug.rx is None:
        ctx.anchor("UTF8-LANG", "command-automaton", "the compiled automaton of TTYCommandDecoder was not extracted")
        return False
    try:
        ud = ug.asbuilt_dfa
    except grammar.Unfoldable as ex:
        ctx.anchor("UTF8-LANG", "command-automaton", str(ex))
        return False
    first = None
    for row, ranges in RFC3629_ROWS:
        classes = [regex.cls_range(lo, hi) for lo, hi in ranges]
        if len(classes) == 1:
            classes = [classes[0] & ONE_BYTE["command"]]
        w = regex.subset_witness(_row_dfa(classes), ud)
        if w is not None and first is None:
            first = (row, bytes(w))
    ctx.instance("UTF8-LANG", {"decoder": "TTYCommandDecoder", "automaton": ug.name, "accepts_every_scalar_but_ESC": first is None})
    if first is not None:
        ok_all = False
        ctx.violation("UTF8-LANG", ug.name, "%d-byte-lead-%02x" % (len(first[1]), first[1][0]),
                      "the command automaton %s does not accept %s = U+%04X (RFC 3629 row %s)" % (ug.name, regex.bytes_text(first[1]), _scalar(first[1]), first[0]),
                      sites=[ug.site] if ug.site else [DEC], detail={"witness": list(first[1])})
    return ok_all



# ------------------------------------------------------------------------------------------ (b) which flag an update moves
def apply_table(ctx, it, ap, asite, bool_fields, flag_bits):
    """APPLY-TABLE, observed: FaceModify{f: Some(v)}.apply on the all-clear and the all-set attribute state shows which flag bits the update of f
    sets / clears; the observed (update -> flag) relation must be name-consistent, injective and complete, Some(true) must set and Some(false) clear"""
    ctx.rule("APPLY-TABLE", "FaceModify::apply, observed on the all-clear and all-set attribute states: the update of bold/italic/blink/strike moves exactly the flag of "
                            "the same name (injective, complete); Some(true) sets it, Some(false) clears it", floor=6)
    names = {b: n for n, b in flag_bits.items()}
    all_bits = 0
    for b in flag_bits.values():
        all_bits |= b

    def effect(field, val, start_bits):
        m = it.default_of("FaceModify")
        m.fields[field] = some(val)
        face = StructV("Face", {"fg": NONE, "bg": NONE, "attrs": StructV("FaceAttrs", {"bits": start_bits})})
        r = it.call_item(ap[1], "FaceModify", [m, face], ap[0], memo=False)
        return r.fields["attrs"].fields["bits"]

    def flags(mask):
        return sorted(names[b] for b in names if mask & b)
    moved = {}
    ok = True
    for f in bool_fields:
        try:
            set_by_true = effect(f, True, 0)                     # bits that appear
            clr_by_true = all_bits & ~effect(f, True, all_bits)    # bits that vanish
            set_by_false = effect(f, False, 0)
            clr_by_false = all_bits & ~effect(f, False, all_bits)
        except Unsupported as ex:
            ctx.anchor("APPLY-TABLE", "apply-not-evaluable", "FaceModify::apply not evaluable: %s" % ex)
            return False
        ctx.instance("APPLY-TABLE", {"update": f, "Some(true)": {"sets": flags(set_by_true), "clears": flags(clr_by_true)},
                                     "Some(false)": {"sets": flags(set_by_false), "clears": flags(clr_by_false)}})
        want = f.upper()
        touched = set(flags(set_by_true | clr_by_true | set_by_false | clr_by_false))
        moved[f] = touched
        if not touched:
            ok = False
            continue            # reported as coverage below
        if touched != {want}:
            ok = False
            for cname in sorted(touched - {want}):
                ctx.violation("APPLY-TABLE", "FaceModify::apply", "%s->%s" % (f, cname),
                              "the update of `%s` is applied to FaceAttrs::%s (expected FaceAttrs::%s): e.g. %s=Some(true) on the default face sets %s"
                              % (f, cname, want, f, ", ".join(x.lower() for x in flags(set_by_true)) or "nothing"), sites=asite)
            if want not in touched:
                continue
        if flags(set_by_true) != [want] or clr_by_true or set_by_false or flags(clr_by_false) != [want]:
            if touched == {want}:
                ok = False
                ctx.violation("APPLY-TABLE", "FaceModify::apply", "set-clear-arms", "Some(true) must insert and Some(false) must remove the flag on face.attrs: %s: Some(true) sets %s clears %s, "
                              "Some(false) sets %s clears %s" % (f, flags(set_by_true), flags(clr_by_true), flags(set_by_false), flags(clr_by_false)), sites=asite)
    untouched = [f for f in bool_fields if not moved.get(f)]
    cover = not untouched
    seen = {}
    dup = []
    for f, t in moved.items():
        for c in t:
            if c in seen:
                dup.append((seen[c], f, c))
            seen[c] = f
    ctx.instance("APPLY-TABLE", {"injective": not dup, "covers": cover, "option_bool_fields": bool_fields})
    ctx.instance("APPLY-TABLE", {"observed": {f: sorted(t) for f, t in moved.items()}, "ok": ok and cover and not dup})
    if not cover:
        ctx.violation("APPLY-TABLE", "FaceModify::apply", "coverage", "the updates of %s change no attribute: apply does not cover the Option<bool> fields %s" % (untouched, bool_fields), sites=asite)
    if dup and all(c == f.upper() or c == g.upper() for g, f, c in dup):
        ctx.violation("APPLY-TABLE", "FaceModify::apply", "duplicate-flag", "two updates move the same flag: %s" % dup, sites=asite)
    return ok and cover and not dup


# ------------------------------------------------------------------------------------------ (b') apply on the whole product of modifications
APPLY_PRODUCT_DESC = ("FaceModify::apply equals the SGR reference (reset -> default face first; then fg/bg replaced when Some; underline style replaced when Some, keeping the "
                      "flags of the possibly reset face; each flag set/cleared independently) on EVERY combination reset{0,1} x fg{None,Some} x bg{None,Some} x "
                      "underline{None,Some(each style)} x each flag update{None,Some(true),Some(false)} x 4 incoming faces (default; all flags + style + colours; two "
                      "complementary partial faces): the fields of one modification do not interfere (a reset is not undone by another parameter of the same sequence)")
APPLY_PRODUCT_FLOOR = 14      # 2 (reset) x 7 (underline: None + 6 styles) slices, each = 4 (colours) x 81 (flag updates) x 4 (incoming faces) evaluations


def apply_product(ctx, it, ap, asite, fm_fields, bool_fields, styles, flag_bits, flag_names):
    """APPLY-PRODUCT: one SGR sequence is decoded into ONE FaceModify that may carry reset, colours, an underline style and flag updates at once
    (the library's own Face output is always `ESC[0;..m`, i.e. reset + everything else), so `apply` must be right on combinations, not only on
    single fields.  The whole finite product is evaluated against a reference model written here; the smallest disagreeing combination is reported."""
    ctx.rule("APPLY-PRODUCT", APPLY_PRODUCT_DESC, floor=APPLY_PRODUCT_FLOOR)
    ca, cb, cn1, cn2 = ("RGBA", 1, 2, 3, 255), ("RGBA", 4, 5, 6, 255), ("RGBA", 7, 8, 9, 255), ("RGBA", 10, 11, 12, 255)
    fbit = {bf: flag_bits.get(bf.upper(), 0) >> 3 for bf in bool_fields}
    allf = 0
    for n in flag_names:
        allf |= flag_bits[n] >> 3
    order = sorted(flag_bits[n] >> 3 for n in flag_names)
    odd = 0
    for j, b in enumerate(order):
        if j % 2 == 0:
            odd |= b
    ns = len(styles)
    faces = [(NONE, NONE, 0, 0),
             (some(ca), some(cb), ns // 2, allf),
             (some(ca), NONE, ns - 1, odd),
             (NONE, some(cb), 0, allf & ~odd)]
    opt3 = (None, True, False)

    def flag_updates(k):
        if k == 0:
            yield ()
            return
        for rest in flag_updates(k - 1):
            for v in opt3:
                yield rest + (v,)
    mods = []
    for reset in (False, True):
        for fg in (False, True):
            for bg in (False, True):
                for u in [None] + list(range(ns)):
                    for fu in flag_updates(len(bool_fields)):
                        active = (["reset"] if reset else []) + (["fg"] if fg else []) + (["bg"] if bg else []) + (["underline"] if u is not None else []) + \
                                 [bf for bf, v in zip(bool_fields, fu) if v is not None]
                        mods.append((len(active), len(mods), active, reset, fg, bg, u, fu))
    mods.sort(key=lambda m: (m[0], m[1]))          # smallest combinations first: the first disagreement per component is a minimal one

    def want_of(reset, fg, bg, u, fu, face):
        wfg, wbg, wu, wfl = (NONE, NONE, 0, 0) if reset else face
        if fg:
            wfg = some(cn1)
        if bg:
            wbg = some(cn2)
        if u is not None:
            wu = u
        for bf, v in zip(bool_fields, fu):
            if v is True:
                wfl |= fbit[bf]
            elif v is False:
                wfl &= ~fbit[bf]
        return (wfg, wbg, wu, wfl)

    def face_txt(s):
        return "{fg=%s, bg=%s, underline=%s, flags=%s}" % ("-" if s[0] == NONE else "c%d" % s[0][1][1] if isinstance(s[0], tuple) and isinstance(s[0][1], tuple) else "set",
                                                          "-" if s[1] == NONE else "c%d" % s[1][1][1] if isinstance(s[1], tuple) and isinstance(s[1][1], tuple) else "set",
                                                          styles[s[2]] if s[2] < ns else s[2],
                                                          "+".join(n.lower() for n in flag_names if s[3] & (flag_bits[n] >> 3)) or "-")
    comps = ("fg", "bg", "underline", "flags")
    first_bad = {}
    slices = {}
    evals = 0
    try:
        for _n, _i, active, reset, fg, bg, u, fu in mods:
            for face in faces:
                m = it.default_of("FaceModify")
                m.fields["reset"] = reset
                if fg:
                    m.fields["fg"] = some(cn1)
                if bg:
                    m.fields["bg"] = some(cn2)
                if u is not None:
                    m.fields["underline"] = some(EnumV("UnderlineStyle", styles[u]))
                for bf, v in zip(bool_fields, fu):
                    if v is not None:
                        m.fields[bf] = some(v)
                fv = StructV("Face", {"fg": face[0], "bg": face[1], "attrs": StructV("FaceAttrs", {"bits": face[2] | (face[3] << 3)})})
                r = it.call_item(ap[1], "FaceModify", [m, fv], ap[0], memo=False)
                if not (isinstance(r, StructV) and isinstance(r.fields.get("attrs"), StructV)):
                    raise Unsupported("apply does not return a Face value: %s" % (r,))
                bits = r.fields["attrs"].fields["bits"]
                got = (r.fields["fg"], r.fields["bg"], bits & 7, bits >> 3)
                want = want_of(reset, fg, bg, u, fu, face)
                evals += 1
                sl = slices.setdefault((reset, u), [0, 0])
                sl[0] += 1
                if got != want:
                    sl[1] += 1
                    for ci, c in enumerate(comps):
                        if got[ci] != want[ci] and c not in first_bad:
                            first_bad[c] = (active, mod_desc(reset, fg, bg, u, fu, bool_fields, styles), face, got, want)
    except Unsupported as ex:
        ctx.anchor("APPLY-PRODUCT", "apply-not-evaluable", "FaceModify::apply not evaluable on a combined modification: %s" % ex)
        return False
    for (reset, u), (n, nbad) in sorted(slices.items(), key=lambda kv: (kv[0][0], -1 if kv[0][1] is None else kv[0][1])):
        ctx.instance("APPLY-PRODUCT", {"reset": reset, "underline": "None" if u is None else "Some(%s)" % styles[u], "evaluations": n, "disagreeing": nbad})
    for c in comps:
        if c not in first_bad:
            continue
        active, desc, face, got, want = first_bad[c]
        ctx.violation("APPLY-PRODUCT", "FaceModify::apply", "%s:%s" % ("+".join(active) or "identity", c),
                      "FaceModify{%s}.apply(%s) = %s, SGR semantics require %s: the %s of the result is wrong when these fields of one modification are combined "
                      "(smallest disagreeing combination of %d evaluated)" % (desc, face_txt(face), face_txt(got), face_txt(want), c, evals), sites=asite,
                      detail={"modification": desc, "start": face_txt(face), "got": face_txt(got), "want": face_txt(want)})
    return not first_bad


def mod_desc(reset, fg, bg, u, fu, bool_fields, styles):
    parts = (["reset: true"] if reset else []) + (["fg: Some(c7)"] if fg else []) + (["bg: Some(c10)"] if bg else []) + \
            (["underline: Some(%s)" % styles[u]] if u is not None else []) + ["%s: Some(%s)" % (bf, str(v).lower()) for bf, v in zip(bool_fields, fu) if v is not None]
    return ", ".join(parts) or "(default)"


# ------------------------------------------------------------------------------------------ run
def run(ctx):
    src = ctx.src
    ref = json.load(open(REFS))
    ctx.explanation = (
        "Decides clauses of C06 by giving the source expressions their value on finite domains (src.json trees; the repository is not run): (a) every face change a "
        "FaceModify can express (reset, 4 flags x on/off, 6 underline styles, 3 colour roles) and every Face attribute is written by TTYEncoder::encode in true-colour "
        "mode as one ESC [ .. m sequence whose parameters sgr_face reads back as the same record, alone, in pairs (a colour followed by another parameter, reset first, "
        "parameters joined by ';') and all at once; on two consecutive parameters the decoder lets the later one override and a reset discard; components above 255 give "
        "no colour; GraphicRenditionMatcher::decode hands sgr_face the parameter bytes; (b) FaceModify::apply moves exactly the flag named like the updated field and "
        "is evaluated for every single-field modification on all 192 valid attribute states x 2 colour states against SGR set/clear semantics, and (APPLY-PRODUCT) on the "
        "whole product reset x fg x bg x underline{None, each style} x 3^4 flag updates x 4 incoming faces (default, all flags + style + colours, two complementary partial "
        "faces) against a reference model: reset first, then colours, the style keeping the flags of the possibly reset face, flags independently; (c) each XAssign "
        "impl of FaceAttrs equals `*self = *self X rhs` on all 256x256 raw values; (d) pack/unpack/underline/constants bit layout over all 8-bit "
        "values; (e) Char(c) is written verbatim and the as-built UTF-8 grammar of the command decoder (all characters except ESC, also in the whole command "
        "automaton), of Utf8Decoder (all) and of the event decoder (printable ASCII + multi-byte) contains every RFC 3629 well-formed sequence, row by row "
        "and lead byte by lead byte (UTF8-LANG). NOT decided: arbitrary SGR histories and chunked writes through TTYCellWriter (fold structure is C03's), the decoder's automaton, "
        "reduced colour depths (C20), conformance of the code numbers to ECMA-48 (the property is about the library's own output).")
    ctx.assume("FaceAttrs raw values stay below 2^8 (3 underline bits + 5 flag bits); integer operations in the evaluated expressions do not overflow u16 on that domain")
    ctx.assume("std items are given their documented meaning by the evaluator's models (Vec/slice/Option/Result/Iterator adaptors, io::Write::write_all, write! formatting of integers and "
               "chars); checked_/saturating_ integer methods are evaluated as for usize (values stay far below 2^64); sinks do not fail (I/O errors end a command)")
    finite_ok = True
    it = Ev(src)

    # =========================================================== (a) SGR round trip
    finite_ok = sgr_rules(ctx, it, src, ref) and finite_ok

    ev_full = it
    it = Dual(src, ev_full)        # attribute algebra below: plain evaluator first
    st = src.struct("FaceModify")
    fm_fields = {f["name"]: f["ty"].replace(" ", "") for f in st[1]["fields"]} if st else {}
    en = src.enum("UnderlineStyle")
    styles = [v["name"] for v in en[1]["variants"]] if en else []
    bool_fields = [n for n, t in fm_fields.items() if t == "Option<bool>"]
    ap = src.fn("apply", impl_self="FaceModify")
    asite = ["%s:%d" % (ap[0], ap[1]["line"])] if ap else [FACE]

    # =========================================================== (d) bit layout (before semantics: the semantics read results through these)
    ctx.rule("BIT-LAYOUT", "FaceAttrs: 3 low bits = underline style 0..5 in enum order, flags << 3 single distinct bits, ALL_FLAGS = their union; pack/unpack/underline/from over all 8-bit values", floor=17)

    def FA(b):
        return StructV("FaceAttrs", {"bits": b})

    def ev(fn):
        try:
            return fn()
        except Unsupported as ex:
            return "not evaluable: %s" % ex
    fsite = [FACE]
    ub = ev(lambda: it.const("FaceAttrs", "UNDERLINE_BITS"))
    ctx.instance("BIT-LAYOUT", {"UNDERLINE_BITS": ub})
    if ub != 3:
        ctx.violation("BIT-LAYOUT", "FaceAttrs", "UNDERLINE_BITS", "UNDERLINE_BITS = %s; six styles need the 3 low bits that underline()/pack/unpack use" % ub, sites=fsite)
    uconst = {"Straight": "UNDERLINE", "Double": "UNDERLINE_DOUBLE", "Curly": "UNDERLINE_CURLY", "Dotted": "UNDERLINE_DOTTED", "Dashed": "UNDERLINE_DASHED"}
    for i, s in enumerate(styles):
        if s == "None":
            continue
        cn = uconst.get(s)
        v = ev(lambda: it.const("FaceAttrs", cn)) if cn else None
        good = isinstance(v, StructV) and v.fields.get("bits") == i
        ctx.instance("BIT-LAYOUT", {"const": cn, "value": str(v), "style_index": i})
        if not good:
            ctx.violation("BIT-LAYOUT", "FaceAttrs", "const-%s" % cn, "FaceAttrs::%s = %s, expected bits %d (index of UnderlineStyle::%s)" % (cn, v, i, s), sites=fsite)
    flag_names = ["BOLD", "ITALIC", "BLINK", "REVERSE", "STRIKE"]
    flag_bits = {}
    for cn in flag_names:
        v = ev(lambda: it.const("FaceAttrs", cn))
        b = v.fields.get("bits") if isinstance(v, StructV) else None
        good = isinstance(b, int) and b >= 8 and b & (b - 1) == 0 and b not in flag_bits.values() and b < 256
        ctx.instance("BIT-LAYOUT", {"const": cn, "bits": b})
        if good:
            flag_bits[cn] = b
        else:
            ctx.violation("BIT-LAYOUT", "FaceAttrs", "const-%s" % cn, "FaceAttrs::%s = %s is not a distinct single bit above the 3 underline bits" % (cn, v), sites=fsite)
    af = ev(lambda: it.const("FaceAttrs", "ALL_FLAGS"))
    union = 0
    for b in flag_bits.values():
        union |= b >> 3
    ctx.instance("BIT-LAYOUT", {"ALL_FLAGS": af, "union_of_flags": union})
    if af != union or len(flag_bits) != len(flag_names):
        ctx.violation("BIT-LAYOUT", "FaceAttrs", "ALL_FLAGS", "ALL_FLAGS = %s but the flag constants cover %s (>> 3); remove() masks with `other_flags ^ ALL_FLAGS`" % (af, union), sites=fsite)
    layout_ok = True

    def style_of(raw):
        return EnumV("UnderlineStyle", styles[raw & 7] if (raw & 7) < len(styles) else "None")
    # underline()/unpack over all 256 raw values
    for fn_name, want in (("underline", lambda raw: style_of(raw)), ("unpack", lambda raw: (style_of(raw), raw >> 3))):
        bad = None
        for raw in range(256):
            r = ev(lambda: it.call("FaceAttrs", fn_name, [FA(raw)]))
            if r != want(raw):
                bad = (raw, r, want(raw))
                break
        ctx.instance("BIT-LAYOUT", {"fn": fn_name, "domain": 256, "ok": bad is None})
        if bad:
            layout_ok = False
            ctx.violation("BIT-LAYOUT", "FaceAttrs::" + fn_name, "layout", "%s(bits=%d) = %s, expected %s" % (fn_name, bad[0], bad[1], bad[2]), sites=fsite)
    bad = None
    for i, s in enumerate(styles):
        for fl in range(32):
            r = ev(lambda: it.call("FaceAttrs", "pack", [EnumV("UnderlineStyle", s), fl]))
            if not (isinstance(r, StructV) and r.fields.get("bits") == (i | (fl << 3))):
                bad = bad or (s, fl, r)
    ctx.instance("BIT-LAYOUT", {"fn": "pack", "domain": len(styles) * 32, "ok": bad is None})
    if bad:
        layout_ok = False
        ctx.violation("BIT-LAYOUT", "FaceAttrs::pack", "layout", "pack(%s, %d) = %s, expected bits %d" % (bad[0], bad[1], bad[2], styles.index(bad[0]) | (bad[1] << 3)), sites=fsite)
    bad = None
    for raw in range(256):
        if (raw & 7) >= len(styles):
            continue
        r = ev(lambda: it.call("FaceAttrs", "pack", list(it.call("FaceAttrs", "unpack", [FA(raw)]))))
        if r != FA(raw):
            bad = bad or (raw, r)
    ctx.instance("BIT-LAYOUT", {"fn": "pack(unpack(x)) == x", "domain": 32 * len(styles), "ok": bad is None})
    if bad:
        layout_ok = False
        ctx.violation("BIT-LAYOUT", "FaceAttrs", "roundtrip", "pack(unpack(bits=%d)) = %s" % bad, sites=fsite)
    bad = None
    for i, s in enumerate(styles):
        r = ev(lambda: it.call("FaceAttrs", "from", [EnumV("UnderlineStyle", s)], impl_trait="From"))
        if r != FA(i):
            bad = bad or (s, r)
    ctx.instance("BIT-LAYOUT", {"fn": "From<UnderlineStyle>", "domain": len(styles), "ok": bad is None})
    if bad:
        layout_ok = False
        ctx.violation("BIT-LAYOUT", "FaceAttrs::from", "layout", "FaceAttrs::from(%s) = %s" % bad, sites=fsite)

    # =========================================================== (c) sibling operators
    ctx.rule("SIBLING-OPS", "each XAssign impl of FaceAttrs equals `*self = *self X rhs` on all 256x256 raw values", floor=3)
    pairs = []
    for sym, tr, fn in (("|", "BitOr", "bitor"), ("&", "BitAnd", "bitand"), ("^", "BitXor", "bitxor")):
        a = it.find_fn("FaceAttrs", fn, tr)
        b = it.find_fn("FaceAttrs", fn + "_assign", tr + "Assign")
        if a and b:
            pairs.append((sym, tr, a, b))
    for sym, tr, a, b in pairs:
        bad = None
        nbad = 0
        err = None
        try:
            for x in range(256):
                for y in range(256):
                    r1 = it.call_item(a[2], "FaceAttrs", [FA(x), FA(y)], a[0], memo=False)
                    o = FA(x)
                    it.call_item(b[2], "FaceAttrs", [o, FA(y)], b[0])
                    if r1 != o:
                        nbad += 1
                        # prefer a counterexample over valid styles for the message
                        if bad is None or ((bad[0] & 7) > 5 or (bad[1] & 7) > 5) and (x & 7) <= 5 and (y & 7) <= 5 and (x & 7) and (y & 7) and (x & 7) != (y & 7):
                            bad = (x, y, r1.fields["bits"], o.fields["bits"])
        except Unsupported as ex:
            err = str(ex)
        ctx.instance("SIBLING-OPS", {"op": sym, "pairs": 65536, "disagreeing": nbad, "not_evaluable": err})
        if err:
            ctx.anchor("SIBLING-OPS", tr + "Assign", "operator impl not evaluable: " + err)
            finite_ok = False
        elif bad:
            x, y, r1, r2 = bad

            def show(v):
                return "%s%s" % (style_of(v).name, "+flags%d" % (v >> 3) if v >> 3 else "")
            ctx.violation("SIBLING-OPS", "FaceAttrs", tr + "Assign",
                          "`a %s= b` differs from `a = a %s b` on %d of 65536 raw pairs, e.g. a=%s (bits %d), b=%s (bits %d): `%s=` gives %s (bits %d), `%s` gives %s (bits %d); "
                          "the assign form works on raw bits while the binary form treats the low 3 bits as an underline enum"
                          % (sym, sym, nbad, show(x), x, show(y), y, sym, show(r2), r2, sym, show(r1), r1),
                          sites=["%s:%d" % (b[0], b[2]["line"])], detail={"a": x, "b": y, "binary": r1, "assign": r2})
    if len(pairs) < 3:
        finite_ok = False

    # =========================================================== (b) apply table (observed)
    if ap is None:
        ctx.rule("APPLY-TABLE", "FaceModify::apply moves exactly the flag named like the updated field", floor=6)
        ctx.anchor("APPLY-TABLE", "FaceModify::apply")
        finite_ok = False
    elif len(flag_bits) == len(flag_names):
        finite_ok = apply_table(ctx, it, ap, asite, bool_fields, flag_bits) and finite_ok
    else:
        ctx.rule("APPLY-TABLE", "FaceModify::apply moves exactly the flag named like the updated field", floor=6)
        ctx.note("APPLY-TABLE not evaluated: the flag constants of FaceAttrs are not single distinct bits (BIT-LAYOUT)")
        finite_ok = False

    # =========================================================== apply semantics
    ctx.rule("APPLY-SEMANTICS", "FaceModify::apply evaluated for every single-field modification on 192 attribute states x 2 colour states: sets/clears exactly that attribute, reset gives the default face", floor=33)
    if ap is not None and st is not None and layout_ok and len(flag_bits) == len(flag_names):
        ca, cb, cn1, cn2 = ("RGBA", 1, 2, 3, 255), ("RGBA", 4, 5, 6, 255), ("RGBA", 7, 8, 9, 255), ("RGBA", 10, 11, 12, 255)
        states = []
        for u in range(len(styles)):
            for fl in range(32):
                for (fg, bg) in ((NONE, NONE), (some(ca), some(cb))):
                    states.append((fg, bg, u, fl))

        def mk_mod(**kw):
            m = it.default_of("FaceModify")
            for k2, v in kw.items():
                m.fields[k2] = v
            return m

        def run_apply(mod, stt):
            fg, bg, u, fl = stt
            face = StructV("Face", {"fg": fg, "bg": bg, "attrs": FA(u | (fl << 3))})
            r = it.call_item(ap[1], "FaceModify", [mod, face], ap[0], memo=False)
            bits = r.fields["attrs"].fields["bits"]
            return (r.fields["fg"], r.fields["bg"], bits & 7, bits >> 3)

        def check(label, mod, spec, desc):
            bad = None
            err = None
            try:
                for stt in states:
                    got = run_apply(mod, stt)
                    want = spec(stt)
                    if got != want:
                        bad = (stt, got, want)
                        break
            except Unsupported as ex:
                err = str(ex)
            ctx.instance("APPLY-SEMANTICS", {"modification": desc, "states": len(states), "ok": bad is None and err is None})
            if err:
                ctx.anchor("APPLY-SEMANTICS", "apply-not-evaluable", "FaceModify::apply not evaluable: " + err)
                return False
            if bad:
                def face_txt(s):
                    return "{fg=%s, bg=%s, underline=%s, flags=%s}" % ("set" if s[0] != NONE else "-", "set" if s[1] != NONE else "-", styles[s[2]] if s[2] < len(styles) else s[2],
                                                                      "+".join(n.lower() for n in flag_names if s[3] & (flag_bits[n] >> 3)) or "-")
                ctx.violation("APPLY-SEMANTICS", "FaceModify::apply", label,
                              "FaceModify{%s}.apply(%s) = %s, SGR semantics require %s" % (desc, face_txt(bad[0]), face_txt(bad[1]), face_txt(bad[2])), sites=asite,
                              detail={"modification": desc, "start": str(bad[0]), "got": str(bad[1]), "want": str(bad[2])})
                return False
            return True

        check("reset", mk_mod(reset=True), lambda s: (NONE, NONE, 0, 0), "reset: true")
        check("fg", mk_mod(fg=some(cn1)), lambda s: (some(cn1), s[1], s[2], s[3]), "fg: Some(c)")
        check("bg", mk_mod(bg=some(cn2)), lambda s: (s[0], some(cn2), s[2], s[3]), "bg: Some(c)")
        und_ok = True
        for i, sname in enumerate(styles):
            und_ok = check("underline", mk_mod(underline=some(EnumV("UnderlineStyle", sname))), lambda s, i=i: (s[0], s[1], i, s[3]), "underline: Some(%s)" % sname) and und_ok
        flags_ok = True
        for bf in bool_fields:
            bit = flag_bits.get(bf.upper(), 0) >> 3
            for val in (True, False):
                flags_ok = check(bf, mk_mod(**{bf: some(val)}), (lambda s, bit=bit, val=val: (s[0], s[1], s[2], (s[3] | bit) if val else (s[3] & ~bit))), "%s: Some(%s)" % (bf, str(val).lower())) and flags_ok
        if flags_ok and len(bool_fields) <= 4:
            for combo in range(2 ** len(bool_fields)):
                kw = {}
                setm = clr = 0
                for j, bf in enumerate(bool_fields):
                    val = bool(combo >> j & 1)
                    kw[bf] = some(val)
                    if val:
                        setm |= flag_bits[bf.upper()] >> 3
                    else:
                        clr |= flag_bits[bf.upper()] >> 3
                check("flags-combined", mk_mod(**kw), (lambda s, setm=setm, clr=clr: (s[0], s[1], s[2], (s[3] | setm) & ~clr)), ", ".join("%s: Some(%s)" % (k2, str(v[1]).lower()) for k2, v in kw.items()))
        else:
            ctx.note("APPLY-SEMANTICS: combined flag modifications not evaluated because a single-flag row already fails")
        if "underline_color" in fm_fields:
            ctx.note("FaceModify.underline_color has no counterpart in Face (apply has a TODO): nothing to decide for apply; the encoder/decoder tables cover it")
        finite_ok = apply_product(ctx, it, ap, asite, fm_fields, bool_fields, styles, flag_bits, flag_names) and finite_ok
    else:
        ctx.note("APPLY-SEMANTICS not evaluated: bit layout or anchors failed")
        ctx.rule("APPLY-PRODUCT", APPLY_PRODUCT_DESC, floor=APPLY_PRODUCT_FLOOR)
        if ap is None or st is None:
            ctx.anchor("APPLY-PRODUCT", "FaceModify::apply")
        else:
            ctx.note("APPLY-PRODUCT not evaluated: the bit layout of FaceAttrs is already reported (BIT-LAYOUT); the product reads results through it")
        finite_ok = False
    ctx.extra["evaluator_steps"] = it.steps


    # =========================================================== characters
    ctx.rule("CHAR-VERBATIM", "TerminalCommand::Char(c) is written as the UTF-8 encoding of c and nothing else", floor=1)
    w = SgrWorld(ev_full, src)
    if not w.ok or "Char" not in w.cmd_variants:
        ctx.anchor("CHAR-VERBATIM", "Char-arm")
    else:
        probes = [0x61, 0x7e, 0x20, 0x09, 0x7b, 0x7d, 0x25, 0x5c, 0x22, 0x27, 0xe9, 0x20ac, 0xfffd, 0x1f600, 0x10ffff]
        bad = None
        err = None
        try:
            for c in probes:
                out = w.encode("Char", CharV(c))
                if out != chr(c).encode("utf-8") and bad is None:
                    bad = (c, out)
        except Unsupported as ex:
            err = str(ex)
        ctx.instance("CHAR-VERBATIM", {"characters": len(probes), "ok": bad is None and err is None})
        if err:
            ctx.anchor("CHAR-VERBATIM", "Char-arm", "TTYEncoder::encode(Char(c)) is not evaluable: " + err)
        elif bad:
            ctx.violation("CHAR-VERBATIM", "TTYEncoder::encode/Char", "template", "Char(U+%04X) is written as %s, not as exactly the character (%s)" % (bad[0], shb(bad[1]), shb(chr(bad[0]).encode("utf-8"))), sites=[ENC])
    # ... and the decoders' UTF-8 grammar admits the encoding of every character
    utf8_lang(ctx)

    ctx.exhaustive = finite_ok
