"""C19 add-on — separator protocol of hand-written list printers (`let mut first = true; if !first {sep}; item; first = false`):
after an item has been written, the flag must be cleared before it is read again, otherwise two items are
printed without a separator and the text no longer parses back (Face Display -> Face::from_str)."""
import re
from ..mir import call_matches, callee_name, op_local, op_const_int
from ..flow import expr


def run_sep(ctx, files=("src/face.rs", "src/keys.rs")):
    prog = ctx.prog
    ctx.rule("SEPARATOR", "list printers: every item write is followed by `first = false` before `first` is read again", floor=2)
    found = 0
    for b in prog.bodies:
        if b.file not in files or b.name != "fmt":
            continue
        # candidate flags: bool user variables assigned const true once and const false at least once
        for l, nm in b.varnames.items():
            if b.local_ty(l) != "bool":
                continue
            defs = b.defs_of(l)
            consts = [(d, op_const_int(d[2]["a"])) for d in defs if d[1] != "term" and d[2]["k"] == "use" and op_const_int(d[2]["a"]) in (0, 1)]
            if len(consts) != len(defs) or not defs:
                continue
            # either polarity: `first` (starts true, cleared to false) or `need_separator` (starts false, set to true).  The initial value is
            # the one assigned in the block that dominates all other assignments; the other value means "an item has been written".
            cfg0 = b.cfg()
            inits = [d for d, v in consts if all(cfg0.dominates(d[0], d2[0]) for d2, _ in consts)]
            if len(inits) != 1:
                continue
            v0 = [v for d, v in consts if d is inits[0]][0]
            trues = [inits[0]]
            falses = [d for d, v in consts if v != v0]
            if not falses or len(falses) + 1 != len(defs):
                continue
            cfg = b.cfg()
            # reads of the flag: switches whose discriminant derives from the flag
            reads = []
            for bb, t in b.terms():
                if t["k"] == "switch" and re.fullmatch(r"(Not\()?var:%s\)?" % re.escape(nm), expr(b, t["d"])):
                    reads.append(bb)
            if not reads:
                continue
            # writes to the formatter
            writes = [(bb, t) for bb, t in b.calls() if call_matches(t, r"Formatter::<'a>::write_fmt$|Formatter::<'a>::write_str$|std::fmt::Write::write_(str|fmt|char)$")]
            sep = []
            items = []
            init_bb = trues[0][0]
            for bb, t in writes:
                if not cfg.dominates(init_bb, bb):
                    continue     # header written before the flag exists
                e = expr(b, t["args"][1]) if len(t["args"]) > 1 else ""
                if re.match(r'^Arguments::from_str\(.{1,6}\)$', e) or (call_matches(t, r"write_str$") and len(e) <= 6):
                    # literal-only short write: a separator candidate if it is guarded by a read of the flag
                    guarded = any(cfg.dominates(r, bb) and r != bb and _edge_guard(cfg, b, r, bb) for r in reads)
                    if guarded:
                        sep.append(bb)
                        continue
                items.append((bb, t))
            if not sep:
                continue
            found += 1
            # Explore (block, flag value, item written since the flag last changed) from the initialisation, following at every read of the flag
            # only the edge its current value selects: a violation is a read that still sees the initial value although an item has been written.
            # (`if first { first = false } else { sep }; item` clears on the only feasible way to the item: the flag's value matters, not just
            # which blocks lie on a path.)
            item_at = {bb: k for k, (bb, t) in enumerate(items)}
            clear_at = {}
            for d in falses:
                clear_at.setdefault(d[0], []).append(d[1])
            bad_items = {}
            seen = set()
            todo = [(init_bb, v0, None)]
            while todo:
                st = todo.pop()
                if st in seen:
                    continue
                seen.add(st)
                bb, fv, pend = st
                if bb in clear_at:
                    fv, pend = 1 - v0, None
                t = b.blocks[bb]["term"]
                if bb in item_at and fv == v0:
                    pend = item_at[bb]
                succ = b.succs(bb)
                if bb in reads:
                    if fv == v0 and pend is not None:
                        bad_items.setdefault(pend, bb)
                    val = fv if not expr(b, t["d"]).startswith("Not(") else 1 - fv
                    succ = [t["targets"][t["vals"].index(str(val))]] if str(val) in t["vals"] else [t["otherwise"]]
                for s2 in succ:
                    todo.append((s2, fv, pend))
            for k, (bb, t) in enumerate(items):
                bad = bad_items.get(k)
                ctx.instance("SEPARATOR", {"fn": b.path, "flag": nm, "item_write_line": t["line"], "flag_cleared_before_next_read": bad is None})
                if bad is not None:
                    ctx.violation("SEPARATOR", b.path, "item-%d" % (k + 1),
                                  "after the item written at line %d the separator flag `%s` is not cleared before it is tested again: the next item is printed without a separator and the text does not parse back" % (t["line"], nm),
                                  sites=["%s:%d" % (b.file, t["line"])])
    if found == 0:
        ctx.anchor("SEPARATOR", "list-printer-idiom", "no `first`-flag list printer recognised in %s" % (files,))


def _edge_guard(cfg, body, read_bb, target):
    """target is reachable from exactly one side of the read's switch"""
    t = body.blocks[read_bb]["term"]
    sides = set(t["targets"] + [t["otherwise"]])
    hit = [s for s in sides if target == s or target in cfg.reachable_from(s, removed={read_bb})]
    return len(hit) == 1
