MUTANTS = [
    {"id": "C19-sep-bg-flag-not-cleared", "prop": "C19", "expect": "SEPARATOR",
     "edits": [("src/face.rs", "            write!(f, \"bg={}\", bg)?;\n            first = false;\n", "            write!(f, \"bg={}\", bg)?;\n")]},
    {"id": "C19-sep-attr-flag-not-cleared", "prop": "C19", "expect": "SEPARATOR",
     "edits": [("src/face.rs", "            write!(f, \"{}\", attr)?;\n            first = false;\n        }\n        Ok(())", "            write!(f, \"{}\", attr)?;\n        }\n        Ok(())")]},
    {"id": "C19-sep-benign-clear-before-write", "prop": "C19", "benign": True,
     "edits": [("src/face.rs", "            write!(f, \"fg={}\", fg)?;\n            first = false;\n", "            first = false;\n            write!(f, \"fg={}\", fg)?;\n")]},
]
