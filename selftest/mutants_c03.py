MUTANTS = [
    {"id": "C03-reschedule-not-reversed", "prop": "C03", "expect": "LIFO",
     "edits": [("src/decoder.rs", "self.rescheduled.extend(self.buffer.drain(size..).rev());", "self.rescheduled.extend(self.buffer.drain(size..));")]},
    {"id": "C03-counter-after-break", "prop": "C03", "expect": "FOLD",
     "edits": [("src/decoder.rs", "            consumed += 1;\n            if let Some(item) = self.decode_byte(*byte) {\n                output.replace(item);\n                break;\n            }\n", "            if let Some(item) = self.decode_byte(*byte) {\n                output.replace(item);\n                break;\n            }\n            consumed += 1;\n")]},
    {"id": "C03-no-consume", "prop": "C03", "expect": "FOLD",
     "edits": [("src/decoder.rs", "        input.consume(consumed);\n\n        Ok(output)", "        let _ = consumed;\n\n        Ok(output)")]},
    {"id": "C03-consume-whole-buffer", "prop": "C03", "expect": "FOLD",
     "edits": [("src/decoder.rs", "        let mut consumed = 0;\n        let mut output = None;\n        for byte in input.fill_buf()?.iter() {\n            consumed += 1;", "        let mut consumed = 0;\n        let mut output = None;\n        for byte in input.fill_buf()?.iter() {\n            consumed += 2;")]},
    {"id": "C03-input-before-rescheduled", "prop": "C03", "expect": "FOLD",
     "edits": [("src/decoder.rs", "        // process rescheduled data first\n        while let Some(byte) = self.rescheduled.pop() {\n            let item = self.decode_byte(byte);\n            if item.is_some() {\n                return Ok(item);\n            }\n        }\n\n        // process input\n", "        // process input\n"),
               ("src/decoder.rs", "        input.consume(consumed);\n\n        Ok(output)", "        input.consume(consumed);\n        if output.is_some() {\n            return Ok(output);\n        }\n        while let Some(byte) = self.rescheduled.pop() {\n            let item = self.decode_byte(byte);\n            if item.is_some() {\n                return Ok(item);\n            }\n        }\n\n        Ok(output)")]},
    {"id": "C03-utf8-dead-no-consume", "prop": "C03", "expect": "FOLD",
     "edits": [("src/decoder.rs", "                    self.reset();\n                    buf.consume(consume);\n                    return Err(Error::new(ErrorKind::InvalidInput, \"utf8 decoder failed\"));", "                    self.reset();\n                    return Err(Error::new(ErrorKind::InvalidInput, \"utf8 decoder failed\"));")]},
    {"id": "C03-step-reads-clock", "prop": "C03", "expect": "STEP-PURE",
     "edits": [("src/decoder.rs", "    fn decode_byte(&mut self, byte: u8) -> Option<Result<T, MatcherBuffer>> {\n        self.buffer.push(byte);", "    fn decode_byte(&mut self, byte: u8) -> Option<Result<T, MatcherBuffer>> {\n        if std::time::Instant::now().elapsed().as_secs() > 3600 {\n            self.buffer.clear();\n        }\n        self.buffer.push(byte);")]},
    {"id": "C03-tag-order-swapped", "prop": "C03", "expect": "TAGORDER",
     "edits": [("src/decoder.rs", "    /// Automata already produces valid item\n    Item(T),\n    /// Index of the matcher that needs to be used to decode item\n    Matcher(usize),", "    /// Index of the matcher that needs to be used to decode item\n    Matcher(usize),\n    /// Automata already produces valid item\n    Item(T),")]},
    {"id": "C03-max-tag", "prop": "C03", "expect": "TAGORDER",
     "edits": [("src/decoder.rs", "                        .iter()\n                        .next()\n                        .expect(\"[MatcherDecoder] found untagged accepting state\");", "                        .iter()\n                        .next_back()\n                        .expect(\"[MatcherDecoder] found untagged accepting state\");")]},
    {"id": "C03-new-overlap", "prop": "C03", "expect": "TAGORDER",
     "edits": [("src/decoder.rs", "        UTF8Mode::Printable => NFA::predicate(|b| (b' '..=b'~').contains(&b)),", "        UTF8Mode::Printable => NFA::predicate(|b| b >> 7 == 0b0),")]},
    {"id": "C03-push-without-pop", "prop": "C03", "expect": "LIFO",
     "edits": [("src/decoder.rs", "                        self.rescheduled.push(byte); // re-schedule current byte for parsing\n                        self.buffer.pop();", "                        self.rescheduled.push(byte); // re-schedule current byte for parsing")]},
    {"id": "C03-benign-rename-counter", "prop": "C03", "benign": True,
     "edits": [("src/decoder.rs", "        let mut consumed = 0;\n        let mut output = None;\n        for byte in input.fill_buf()?.iter() {\n            consumed += 1;", "        let mut used = 0;\n        let mut output = None;\n        for byte in input.fill_buf()?.iter() {\n            used += 1;"),
               ("src/decoder.rs", "        input.consume(consumed);\n\n        Ok(output)", "        input.consume(used);\n\n        Ok(output)")]},
]


MUTANTS += [
    {"id": "C03-candidate-kept-when-undecodable", "prop": "C03", "expect": "LONGEST",
     "edits": [("src/decoder.rs", "                    self.item_candidate.replace((event, self.buffer.len()));", "                    if event.is_ok() || self.item_candidate.is_none() {\n                        self.item_candidate.replace((event, self.buffer.len()));\n                    }")]},
    {"id": "C03-candidate-length-minus-one", "prop": "C03", "expect": "LONGEST",
     "edits": [("src/decoder.rs", "                    self.item_candidate.replace((event, self.buffer.len()));", "                    self.item_candidate.replace((event, self.buffer.len().saturating_sub(1)));")]},
    {"id": "C03-benign-candidate-assign", "prop": "C03", "benign": True,
     "edits": [("src/decoder.rs", "                    self.item_candidate.replace((event, self.buffer.len()));", "                    let size = self.buffer.len();\n                    self.item_candidate.replace((event, size));")]},
]


# ---- robustness: behaviour-preserving refactorings of decode()/decode_byte()/take_candidate() that the rules must see through, and near-miss breaking variants
_D = "src/decoder.rs"
_INPUT_LOOP = ("        let mut consumed = 0;\n        let mut output = None;\n        for byte in input.fill_buf()?.iter() {\n            consumed += 1;\n"
               "            if let Some(item) = self.decode_byte(*byte) {\n                output.replace(item);\n                break;\n            }\n        }\n")
_PENDING = ("            let item = self.decode_byte(byte);\n            if item.is_some() {\n                return Ok(item);\n            }\n")
_TAG_MATCH = ("                    let event = match tag {\n                        MatcherTag::Item(event) => Ok(event.clone()),\n"
              "                        MatcherTag::Matcher(index) => self.automata.matchers[*index]\n                            .decode(&self.buffer)\n"
              "                            .map_or_else(|| Err(self.buffer.clone()), |item| Ok(item)),\n                    };\n")
_TAKE = "            self.rescheduled.extend(self.buffer.drain(size..).rev());\n"
MUTANTS += [
    {"id": "C03-benign-find-map", "prop": "C03", "benign": True,
     "edits": [(_D, _INPUT_LOOP, "        let mut consumed = 0;\n        let output = input.fill_buf()?.iter().find_map(|byte| {\n            consumed += 1;\n            self.decode_byte(*byte)\n        });\n")]},
    {"id": "C03-benign-any-closure", "prop": "C03", "benign": True,
     "edits": [(_D, _INPUT_LOOP, "        let mut consumed = 0;\n        let mut output = None;\n        let _found = input.fill_buf()?.iter().copied().any(|byte| {\n            consumed = 1 + consumed;\n"
                                 "            output = self.decode_byte(byte);\n            output.is_some()\n        });\n")]},
    {"id": "C03-benign-copied-loop", "prop": "C03", "benign": True,
     "edits": [(_D, _INPUT_LOOP, "        let mut consumed = 0;\n        let mut output = None;\n        for byte in input.fill_buf()?.iter().copied() {\n            consumed = consumed + 1;\n"
                                 "            if let Some(item) = self.decode_byte(byte) {\n                output = Some(item);\n                break;\n            }\n        }\n")]},
    {"id": "C03-benign-fill-buf-match", "prop": "C03", "benign": True,
     "edits": [(_D, "        for byte in input.fill_buf()?.iter() {\n            consumed += 1;\n            if let Some(item) = self.decode_byte(*byte) {",
                "        let chunk = match input.fill_buf() {\n            Ok(chunk) => chunk,\n            Err(error) => return Err(error.into()),\n        };\n"
                "        for byte in chunk {\n            consumed += 1;\n            if let Some(item) = self.decode_byte(*byte) {")]},
    {"id": "C03-benign-scan-helper-returns-count", "prop": "C03", "benign": True,
     "edits": [(_D, _INPUT_LOOP + "        input.consume(consumed);\n\n        Ok(output)\n    }\n}\n\nimpl<T: Clone + Ord> MatcherDecoder<T> {\n",
                "        let (consumed, output) = self.scan(input.fill_buf()?);\n        input.consume(consumed);\n\n        Ok(output)\n    }\n}\n\nimpl<T: Clone + Ord> MatcherDecoder<T> {\n"
                "    /// Feed bytes until an item is produced, returns number of bytes used\n    fn scan(&mut self, chunk: &[u8]) -> (usize, Option<Result<T, MatcherBuffer>>) {\n"
                "        let mut used = 0;\n        for byte in chunk.iter() {\n            used += 1;\n            if let Some(item) = self.decode_byte(*byte) {\n                return (used, Some(item));\n            }\n        }\n        (used, None)\n    }\n\n")]},
    {"id": "C03-benign-pending-if-let", "prop": "C03", "benign": True,
     "edits": [(_D, _PENDING, "            if let Some(item) = self.decode_byte(byte) {\n                return Ok(Some(item));\n            }\n")]},
    {"id": "C03-benign-tags-first", "prop": "C03", "benign": True,
     "edits": [(_D, "                        .iter()\n                        .next()\n                        .expect(\"[MatcherDecoder] found untagged accepting state\");",
                "                        .first()\n                        .expect(\"[MatcherDecoder] found untagged accepting state\");")]},
    {"id": "C03-benign-tags-iter-min", "prop": "C03", "benign": True,
     "edits": [(_D, "                        .iter()\n                        .next()\n                        .expect(\"[MatcherDecoder] found untagged accepting state\");",
                "                        .iter()\n                        .min()\n                        .expect(\"[MatcherDecoder] found untagged accepting state\");")]},
    {"id": "C03-benign-decode-tag-helper", "prop": "C03", "benign": True,
     "edits": [(_D, _TAG_MATCH, "                    let event = self.decode_tag(tag);\n"),
               (_D, "    /// Take last successfully parsed item\n",
                "    /// Decode event from the buffer content given the tag of the accepting state\n    fn decode_tag(&self, tag: &MatcherTag<T>) -> Result<T, MatcherBuffer> {\n"
                "        match tag {\n            MatcherTag::Matcher(index) => self.automata.matchers[*index]\n                .decode(&self.buffer)\n                .ok_or_else(|| self.buffer.clone()),\n"
                "            MatcherTag::Item(event) => Ok(event.clone()),\n        }\n    }\n\n    /// Take last successfully parsed item\n")]},
    {"id": "C03-benign-reject-helper", "prop": "C03", "benign": True,
     "edits": [(_D, "                let event = self.take_candidate().unwrap_or_else(|| {\n                    if self.buffer.len() > 1 {\n                        self.rescheduled.push(byte); // re-schedule current byte for parsing\n"
                    "                        self.buffer.pop();\n                    }\n                    self.automata_state = self.automata.automata.start();\n                    Err(std::mem::take(&mut self.buffer))\n                });\n",
                "                let event = match self.take_candidate() {\n                    Some(event) => event,\n                    None => self.reject(byte),\n                };\n"),
               (_D, "    /// Take last successfully parsed item\n",
                "    /// Neither transition nor candidate is available, reject buffer content\n    fn reject(&mut self, byte: u8) -> Result<T, MatcherBuffer> {\n        if 1 < self.buffer.len() {\n"
                "            self.unread(byte);\n            self.buffer.pop();\n        }\n        self.automata_state = self.automata.automata.start();\n        Err(std::mem::take(&mut self.buffer))\n    }\n\n"
                "    fn unread(&mut self, byte: u8) {\n        self.rescheduled.push(byte);\n    }\n\n    /// Take last successfully parsed item\n")]},
    {"id": "C03-benign-reschedule-pop-loop", "prop": "C03", "benign": True,
     "edits": [(_D, _TAKE, "            while self.buffer.len() > size {\n                let last = self.buffer.pop().expect(\"buffer is longer than the candidate\");\n                self.rescheduled.push(last);\n            }\n")]},
    {"id": "C03-benign-reschedule-guarded-hoisted", "prop": "C03", "benign": True,
     "edits": [(_D, _TAKE, "            debug_assert!(size <= self.buffer.len());\n            if size < self.buffer.len() {\n                let tail = self.buffer.drain(size..);\n                self.rescheduled.extend(tail.rev());\n            }\n")]},
    {"id": "C03-benign-reschedule-slice-view", "prop": "C03", "benign": True,
     "edits": [(_D, _TAKE, "            self.rescheduled.extend(self.buffer[size..].iter().rev().copied());\n")]},
    {"id": "C03-benign-candidate-some-assign", "prop": "C03", "benign": True,
     "edits": [(_D, "                    self.item_candidate.replace((event, self.buffer.len()));", "                    self.item_candidate = Some((event, self.buffer.len()));")]},
    # near misses of the accepted idioms: must be reported
    {"id": "C03-find-map-counter-after-step", "prop": "C03", "expect": "FOLD",
     "edits": [(_D, _INPUT_LOOP, "        let mut consumed = 0;\n        let output = input.fill_buf()?.iter().find_map(|byte| {\n            let item = self.decode_byte(*byte)?;\n            consumed += 1;\n            Some(item)\n        });\n")]},
    {"id": "C03-find-map-reversed", "prop": "C03", "expect": "FOLD",
     "edits": [(_D, _INPUT_LOOP, "        let mut consumed = 0;\n        let output = input.fill_buf()?.iter().rev().find_map(|byte| {\n            consumed += 1;\n            self.decode_byte(*byte)\n        });\n")]},
    {"id": "C03-find-map-skips-first", "prop": "C03", "expect": "FOLD",
     "edits": [(_D, _INPUT_LOOP, "        let mut consumed = 0;\n        let output = input.fill_buf()?.iter().skip(1).find_map(|byte| {\n            consumed += 1;\n            self.decode_byte(*byte)\n        });\n")]},
    {"id": "C03-find-map-two-steps", "prop": "C03", "expect": "FOLD",
     "edits": [(_D, _INPUT_LOOP, "        let mut consumed = 0;\n        let output = input.fill_buf()?.iter().find_map(|byte| {\n            consumed += 1;\n            self.decode_byte(*byte).or_else(|| self.decode_byte(*byte))\n        });\n")]},
    {"id": "C03-tags-last", "prop": "C03", "expect": "TAGORDER",
     "edits": [(_D, "                        .iter()\n                        .next()\n                        .expect(\"[MatcherDecoder] found untagged accepting state\");",
                "                        .last()\n                        .expect(\"[MatcherDecoder] found untagged accepting state\");")]},
    {"id": "C03-tags-iter-max", "prop": "C03", "expect": "TAGORDER",
     "edits": [(_D, "                        .iter()\n                        .next()\n                        .expect(\"[MatcherDecoder] found untagged accepting state\");",
                "                        .iter()\n                        .max()\n                        .expect(\"[MatcherDecoder] found untagged accepting state\");")]},
    {"id": "C03-reschedule-slice-view-forward", "prop": "C03", "expect": "LIFO",
     "edits": [(_D, _TAKE, "            self.rescheduled.extend(self.buffer[size..].iter().copied());\n")]},
    {"id": "C03-reschedule-push-front-loop", "prop": "C03", "expect": "LIFO",
     "edits": [(_D, _TAKE, "            for index in size..self.buffer.len() {\n                self.rescheduled.push(self.buffer[index]);\n            }\n")]},
    {"id": "C03-scan-helper-counts-only-items", "prop": "C03", "expect": "FOLD",
     "edits": [(_D, _INPUT_LOOP + "        input.consume(consumed);\n\n        Ok(output)\n    }\n}\n\nimpl<T: Clone + Ord> MatcherDecoder<T> {\n",
                "        let (consumed, output) = self.scan(input.fill_buf()?);\n        input.consume(consumed);\n\n        Ok(output)\n    }\n}\n\nimpl<T: Clone + Ord> MatcherDecoder<T> {\n"
                "    fn scan(&mut self, chunk: &[u8]) -> (usize, Option<Result<T, MatcherBuffer>>) {\n"
                "        let mut used = 0;\n        for byte in chunk.iter() {\n            if let Some(item) = self.decode_byte(*byte) {\n                return (used, Some(item));\n            }\n            used += 1;\n        }\n        (used, None)\n    }\n\n")]},
]


# ---- accepting *terminal* state emitted at once (the exact fast path of record + take_candidate) and its near misses
_REC = ("                    self.item_candidate.replace((event, self.buffer.len()));\n                    if state_desc.is_terminal {\n"
        "                        return self.take_candidate();\n                    }\n")


def _fast(cond="state_desc.is_terminal", clear_cand="self.item_candidate = None;", clear_buf="self.buffer.clear();", ret="Some(event)"):
    body = "".join("                        %s\n" % l for l in (clear_cand, clear_buf, "self.automata_state = self.automata.automata.start();", "return %s;" % ret) if l)
    return ("                    if %s {\n%s                    }\n                    self.item_candidate.replace((event, self.buffer.len()));\n" % (cond, body))


MUTANTS += [
    {"id": "C03-benign-terminal-fast-path", "prop": "C03", "benign": True, "edits": [(_D, _REC, _fast())]},
    {"id": "C03-benign-terminal-fast-path-take-truncate", "prop": "C03", "benign": True,
     "edits": [(_D, _REC, _fast(cond="!state_desc.is_terminal {\n                        self.item_candidate = Some((event, self.buffer.len()));\n                    } else",
                                clear_cand="self.item_candidate.take();", clear_buf="self.buffer.truncate(0);").replace(
                                    "                    self.item_candidate.replace((event, self.buffer.len()));\n", ""))]},
    {"id": "C03-benign-debug-asserts", "prop": "C03", "benign": True,
     "edits": [(_D, _TAKE, "            debug_assert!(size <= self.buffer.len(), \"candidate is longer than consumed data\");\n" + _TAKE),
               (_D, "        // process rescheduled data first\n", "        debug_assert!(self.rescheduled.is_empty() || self.buffer.is_empty());\n")]},
    {"id": "C03-fast-path-keeps-stale-candidate", "prop": "C03", "expect": "LONGEST", "edits": [(_D, _REC, _fast(clear_cand=""))]},
    {"id": "C03-fast-path-non-terminal", "prop": "C03", "expect": "LONGEST", "edits": [(_D, _REC, _fast(cond="state_desc.is_terminal || self.buffer.len() > 8"))]},
    {"id": "C03-fast-path-buffer-kept", "prop": "C03", "expect": "LONGEST", "edits": [(_D, _REC, _fast(clear_buf=""))]},
    {"id": "C03-fast-path-emits-buffer", "prop": "C03", "expect": "LONGEST",
     "edits": [(_D, _REC, _fast(clear_buf="let raw = std::mem::take(&mut self.buffer);", ret="Some(event.and(Err(raw)))"))]},
]


# ---- round 4 (C09-K): the counter as `index + 1` of an enumerate()d traversal
MUTANTS += [
    {"id": 'C03-benign-counter-from-enumerate', "prop": "C03", "benign": True,
     "edits": [("src/decoder.rs", '        for byte in buf.fill_buf()?.iter() {\n            consume += 1;\n', '        for (index, byte) in buf.fill_buf()?.iter().enumerate() {\n            consume = index + 1;\n')]},
    {"id": 'C03-benign-counter-from-enumerate-swapped', "prop": "C03", "benign": True,
     "edits": [("src/decoder.rs", '        for byte in buf.fill_buf()?.iter() {\n            consume += 1;\n', '        for (at, byte) in buf.fill_buf()?.iter().enumerate() {\n            let seen = 1 + at;\n            consume = seen;\n')]},
    {"id": 'C03-counter-from-enumerate-off-by-one', "prop": "C03", "expect": 'FOLD',
     "edits": [("src/decoder.rs", '        for byte in buf.fill_buf()?.iter() {\n            consume += 1;\n', '        for (index, byte) in buf.fill_buf()?.iter().enumerate() {\n            consume = index;\n')]},
    {"id": 'C03-counter-from-enumerate-plus-two', "prop": "C03", "expect": 'FOLD',
     "edits": [("src/decoder.rs", '        for byte in buf.fill_buf()?.iter() {\n            consume += 1;\n', '        for (index, byte) in buf.fill_buf()?.iter().enumerate() {\n            consume = index + 2;\n')]},
]


# ---- round 5 (C09-O): no counter variable at all - every consume site states the count directly (`index + 1` inside the iteration of
# byte #index, the slice length once the traversal is exhausted); mixed forms; near misses
_U8_OLD = ('        let mut consume = 0;\n        for byte in buf.fill_buf()?.iter() {\n            consume += 1;\n            match UTF8DFA.transition(self.state, *byte) {\n'
           '                None => {\n                    use std::io::{Error, ErrorKind};\n                    self.reset();\n                    buf.consume(consume);\n'
           '                    return Err(Error::new(ErrorKind::InvalidInput, "utf8 decoder failed"));\n                }\n'
           '                Some(state) if UTF8DFA.info(state).is_accepting => {\n                    self.push(*byte);\n                    buf.consume(consume);\n'
           '                    return Ok(Some(self.consume()));\n                }\n                Some(state) => {\n                    self.push(*byte);\n                    self.state = state;\n'
           '                }\n            }\n        }\n        buf.consume(consume);\n        Ok(None)\n')


def _u8_new(err_n, acc_n, end_n, pre="", inc=""):
    return ('        let bytes = buf.fill_buf()?;\n        let available = bytes.len();\n' + pre + '        for (index, &byte) in bytes.iter().enumerate() {\n' + inc +
            '            match UTF8DFA.transition(self.state, byte) {\n'
            '                None => {\n                    use std::io::{Error, ErrorKind};\n                    self.reset();\n                    buf.consume(' + err_n + ');\n'
            '                    return Err(Error::new(ErrorKind::InvalidInput, "utf8 decoder failed"));\n                }\n'
            '                Some(state) if UTF8DFA.info(state).is_accepting => {\n                    self.push(byte);\n                    buf.consume(' + acc_n + ');\n'
            '                    return Ok(Some(self.consume()));\n                }\n                Some(state) => {\n                    self.push(byte);\n                    self.state = state;\n'
            '                }\n            }\n        }\n        buf.consume(' + end_n + ');\n        Ok(None)\n')


MUTANTS += [
    {"id": 'C03-benign-no-counter-index-and-len', "prop": "C03", "benign": True,
     "edits": [("src/decoder.rs", _U8_OLD, _u8_new("index + 1", "index + 1", "available"))]},
    {"id": 'C03-benign-no-counter-swapped-and-reslice-len', "prop": "C03", "benign": True,
     "edits": [("src/decoder.rs", _U8_OLD, _u8_new("1 + index", "index + 1", "available").replace("let available = bytes.len();\n", "let available = bytes[..].len();\n"))]},
    {"id": 'C03-benign-counter-and-len-mixed', "prop": "C03", "benign": True,
     "edits": [("src/decoder.rs", _U8_OLD, _u8_new("consume", "index + 1", "available", pre="        let mut consume = 0;\n", inc="            consume += 1;\n"))]},
    {"id": 'C03-counter-incremented-late-mixed', "prop": "C03", "expect": 'FOLD',
     "edits": [("src/decoder.rs", _U8_OLD, _u8_new("consume", "index + 1", "available", pre="        let mut consume = 0;\n", inc="            if index > 0 {\n                consume += 1;\n            }\n"))]},
    {"id": 'C03-no-counter-index-without-plus-one', "prop": "C03", "expect": 'FOLD',
     "edits": [("src/decoder.rs", _U8_OLD, _u8_new("index + 1", "index", "available"))]},
    {"id": 'C03-no-counter-len-inside-iteration', "prop": "C03", "expect": 'FOLD',
     "edits": [("src/decoder.rs", _U8_OLD, _u8_new("index + 1", "available", "available"))]},
    {"id": 'C03-no-counter-len-minus-one-at-end', "prop": "C03", "expect": 'FOLD',
     "edits": [("src/decoder.rs", _U8_OLD, _u8_new("index + 1", "index + 1", "available.saturating_sub(1)"))]},
]


# ---- round M3: the traversal written as an indexed `while i < len` loop over the slice bound once (index variable = consumed-byte counter)
_MD_OLD = ("        let mut consumed = 0;\n        let mut output = None;\n        for byte in input.fill_buf()?.iter() {\n            consumed += 1;\n"
           "            if let Some(item) = self.decode_byte(*byte) {\n")


def _md_indexed(guard="consumed < available", body="            let byte = data[consumed];\n            consumed += 1;\n", pre="", idx="consumed"):
    return ("        let data = input.fill_buf()?;\n        let available = data.len();\n        let mut consumed = 0;\n        let mut output = None;\n" + pre +
            "        while " + guard + " {\n" + body + "            if let Some(item) = self.decode_byte(byte) {\n")


MUTANTS += [
    {"id": "C03-benign-indexed-while", "prop": "C03", "benign": True, "edits": [("src/decoder.rs", _MD_OLD, _md_indexed())]},
    {"id": "C03-benign-indexed-while-flipped-guard", "prop": "C03", "benign": True, "edits": [("src/decoder.rs", _MD_OLD, _md_indexed(guard="available > consumed"))]},
    {"id": "C03-benign-indexed-while-ne-guard-inline-len", "prop": "C03", "benign": True, "edits": [("src/decoder.rs", _MD_OLD, _md_indexed(guard="consumed != data.len()").replace("        let available = data.len();\n", ""))]},
    {"id": "C03-benign-indexed-while-negated-guard", "prop": "C03", "benign": True, "edits": [("src/decoder.rs", _MD_OLD, _md_indexed(guard="!(consumed >= available)"))]},
    {"id": "C03-benign-indexed-separate-index-and-counter", "prop": "C03", "benign": True,
     "edits": [("src/decoder.rs", _MD_OLD, _md_indexed(guard="at < available", pre="        let mut at = 0;\n", body="            let byte = data[at];\n            at += 1;\n            consumed += 1;\n"))]},
    {"id": "C03-indexed-read-after-increment", "prop": "C03", "expect": "FOLD",
     "edits": [("src/decoder.rs", _MD_OLD, _md_indexed(guard="consumed + 1 < available", body="            consumed += 1;\n            let byte = data[consumed];\n"))]},
    {"id": "C03-indexed-read-after-increment-same-guard", "prop": "C03", "expect": "FOLD",
     "edits": [("src/decoder.rs", _MD_OLD, _md_indexed(body="            consumed += 1;\n            let byte = data[consumed % available];\n"))]},
    {"id": "C03-indexed-stride-two", "prop": "C03", "expect": "FOLD",
     "edits": [("src/decoder.rs", _MD_OLD, _md_indexed(guard="consumed + 1 < available", body="            let byte = data[consumed];\n            consumed += 2;\n"))]},
    {"id": "C03-indexed-guard-drops-last-byte", "prop": "C03", "expect": "FOLD",
     "edits": [("src/decoder.rs", _MD_OLD, _md_indexed(guard="consumed + 1 < available"))]},
    {"id": "C03-indexed-counter-skips-some-bytes", "prop": "C03", "expect": "FOLD",
     "edits": [("src/decoder.rs", _MD_OLD, _md_indexed(guard="at < available", pre="        let mut at = 0;\n", body="            let byte = data[at];\n            at += 1;\n            if byte != 0x1b {\n                consumed += 1;\n            }\n"))]},
    {"id": "C03-indexed-increment-after-step", "prop": "C03", "expect": "FOLD",
     "edits": [("src/decoder.rs", _MD_OLD, _md_indexed(body="            let byte = data[consumed];\n").replace("self.decode_byte(byte) {\n", "self.decode_byte(byte) {\n                consumed += 1;\n") )]},
]


def _md_range(rng="0..data.len()", idx="at"):
    return ("        let data = input.fill_buf()?;\n        let mut consumed = 0;\n        let mut output = None;\n        for at in " + rng + " {\n            consumed += 1;\n"
            "            if let Some(item) = self.decode_byte(data[" + idx + "]) {\n")


MUTANTS += [
    {"id": "C03-benign-range-indexed-for", "prop": "C03", "benign": True, "edits": [("src/decoder.rs", _MD_OLD, _md_range())]},
    {"id": "C03-range-indexed-skips-first", "prop": "C03", "expect": "FOLD", "edits": [("src/decoder.rs", _MD_OLD, _md_range(rng="1..data.len()"))]},
    {"id": "C03-range-indexed-backwards", "prop": "C03", "expect": "FOLD", "edits": [("src/decoder.rs", _MD_OLD, _md_range(rng="(0..data.len()).rev()"))]},
    {"id": "C03-range-indexed-mirrored-read", "prop": "C03", "expect": "FOLD", "edits": [("src/decoder.rs", _MD_OLD, _md_range(idx="data.len() - 1 - at"))]},
]
