"""C13 — colour quantisation: structural clauses (same size, valid indices, blend agreement, dither guard, k-d search soundness
conditions, prune/build shape) and panic-freedom.  Palette optimality, the numeric palette bound, value-level exactness of the
search, losslessness and the dithering arithmetic are NOT decided."""
import copy
import re
from ..mir import call_matches, Body
from .. import inline as _inline
from ..sympath import evaluator, show, strip, subterms, implies_le, implies_le_const, const_int, TooManyPaths
from .. import oblrules

CLAIM = {
    "text": "Structural (necessary) clauses of C13 decided on MIR; the property as a whole is NOT claimed. Decided: SAME-SIZE (the index image is SurfaceOwned::new(self.size()), "
            "the row/col loops run over 0..height x 0..width without early exit and each position is written exactly once with set(pos, _) at the pos that was read, and that "
            "image is returned); INDEX-VALID (every stored value is .0 of find() on the returned palette; find returns KDNode.color_index; indices are assigned by enumerate() over "
            "the very colour vector stored in the palette, which ColorPalette::new rejects when empty; no writer of KDNode/KDTree/ColorPalette outside the constructors); BLEND-AGREE "
            "(from_image and quantize replace a colour by bg.blend_over(colour) exactly when alpha < 255, same bg, default opaque black); DITHER-GUARD (error rows are touched only "
            "under `if dither`; without dithering the blended source pixel itself is looked up); NEAREST-SHAPE (the structural soundness conditions of the k-d search: metric = sum of "
            "squared differences over r,g,b; the returned candidate is minimal among the visited ones by the comparisons on each path; a child is skipped only when it lies across "
            "the node's own splitting plane and plane distance >= best; build: median partition in the node's own dimension, root pushed last); PALETTE-BOUND shape "
            "(prune_until(palette_size) on the filled tree before build_palette; loop runs exactly while leaf_count > bound; one colour per leaf, leaf.index = its position); TOTAL "
            "(no reachable panic/overflow/bounds/unwrap in src/image.rs from quantize and ColorPalette::{new,from_image,find}: abstract interpretation, lemmas ERR-ROWS / KD-INV / "
            "METRIC-RANGE / OCTREE-INV with re-checked side conditions, trusts OCTREE-DEPTH / OCTREE-LEAF with who-writes rules, assumptions SIZE-BOUND and PIXEL-COUNT). "
            "NOT claimed: that the palette is optimal; the numeric bound 1..max(requested, 8); exactness of the k-d search as a value-level fact over all palettes; losslessness "
            "when the colours fit; the dithering arithmetic.",
    "technique": "path-sensitive symbolic evaluation of loop-free MIR regions (sa/sympath.py) + template rules on the resulting terms and facts + CFG dominance/loop rules + who-writes "
                 "scans + abstract interpretation with structurally checked lemmas; small single-caller helpers outside the mechanism's named functions are expanded in place before a "
                 "body is evaluated, and site-level lemmas are filed under the statement's own function; the compositing helper is recognised by what it computes (any two-argument "
                 "function returning bg.blend_over(c) iff alpha(c) < 255), not by its name or place; Option/bool combinator chains (map, filter, unwrap_or, map_or, and_then, then_some, ..) "
                 "in the k-d search are evaluated by their definition with the closure bodies in place, i.e. as the match they stand for; the palette traversal below build_palette is "
                 "decided as a whole over the functions that carry (&mut OcTreeNode | &mut OcTree, &mut Vec<RGBA>) found by data flow from build_palette (node handlers / tree visitors, in place "
                 "or as calls), not on a named helper; the error rows are found by use and sized either by one resize on an empty vector or by `vec![x; n]` as the only non-empty definition; "
                 "alpha guards in any spelling (< 255, != 255, == 255 on the u8 channel, array patterns); moves of the filled octree through locals / expanded helper results are followed",
    "design_ref": "DESIGN.md §5 C13",
}

QUANT = "image::Image::quantize"
PAL_NEW = "image::ColorPalette::new"
PAL_FROM = "image::ColorPalette::from_image"
PAL_FIND = "image::ColorPalette::find"
BLEND = "image::ColorPalette::from_image::blend"
KD_NEW = "image::KDTree::new"
KD_BUILD = "image::KDTree::new::build_rec"
KD_FIND = "image::KDTree::find"
KD_REC = "image::KDTree::find::find_rec"
KD_DIST = "image::KDTree::find::dist"
OC_PRUNE_UNTIL = "image::OcTree::prune_until"
OC_BUILD = "image::OcTree::build_palette"
OC_BUILD_REC = "image::OcTree::build_palette::palette_rec"
ENTRIES = [QUANT, PAL_NEW, PAL_FROM, PAL_FIND]

NOT_DECIDED = ("NOT decided (value-level, outside static analysis): that the palette is optimal; the numeric bound 1..max(requested, 8) on the palette "
               "size (it rests on OcTreeInfo.leaf_count being the true leaf count and on prune() removing leaves); exactness of the k-d search as a "
               "fact over all palettes (only its structural soundness conditions are decided); losslessness when the colours fit; the dithering arithmetic.")


# ------------------------------------------------------------------------------------------------ helper expansion
# The rules speak about the functions of the quantisation mechanism by name (VOCAB).  Every other small crate-local function
# whose call sites all lie in one function (a helper extracted from it: sa/inline.py `inlinable`) is expanded in place before a
# body is evaluated, so that a rule sees the same terms, facts and call sequence whether or not statements were moved into a helper.
VOCAB = re.compile(
    r"^image::(Image::quantize|ColorError::(new|between|add)|OcTreeLeaf::(new|from_rgba|to_rgba)|OcTreeNode::(is_empty|take|info)|OcTreeInfo::(empty|join|from_slice)"
    r"|OcTree::(new|find|build_palette|build_palette::palette_rec|node_update|insert|insert::insert_rec|prune_until|prune|prune::argmin_color_count|prune::prune_rec)"
    r"|OcTreePath::(new|rgba)|KDTree::(new|new::build_rec|find|find::dist|find::find_rec)|ColorPalette::(new|from_image|from_image::blend|size|get|colors|find|find_naive))$")


def in_vocab(path):
    return not path.startswith("image::") or VOCAB.match(path) is not None


def blend_fn_check(prog, path):
    """(ok, problems, returned terms) of the question: is `path` a two-argument function f(bg, colour) that returns bg.blend_over(colour) exactly when
    alpha(colour) < 255 and the colour itself otherwise -- the compositing helper of the mechanism, whatever it is called and wherever it is
    written (nested in from_image, a module-level fn, an associated fn); None when it is not a loop-free two-argument crate function at all"""
    cache = prog.__dict__.setdefault("_c13_blend", {})
    if path in cache:
        return cache[path]
    cache[path] = None
    b = prog.body(path)
    if b is not None and b.arg_count == 2 and not b.closure_root and b.kind in ("Fn", "AssocFn") and len(b.blocks) <= 40:
        # the helper's own helpers (`is_opaque(colour)`, `alpha(colour)`) are expanded in place: the question is about what it computes
        b = expand(prog, path) or b
        try:
            ps = [p for p in evaluator(b).paths(0, ()) if p.end[0] not in ("infeasible", "unreachable") and not panics(b, p)]
        except TooManyPaths:
            ps = None
        if ps and all(p.end[0] == "return" and p.ret is not None for p in ps):
            probs = [blend_problem(p, p.ret, ("arg", 2), ("arg", 1), body=b) for p in ps]
            kinds = {("blend" if is_call(p.ret, r"::blend_over$") else "plain") for p in ps}
            cache[path] = (not any(probs) and kinds == {"blend", "plain"}, [x for x in probs if x] or sorted(kinds), [show(p.ret)[:80] for p in ps])
    return cache[path]


def is_blend_fn(prog, path):
    r = blend_fn_check(prog, path)
    return bool(r and r[0])


def expand(prog, path, depth=_inline.MAX_DEPTH):
    """Body of `path` with every inlinable helper outside VOCAB expanded in place (same transformation as sa/inline.py; blocks that
    come from a helper carry `inl_from` = its path and `inl_bb` = their block number there).  The plain body when there is none."""
    cache = prog.__dict__.setdefault("_c13_expand", {})
    if path in cache:
        return cache[path]
    base = prog.body(path)
    if base is None:
        return None
    root = base.closure_root or base.path
    j = None
    work = list(range(len(base.blocks)))
    level = {i: 0 for i in work}
    blocks, locals_, vars_ = base.blocks, base.locals, base.j["vars"]
    n = 0
    while work:
        bb = work.pop(0)
        blk = blocks[bb]
        t = blk["term"]
        if t["k"] != "call" or level.get(bb, 0) >= depth or blk["cleanup"]:
            continue
        f = t["fn"]
        cpath = f.get("resolved") if f.get("resolved_local") else (f.get("path") if f.get("local") else None)
        callee = prog.body(cpath) if cpath else None
        if callee is None or in_vocab(callee.path) or is_blend_fn(prog, callee.path) or len(t["args"]) != callee.arg_count or not _inline.inlinable(prog, callee, root):
            continue
        if j is None:
            j = copy.deepcopy(base.j)
            blocks, locals_, vars_ = j["blocks"], j["locals"], j["vars"]
            blk = blocks[bb]
            t = blk["term"]
        lo, bo = len(locals_), len(blocks)
        locals_.extend(copy.deepcopy(callee.locals))
        for v in callee.j["vars"]:
            vars_.append({"name": v["name"], "place": _inline._shift(v["place"], lo, 0)})
        for k, a in enumerate(t["args"]):
            blk["stmts"].append({"k": "assign", "place": {"l": lo + 1 + k, "p": []}, "rv": {"k": "use", "a": a}, "line": t.get("line", 0), "exp": False, "expk": "", "inl_arg": callee.path})
        dest, target, line = t["dest"], t["t"], t.get("line", 0)
        blk["term"] = {"k": "goto", "t": bo, "inl_call": callee.path, "line": line}
        for i, cb in enumerate(callee.blocks):
            nb = _inline._shift(cb, lo, bo)
            nb["inl_from"], nb["inl_bb"] = callee.path, i
            if nb["term"]["k"] == "return":
                nb["stmts"].append({"k": "assign", "place": dest, "rv": {"k": "use", "a": {"k": "move", "place": {"l": lo, "p": []}}}, "line": line, "exp": False, "expk": "", "inl_ret": callee.path})
                nb["term"] = {"k": "goto", "t": target} if target >= 0 else {"k": "unreachable"}
            blocks.append(nb)
            level[bo + i] = level.get(bb, 0) + 1
            work.append(bo + i)
        n += 1
    if j is None:
        cache[path] = base
        return base
    j["inlined_calls"] = n
    nb = Body(j, prog)
    cache[path] = nb
    return nb


def owner(prog, path):
    """the function of the mechanism a body belongs to: itself, the function its closure is written in, or -- for a helper outside VOCAB that
    expand() puts into the one function using it -- that function (transitively)"""
    seen = set()
    while path not in seen:
        seen.add(path)
        b = prog.body(path)
        if b is None:
            return path
        root = b.closure_root or b.path
        if in_vocab(root) or is_blend_fn(prog, root):
            return root
        callers = set()
        for c in prog.callgraph().callers(root):
            cb = prog.body(c)
            callers.add((cb.closure_root or cb.path) if cb is not None else c)
        callers.discard(root)
        if len(callers) != 1 or not _inline.inlinable(prog, prog.body(root), next(iter(callers))):
            return root
        path = next(iter(callers))
    return path


def home_of(body, bb):
    """(path, block) in the program's own bodies of block bb of an expanded body"""
    blk = body.blocks[bb]
    return (blk.get("inl_from") or body.path, blk.get("inl_bb", bb))


# ------------------------------------------------------------------------------------------------ term helpers
def is_call(t, rx):
    return isinstance(t, tuple) and t[0] == "call" and re.search(rx, t[1]) is not None


def field(t, name):
    return ("f", t, name)


def ix(t, i):
    return ("ix", t, ("c", str(i)))


def eta(t):
    """a tuple rebuilt from the components of one value, in order, is that value: (x.0, x.1, ..) -> x"""
    if isinstance(t, tuple) and t and t[0] == "tuple" and len(t[1]) >= 2:
        fs = t[1]
        if all(isinstance(f, tuple) and f[0] == "f" and f[2] == str(i) and f[1] == fs[0][1] for i, f in enumerate(fs)):
            return fs[0][1]
    return t


def some_payload(t):
    return ("f", ("dc", t, "Some"), "0")


def try_payload(t):
    """value of `t?`"""
    return ("f", ("dc", ("try", t), "Continue"), "0")


def unupd(t):
    """(value before, [modifiers]) of a local's value that was modified through `&mut`"""
    why = []
    while isinstance(t, tuple) and t and t[0] == "upd":
        why.append(t[2])
        t = t[1]
    return t, why


def contains(t, sub):
    return any(x == sub for x in subterms(t))


def variant_known(facts, t, discr, every=("0", "1")):
    """the facts pin the discriminant of t to `discr`: directly (`Some(x) =>` arm), or by excluding every other variant (`else` of an `if let`,
    `_ =>` arm); `every` = all discriminants of the type (default: Option / ControlFlow)"""
    for f in facts:
        if f[0] == "is" and f[1] == t and f[2] == discr:
            return True
        if f[0] == "isnot" and f[1] == t and set(every) - set(f[2]) == {discr}:
            return True
    return False


def closure_body(prog, t):
    """body of the closure whose environment aggregate is term t"""
    if isinstance(t, tuple) and t[0] == "agg" and t[1].startswith("closure:"):
        return prog.body(t[1][len("closure:"):])
    return None


def closure_upvars(t):
    return t[3] if isinstance(t, tuple) and t[0] == "agg" else ()


PANIC_FN = r"^core::panicking::|^std::rt::(begin_panic|panic_fmt)|panic_display|panic_explicit|unreachable_display|assert_failed|^core::(option|result)::(expect|unwrap)_failed"


def panics(body, p):
    """path p ends in a call of a panic entry point (`assert!`/`debug_assert!`/`unreachable!` failure arm): whether such a path can be taken
    is the TOTAL clause's business (every panic site is an obligation there); the structural clauses speak about the paths that return"""
    return p.end[0] == "diverge" and call_matches(body.blocks[p.end[1]]["term"], PANIC_FN)


def mut_arg(c, pred):
    """does call c take by `&mut` an argument whose term satisfies pred"""
    tys = c.t.get("arg_tys", [])
    return any(pred(a) and i < len(tys) and re.match(r"^&('\w+ )?mut ", tys[i]) for i, a in enumerate(c.args))


def paths_of(ctx, rule, body, start=0, stop=(), combinators=False):
    """returning paths of a loop-free body/region; anchors (fail closed) when the region is not loop free.
    combinators: Option / bool combinator chains are evaluated by their definition (sa/sympath.py), i.e. like the `match` they stand for"""
    ev = evaluator(body, combinators=combinators)
    try:
        ps = ev.paths(start, stop)
    except TooManyPaths:
        ctx.anchor(rule, body.path + "/too-many-paths")
        return ev, None
    ps = [p for p in ps if p.end[0] not in ("infeasible", "unreachable") and not panics(body, p)]
    if any(p.end[0] == "loop" for p in ps):
        ctx.anchor(rule, body.path + "/unexpected-loop", "%s contains a loop the rule does not understand" % body.path)
        return ev, None
    return ev, ps


def for_loops(body, ev):
    """`for x in <iter>` loops: list of dicts(call bb, iterator term, some/none successor, natural-loop body, item term)"""
    cfg = body.cfg()
    loops = cfg.loops()
    out = []
    for bb, t in body.calls():
        if not call_matches(t, r"Iterator>::next$|Iterator::next$") or t["dest"]["p"]:
            continue
        nxt = body.blocks[t["t"]]["term"]
        if nxt["k"] != "switch":
            continue
        some = none = None
        for v, tg in zip(nxt["vals"], nxt["targets"]):
            if v == "1":
                some = tg
            if v == "0":
                none = tg
        if some is None or none is None:
            continue
        inner = None
        for h, bd in loops.items():
            if bb in bd and (inner is None or len(bd) < len(loops[inner])):
                inner = h
        if inner is None:
            continue
        term = ev.local(t["dest"]["l"], None)
        out.append({"bb": bb, "switch": t["t"], "some": some, "none": none, "head": inner, "body": loops[inner], "next": term,
                    "iter": term[2][0] if term[0] == "call" and term[2] else None, "item": some_payload(term), "line": t["line"]})
    return out


def loop_early_exits(body, lp, allow_unless_reaches=()):
    """edges leaving the natural loop of a `for` other than the None edge of its next(); edges into blocks from which none of
    `allow_unless_reaches` is reachable (e.g. the `?` failure path when only Some-returns matter) are tolerated"""
    cfg = body.cfg()
    out = []
    for x in lp["body"]:
        if body.blocks[x]["cleanup"]:
            continue
        for y in cfg.succ[x]:
            if y in lp["body"] or (x == lp["switch"] and y == lp["none"]) or body.blocks[y]["term"]["k"] == "unreachable":
                continue
            if allow_unless_reaches and not (cfg.reachable_from(y) & set(allow_unless_reaches)):
                continue
            out.append((x, y))
    return out


def flag_edges(body, ev, flag):
    """(edges taken only when the boolean term `flag` is true, edges taken only when it is false) over `if flag` / `if !flag` / `match flag`"""
    on, off = [], []
    for x, blk in enumerate(body.blocks):
        t = blk["term"]
        if t["k"] != "switch" or len(t["vals"]) != 1 or t["vals"][0] not in ("0", "1"):
            continue
        d = ev.operand(t["d"], None)
        neg = False
        while isinstance(d, tuple) and d[0] == "un" and d[1] == "Not":
            d, neg = d[2], not neg
        if d != flag:
            continue
        zero, other = (t["targets"][0], t["otherwise"]) if t["vals"][0] == "0" else (t["otherwise"], t["targets"][0])
        if zero == other:
            continue
        # `zero` is taken when the switched value is false
        (on if neg else off).append((x, zero))
        (off if neg else on).append((x, other))
    return on, off


def range_of(it):
    """(start, end) when the iterator term is into_iter(Range{start, end}) / Range{..}"""
    t = it
    if is_call(t, r"IntoIterator.*::into_iter$|::into_iter$") and t[2]:
        t = t[2][0]
    if isinstance(t, tuple) and t[0] == "agg" and t[1] == "std::ops::Range" and len(t[3]) == 2:
        return t[3][0], t[3][1]
    return None


def alpha_of(s):
    """matcher for `to_rgba(s)[3]`"""
    def m(t):
        return isinstance(t, tuple) and t[0] == "ix" and t[2] == ("c", "3") and is_call(t[1], r"::to_rgba$") and len(t[1][2]) == 1 and strip(t[1][2][0]) == strip(s)
    return m


def blend_problem(p, value, src, bg, prog=None, body=None):
    """None when on path p `value` is the composited source colour: blend_over(bg, src) exactly when alpha(src) < 255, src otherwise
    (written out on the path, or as a call helper(bg, src) of a function that blend_fn_check found to be exactly that)"""
    if prog is not None and isinstance(value, tuple) and value[0] == "call" and len(value[2]) == 2 and is_blend_fn(prog, value[1]):
        if strip(value[2][0]) == strip(bg) and strip(value[2][1]) == strip(src):
            return None
        return "the compositing helper is called with (%s, %s) instead of (bg, pixel)" % (show(value[2][0])[:60], show(value[2][1])[:60])
    al = alpha_of(src)
    # alpha < 255 in any spelling; the alpha channel is a u8 (Color::to_rgba returns [u8; 4]: checked on the call's destination type), so
    # `!= 255` is `< 255` and `== 255` is `>= 255` (`match c.to_rgba() { [_, _, _, 255] => c, _ => blend }`, `if a == u8::MAX`)
    u8_alpha = any(c.matches(r"::to_rgba$") and not c.t["dest"]["p"] and (c.body or body) is not None and (c.body or body).local_ty(c.t["dest"]["l"]) == "[u8; 4]" for c in p.calls) \
        and all((c.body or body) is not None and (c.body or body).local_ty(c.t["dest"]["l"]) == "[u8; 4]" for c in p.calls if c.matches(r"::to_rgba$") and not c.t["dest"]["p"])

    def low(f):
        f = strip(f)
        return (f[0] == "lt" and al(f[1]) and f[2] == ("c", "255")) or (f[0] == "le" and al(f[1]) and f[2] == ("c", "254")) \
            or (u8_alpha and f[0] == "ne" and ((al(f[1]) and f[2] == ("c", "255")) or (al(f[2]) and f[1] == ("c", "255"))))

    def high(f):
        f = strip(f)
        return (f[0] == "lt" and f[1] == ("c", "254") and al(f[2])) or (f[0] == "le" and f[1] == ("c", "255") and al(f[2])) \
            or (u8_alpha and f[0] == "eq" and ((al(f[1]) and f[2] == ("c", "255")) or (al(f[2]) and f[1] == ("c", "255"))))
    lows = [f for f in p.facts if low(f)]
    highs = [f for f in p.facts if high(f)]
    if is_call(value, r"::blend_over$") and len(value[2]) == 2 and strip(value[2][0]) == strip(bg) and strip(value[2][1]) == strip(src):
        if lows and not highs:
            return None
        return "blend_over(bg, colour) is applied without the guard alpha < 255 (facts: %s)" % [show(f) for f in p.facts if any(al(x) for x in f[1:] if isinstance(x, tuple))]
    if strip(value) == strip(src):
        if highs and not lows:
            return None
        return "the colour is used unblended without the guard alpha >= 255 (facts: %s)" % [show(f) for f in p.facts if any(al(x) for x in f[1:] if isinstance(x, tuple))]
    return "colour %s is neither the source pixel %s nor blend_over(%s, pixel)" % (show(value)[:160], show(src)[:120], show(bg)[:60])


# =================================================================================================================
def run(ctx):
    prog = ctx.prog
    ctx.explanation = (
        "Decides structural (necessary) clauses of C13 on MIR by path-sensitive symbolic evaluation (sa/sympath.py) and CFG rules: SAME-SIZE (index image "
        "created with the source size; every position of the 0..height x 0..width loops is written exactly once at the position that was read), "
        "INDEX-VALID (stored value = palette.find(..).0 of the returned palette; find returns KDNode.color_index; node indices come from enumerate() over "
        "the colour vector stored in the palette; ColorPalette::new rejects an empty vector), BLEND-AGREE (palette extraction and pixel mapping replace a "
        "colour by bg.blend_over(colour) exactly when alpha < 255, same bg, default opaque black), DITHER-GUARD (error rows touched only under `if dither`; "
        "without dithering the blended source pixel itself is looked up), NEAREST-SHAPE (metric = sum of squared differences over r,g,b; returned "
        "candidate minimal among the visited ones by the comparisons on the path; a child is skipped only when it lies across the node's own splitting "
        "plane and plane distance >= best; build partitions around the median in the node's own dimension), PALETTE-BOUND shape (prune_until(palette_size) "
        "before build_palette on the filled tree; loop runs while leaf_count > bound; one colour per leaf with leaf.index = its position), TOTAL (no "
        "reachable panic/overflow/bounds/unwrap in src/image.rs from quantize / ColorPalette::{new,from_image,find}). " + NOT_DECIDED)
    ctx.assume("SIZE-BOUND: image height, width and the requested palette size are below 2^31, and palette_size >= 1 (the property quantifies over requested sizes >= 1)")
    ctx.assume("PIXEL-COUNT: the image has fewer than 2^48 pixels, so sums of 8-bit channel values and of leaf/colour counts over all pixels fit in usize")

    bodies = {}
    for p in (QUANT, PAL_NEW, PAL_FROM, PAL_FIND, KD_NEW, KD_BUILD, KD_FIND, KD_REC, KD_DIST, OC_PRUNE_UNTIL, OC_BUILD):
        b = expand(prog, p)
        if b is None and p != KD_DIST:      # the metric may be written out in find_rec itself
            ctx.rule("ANCHORS", "functions named by the property's mechanism exist", floor=0)
            ctx.anchor("ANCHORS", p)
        bodies[p] = b
    if any(b is None for p, b in bodies.items() if p != KD_DIST):
        return

    q = quantize_shape(ctx, bodies)
    index_valid(ctx, bodies, q)
    blend_agree(ctx, bodies, q)
    dither_guard(ctx, bodies, q)
    kd = nearest_shape(ctx, bodies)
    palette_bound(ctx, bodies)
    total(ctx, bodies, q, kd)


# =================================================================================================================
# quantize: loops, positions, size
# =================================================================================================================
def quantize_shape(ctx, bodies):
    R = "SAME-SIZE"
    ctx.rule(R, "index image = SurfaceOwned::new(self.size()); rows 0..height x cols 0..width; one set(pos, _) per position, at the position read; returned", floor=7)
    b = bodies[QUANT]
    prog = ctx.prog
    ev = evaluator(b)
    q = {"ev": ev, "ok": False}
    sets = [(bb, t) for bb, t in b.calls() if call_matches(t, r"SurfaceMut::set$|SurfaceMut.*>::set$")]
    if len(sets) != 1:
        ctx.anchor(R, "quantize/set-call", "Image::quantize does not contain exactly one SurfaceMut::set call (found %d)" % len(sets))
        return q
    sbb, st = sets[0]
    loops = for_loops(b, ev)
    inner = [l for l in loops if sbb in l["body"]]
    inner.sort(key=lambda l: len(l["body"]))
    if len(inner) != 2:
        ctx.anchor(R, "quantize/loops", "the set call is not nested in exactly two `for` loops (found %d)" % len(inner))
        return q
    col_loop, row_loop = inner
    q.update({"set_bb": sbb, "set": st, "col_loop": col_loop, "row_loop": row_loop, "loops": loops})
    evp, ps = paths_of(ctx, R, b, col_loop["some"], [col_loop["head"]])
    if ps is None:
        return q
    q["ev"] = ev = evp
    loop_paths = [p for p in ps if p.end[0] == "stop"]
    exit_paths = [p for p in ps if p.end[0] != "stop"]
    q["paths"] = loop_paths
    self_ = ("arg", 1)

    # 1 size
    qimg = ev.operand(st["args"][0], None)
    ok = False
    if is_call(qimg, r"SurfaceOwned::<T>::new$") and len(qimg[2]) == 1:
        sz = strip(qimg[2][0])
        h, w = ("call", "surface::Surface::height", (self_,), None), ("call", "surface::Surface::width", (self_,), None)
        forms = [("call", "surface::Surface::size", (self_,), None), ("call", "terminal::Size::new", (h, w), None),
                 ("agg", "terminal::Size", "Size", (h, w), ("height", "width"))]
        ok = sz in forms
    ctx.instance(R, {"index_image": show(qimg)[:120], "created_with_source_size": ok})
    if not ok:
        ctx.violation(R, QUANT, "qimg-size", "the index image written by quantize is %s, not SurfaceOwned::new(self.size())" % show(qimg)[:160], sites=[b.loc])
    q["qimg"] = qimg

    # 2 loops range over 0..height / 0..width of self
    for nm, lp, dimfn in (("rows", row_loop, "height"), ("cols", col_loop, "width")):
        rg = range_of(lp["iter"]) if lp["iter"] else None
        want = (("c", "0"), ("call", "surface::Surface::%s" % dimfn, (self_,), None))
        ok = rg is not None and (strip(rg[0]), strip(rg[1])) == want
        # the iterator is advanced only by the loop header
        users = [1 for bb2, t2 in b.calls() if any(ev.operand(a, None) == lp["iter"] for a in t2["args"])]
        ok_it = len(users) == 1
        ctx.instance(R, {"loop": nm, "range": [show(x) for x in rg] if rg else None, "is_0_to_%s" % dimfn: ok, "iterator_used_only_by_header": ok_it})
        if not (ok and ok_it):
            ctx.violation(R, QUANT, "loop-" + nm, "the %s loop of quantize does not run over 0..self.%s() (found %s)" % (nm, dimfn, [show(x) for x in rg] if rg else show(lp["next"])[:120]),
                          sites=["%s:%d" % (b.file, lp["line"])])
    ok_nest = col_loop["body"] < row_loop["body"] and col_loop["head"] in row_loop["body"]
    pos_want = ("call", "terminal::Position::new", (strip(row_loop["item"]), strip(col_loop["item"])), None)
    pos_forms = [pos_want, ("agg", "terminal::Position", "Position", pos_want[2], ("row", "col"))]

    # 3 set position / 4 read position / 5 exactly once
    okp = okr = bool(loop_paths)
    found = None
    for p in loop_paths:
        cs = [c for c in p.calls if c.bb == sbb]
        if len(cs) != 1:
            okp = False
            continue
        pos = cs[0].args[1]
        found = pos
        if strip(pos) not in pos_forms:
            okp = False
        gets = [c for c in p.calls if c.matches(r"Surface::get$|Surface.*>::get$") and c.args[0] == self_]
        if len(gets) != 1 or gets[0].args[1] != pos:
            okr = False
        # the pixel: `*self.get(pos)?` (Try::branch is transparent: payload of Continue) or the payload of Some
        q.setdefault("src", {})[id(p)] = [try_payload(gets[0].term), some_payload(gets[0].term)] if gets else None
    ctx.instance(R, {"set_position": show(found)[:200] if found else None, "is_Position(row, col)_of_the_two_loops": okp and ok_nest})
    if not (okp and ok_nest):
        ctx.violation(R, QUANT, "set-pos", "qimg.set is not called at Position::new(row, col) of the enclosing row/col loops (found %s)" % (show(found)[:200] if found else None),
                      sites=["%s:%d" % (b.file, st["line"])])
    ctx.instance(R, {"pixel_read_at_same_position": okr})
    if not okr:
        ctx.violation(R, QUANT, "read-pos", "the pixel mapped in an iteration is not read with self.get(pos) at the same `pos` that is written", sites=["%s:%d" % (b.file, st["line"])])
    cfg = b.cfg()
    every = cfg.must_pass([sbb], exits=[col_loop["head"]], start=col_loop["some"])[0]
    others = [t2["line"] for bb2, t2 in b.calls() if bb2 != sbb and any(ev.operand(a, None) == qimg for a in t2["args"])]
    deeper = [l for l in loops if sbb in l["body"] and l is not col_loop and l is not row_loop]
    some_rets = [bb for bb, si, s in b.assigns() if s["place"]["l"] == 0 and not s["place"]["p"] and s["rv"]["k"] == "agg" and s["rv"].get("variant") == "Some"]
    early = [e for lp in (row_loop, col_loop) for e in loop_early_exits(b, lp, some_rets)]
    ok1 = every and not others and not deeper and not early
    ctx.instance(R, {"every_iteration_passes_set": every, "other_uses_of_index_image": others, "loops_left_early_on_a_path_to_Some": early, "ok": ok1})
    if not ok1:
        ctx.violation(R, QUANT, "set-once", "a position of 0..height x 0..width is not written exactly once (an iteration can skip qimg.set, a loop is left early (edges %s), or the index image is "
                                            "touched elsewhere: lines %s)" % (early, others), sites=[b.loc])

    # 6 what is returned: Some((palette, qimg)) with this very index image
    rets = []
    for bb, si, s in b.assigns():
        if s["place"]["l"] == 0 and not s["place"]["p"] and s["rv"]["k"] == "agg" and s["rv"].get("variant") == "Some":
            rets.append(ev.rvalue(s["rv"], None))
    okret = bool(rets)
    pal = None
    for r in rets:
        inner_ = r[3][0]
        if not (inner_[0] == "tuple" and len(inner_[1]) == 2 and inner_[1][1] == qimg):
            okret = False
        else:
            pal = inner_[1][0]
    ctx.instance(R, {"returned": [show(r)[:200] for r in rets], "second_component_is_the_written_index_image": okret})
    if not okret:
        ctx.violation(R, QUANT, "returned", "quantize does not return Some((palette, qimg)) with the index image it filled: %s" % [show(r)[:160] for r in rets], sites=[b.loc])
    q["palette"] = pal
    q["exit_paths"] = exit_paths
    q["ok"] = True
    return q


# =================================================================================================================
# INDEX-VALID
# =================================================================================================================
def adt_writers(prog, adt):
    """(aggregate sites, field stores, &mut borrows of fields) of an ADT over the whole crate"""
    aggs, stores, muts = [], [], []
    for b in prog.bodies:
        for bb, si, s in b.assigns():
            rv = s["rv"]
            if rv["k"] == "agg" and rv.get("adt") == adt:
                aggs.append((b, s))
            pl = s["place"]
            for e in pl["p"]:
                if e["k"] == "field" and e.get("adt") == adt:
                    stores.append((b, s, e["name"]))
            if rv["k"] in ("ref", "rawptr") and rv.get("mut"):
                es = [e for e in rv["place"]["p"] if e["k"] == "field"]
                if es and es[-1].get("adt") == adt:
                    muts.append((b, s, es[-1]["name"]))
        for bb, t in b.calls():
            for e in t["dest"]["p"]:
                if e["k"] == "field" and e.get("adt") == adt:
                    stores.append((b, t, e["name"]))
    return aggs, stores, muts


def index_valid(ctx, bodies, q):
    R = "INDEX-VALID"
    ctx.rule(R, "stored index = returned_palette.find(..).0; find -> KDNode.color_index; color_index from enumerate() over the palette's own colour vector; palette non-empty", floor=13)
    prog = ctx.prog
    b = bodies[QUANT]
    # 1 stored value
    if q.get("ok"):
        pal = q["palette"]
        ok = bool(q["paths"]) and pal is not None
        found = None
        for p in q["paths"]:
            c = [c for c in p.calls if c.bb == q["set_bb"]][0]
            v = c.args[2]
            found = v
            good = v[0] == "f" and v[2] == "0" and is_call(v[1], r"^image::ColorPalette::find$") and v[1][2][0] == pal
            ok = ok and good
            q.setdefault("find", {})[id(p)] = v[1] if v[0] == "f" else None
        okpal = pal is not None and pal[0] == "f" and pal[1][0] == "dc" and pal[1][1][0] == "try" and pal == try_payload(pal[1][1][1]) and is_call(pal[1][1][1], r"^image::ColorPalette::from_image$")
        ctx.instance(R, {"stored": show(found)[:200] if found else None, "is_find_of_returned_palette": ok, "returned_palette": show(pal)[:160] if pal else None})
        if not ok:
            ctx.violation(R, QUANT, "stored-index", "the value stored into the index image is not `.0` of find() on the palette that is returned (stored %s, returned palette %s)"
                          % (show(found)[:200] if found else None, show(pal)[:120] if pal else None), sites=["%s:%d" % (b.file, q["set"]["line"])])
        ctx.instance(R, {"returned_palette_from": "ColorPalette::from_image(..)?", "ok": bool(okpal)})
        if not okpal:
            ctx.violation(R, QUANT, "palette-source", "the returned palette is not the result of ColorPalette::from_image(..)?", sites=[b.loc])
    else:
        ctx.anchor(R, "quantize-shape")

    # 2 ColorPalette::find delegates to the k-d tree of the same palette
    pf = bodies[PAL_FIND]
    ev, ps = paths_of(ctx, R, pf)
    if ps is not None:
        want = ("call", KD_FIND, (field(("arg", 1), "kdtree"), ("arg", 2)), None)
        # the pair may be taken apart and rebuilt (`let (index, found) = self.kdtree.find(color); debug_assert!(..); (index, found)`): (x.0, x.1) is x
        ok = bool(ps) and all(p.ret is not None and eta(strip(p.ret)) == want for p in ps)
        ctx.instance(R, {"ColorPalette::find": [show(p.ret)[:120] for p in ps], "is_kdtree.find(color)": ok})
        if not ok:
            ctx.violation(R, PAL_FIND, "delegate", "ColorPalette::find does not return self.kdtree.find(color): %s" % [show(p.ret)[:160] for p in ps], sites=[pf.loc])

    # 3 KDTree::find returns the color_index of the node found in self.nodes
    kf = bodies[KD_FIND]
    ev, ps = paths_of(ctx, R, kf)
    if ps is not None:
        ok = bool(ps)
        for p in ps:
            r = p.ret
            good = r is not None and r[0] == "tuple" and len(r[1]) == 2 and r[1][0][0] == "f" and r[1][0][2] == "color_index"
            if good:
                node = r[1][0][1]
                good = node[0] == "f" and node[2] == "0" and is_call(node[1], r"^image::KDTree::find::find_rec$") and node[1][2][0] == field(("arg", 1), "nodes")
            ok = ok and good
        ctx.instance(R, {"KDTree::find_returns": [show(p.ret[1][0])[:160] if p.ret and p.ret[0] == "tuple" else None for p in ps], "is_color_index_of_found_node": ok})
        if not ok:
            ctx.violation(R, KD_FIND, "index-field", "KDTree::find does not return `.color_index` of the node found by find_rec(&self.nodes, ..)", sites=[kf.loc])

    # 4 KDNode writers
    aggs, stores, muts = adt_writers(prog, "image::KDNode")
    where = sorted({owner(prog, bb_.path) for bb_, s in aggs})
    ok = where == [KD_BUILD] and not stores and not muts
    ctx.instance(R, {"KDNode_constructed_in": where, "field_stores": [(x[0].path, x[2]) for x in stores], "mut_borrows": [(x[0].path, x[2]) for x in muts], "ok": ok})
    if not ok:
        ctx.violation(R, "image::KDNode", "writers", "KDNode values are built or modified outside KDTree::new::build_rec: %s"
                      % (where + [(x[0].path, x[2]) for x in stores + muts]), sites=[x[0].loc for x in stores + muts])

    # 5 color_index / color come from the same (index, colour) pair of the slice; sub-slices and same node vector in the recursion
    kb = bodies[KD_BUILD]
    ev, ps = paths_of(ctx, R, kb)
    if ps is not None:
        n = 0
        for p in ps:
            for c in p.calls:
                for a in c.args:
                    if a[0] == "agg" and a[1] == "image::KDNode":
                        n += 1
                        f = dict(zip(a[4], a[3]))
                        ci, co = f.get("color_index"), f.get("color")
                        ok = (ci is not None and co is not None and ci[0] == "f" and ci[2] == "0" and co[0] == "f" and co[2] == "1" and ci[1] == co[1]
                              and ci[1][0] == "ix" and ci[1][1] == ("arg", 3))
                        ctx.instance(R, {"KDNode.color_index": show(ci)[:100], "KDNode.color": show(co)[:100], "same_slice_element": ok})
                        if not ok:
                            ctx.violation(R, KD_BUILD, "color-index-source", "a KDNode's color_index (%s) and color (%s) are not the two halves of one (index, colour) element of the slice"
                                          % (show(ci)[:100], show(co)[:100]), sites=["%s:%d" % (kb.file, c.t["line"])])
            for c in p.calls:
                if c.matches(r"^image::KDTree::new::build_rec$"):
                    sl = c.args[2]
                    ok = c.args[1] == ("arg", 2) and is_call(sl, r"IndexMut.*index_mut$|Index.*::index$") and sl[2][0] == ("arg", 3) and sl[2][1][0] == "agg" and sl[2][1][1].startswith("std::ops::Range")
                    ctx.instance(R, {"recursive_build_on": show(sl)[:140], "same_nodes_vec_and_subslice": ok})
                    if not ok:
                        ctx.violation(R, KD_BUILD, "sub-slices", "build_rec recurses on %s / %s instead of a sub-slice of its colours and its own node vector" % (show(sl)[:120], show(c.args[1])[:60]),
                                      sites=["%s:%d" % (kb.file, c.t["line"])])
            bad = [c for c in p.calls if mut_arg(c, lambda a: contains(a, ("arg", 3)))
                   and not c.matches(r"sort_by_key$|sort_by$|sort_unstable_by_key$|sort_by_cached_key$|slice::<impl \[T\]>::len$|index_mut$|Index.*::index$|^image::KDTree::new::build_rec$|::push$")]
            bad_st = [s_ for s_ in p.stores if contains(s_[0], ("arg", 3))]
            if bad or bad_st:
                ctx.violation(R, KD_BUILD, "slice-mutation", "the (index, colour) slice is modified other than by sorting: %s" % ([c.name for c in bad] + [show(s_[0]) for s_ in bad_st]), sites=[kb.loc])
        if n < 2:
            ctx.anchor(R, "build_rec/KDNode-aggregates")

    # 6 KDTree::new: enumerate over the colour slice, same node vector stored
    kn = bodies[KD_NEW]
    ev, ps = paths_of(ctx, R, kn)
    if ps is not None:
        ok = bool(ps)
        chain_txt = None
        for p in ps:
            calls = [c for c in p.calls if c.matches(r"^image::KDTree::new::build_rec$")]
            good = len(calls) == 1 and p.ret is not None and p.ret[0] == "agg" and p.ret[1] == "image::KDTree"
            if good:
                c = calls[0]
                nodes, coll = c.args[1], c.args[2]
                # the stored vector is the local handed to build_rec by `&mut`, modified by nothing else
                stored, mods = unupd(p.ret[3][0]) if len(p.ret[3]) == 1 else (None, [])
                good = stored == nodes and mods == ["build_rec#%d" % c.bb] and is_call(nodes, r"Vec::<T>::new$|Vec::<T>::with_capacity$")
                chain_txt = show(coll)
                good = good and is_call(coll, r"Iterator::collect$") and is_call(coll[2][0], r"Iterator::enumerate$")
                if good:
                    t = coll[2][0][2][0]
                    while True:
                        if is_call(t, r"Iterator::(copied|cloned)$"):
                            t = t[2][0]
                        elif is_call(t, r"Iterator::map$") and t[2][1][0] == "c" and re.search(r"^fn:.*::to_rgb$", str(t[2][1][1])):
                            t = t[2][0]         # map(Color::to_rgb)
                        elif is_call(t, r"Iterator::map$"):
                            cb = closure_body(ctx.prog, t[2][1])
                            evc, cps = paths_of(ctx, R, cb) if cb is not None else (None, None)
                            if not cps or not all(cp.ret is not None and strip(cp.ret) in (("call", "rasterize::Color::to_rgb", (("arg", 2),), None), ("arg", 2)) for cp in cps):
                                good = False
                                break
                            t = t[2][0]
                        else:
                            break
                    good = good and is_call(t, r"slice::<impl \[T\]>::iter$") and t[2][0] == ("arg", 1)
            ok = ok and good
        ctx.instance(R, {"KDTree::new_colours": chain_txt[:200] if chain_txt else None, "enumerate_over_position_preserving_chain_of_the_argument_slice": ok})
        if not ok:
            ctx.violation(R, KD_NEW, "enumerate", "KDTree::new does not number the colours with enumerate() directly over its argument slice (only iter/map(to_rgb)/copied before, nothing after), "
                          "or does not store the node vector it built: %s" % (chain_txt[:240] if chain_txt else None), sites=[kn.loc])
    aggs, stores, muts = adt_writers(prog, "image::KDTree")
    where = sorted({owner(prog, bb_.path) for bb_, s in aggs})
    ok = where == [KD_NEW] and not stores and not muts
    ctx.instance(R, {"KDTree_constructed_in": where, "field_stores": [(x[0].path, x[2]) for x in stores], "mut_borrows": [(x[0].path, x[2]) for x in muts], "ok": ok})
    if not ok:
        ctx.violation(R, "image::KDTree", "writers", "KDTree values are built or their node vector is modified outside KDTree::new: %s" % (where + [(x[0].path, x[2]) for x in stores + muts]),
                      sites=[x[0].loc for x in stores + muts])

    # 7 ColorPalette::new
    pn = bodies[PAL_NEW]
    ev, ps = paths_of(ctx, R, pn, combinators=True)        # `(!colors.is_empty()).then(|| ..)` is the `if` it stands for
    if ps is not None:
        ok = bool(ps)
        some = 0
        for p in ps:
            r = p.ret
            if r is not None and r[0] == "agg" and r[2] == "None":
                continue
            some += 1
            good = r is not None and r[0] == "agg" and r[2] == "Some" and r[3][0][0] == "agg" and r[3][0][1] == "image::ColorPalette"
            if good:
                f = dict(zip(r[3][0][4], r[3][0][3]))
                good = f.get("colors") == ("arg", 1) and is_call(f.get("kdtree"), r"^image::KDTree::new$") and f["kdtree"][2] == (("arg", 1),)
                good = good and any(fa[0] == "false" and is_call(fa[1], r"Vec::<T, A>::is_empty$") and fa[1][2] == (("arg", 1),) for fa in p.facts) or \
                    (good and any(fa[0] in ("ne", "lt") and is_call(fa[1] if fa[0] == "ne" else fa[2], r"Vec::<T, A>::len$") and (fa[2] if fa[0] == "ne" else fa[1]) == ("c", "0") for fa in p.facts))
            ok = ok and good
        ok = ok and some >= 1
        ctx.instance(R, {"ColorPalette::new": [show(p.ret)[:160] for p in ps], "rejects_empty_and_stores_the_vector_the_tree_was_built_from": ok})
        if not ok:
            ctx.violation(R, PAL_NEW, "palette-new", "ColorPalette::new does not (reject an empty vector and) store the same `colors` it built the k-d tree from: %s" % [show(p.ret)[:160] for p in ps], sites=[pn.loc])
    aggs, stores, muts = adt_writers(prog, "image::ColorPalette")
    where = sorted({owner(prog, bb_.path) for bb_, s in aggs})
    ok = where == [PAL_NEW] and not stores and not muts
    ctx.instance(R, {"ColorPalette_constructed_in": where, "field_stores": [(x[0].path, x[2]) for x in stores], "mut_borrows": [(x[0].path, x[2]) for x in muts], "ok": ok})
    if not ok:
        ctx.violation(R, "image::ColorPalette", "writers", "ColorPalette values are built or modified outside ColorPalette::new: %s" % (where + [(x[0].path, x[2]) for x in stores + muts]),
                      sites=[x[0].loc for x in stores + muts])


# =================================================================================================================
# BLEND-AGREE
# =================================================================================================================
def blend_agree(ctx, bodies, q):
    R = "BLEND-AGREE"
    ctx.rule(R, "from_image and quantize replace a colour by bg.blend_over(colour) exactly when alpha < 255, with the same bg (default opaque black)", floor=5)
    prog = ctx.prog
    # 1 the helper: whichever crate function the fill sites of from_image call with (bg, pixel) -- decided on what it computes (below, after the sites)
    helpers = []

    def helper_call(v):
        """v is a call f(a, b) of a two-argument function of this crate (its meaning is decided by blend_fn_check)"""
        hb = prog.body(v[1]) if isinstance(v, tuple) and v[0] == "call" and len(v[2]) == 2 else None
        if hb is None or hb.arg_count != 2 or hb.closure_root:
            return False
        if v[1] not in helpers:
            helpers.append(v[1])
        return True
    # 2 every colour inserted by from_image is blend(bg, pixel of img)
    fi = bodies[PAL_FROM]
    ev = evaluator(fi)
    bg, img = ("arg", 3), ("arg", 1)

    def pixel(t):
        """t is an item of an iterator over img.iter() (through copied/cloned/nth/next)"""
        t = strip(t)
        if t[0] == "f" and t[2] == "0" and t[1][0] == "dc" and t[1][2] == "Some":
            t = t[1][1]
            if is_call(t, r"Iterator>::(nth|next)$|Iterator::(nth|next)$"):
                t = t[2][0]
        while is_call(t, r"Iterator::(copied|cloned)$|IntoIterator.*into_iter$"):
            t = t[2][0]
        return is_call(t, r"Surface::iter$|Surface.*>::iter$") and t[2] == (img,)

    sites = 0
    for bb, t in fi.calls():
        if call_matches(t, r"^image::OcTree::insert$"):
            sites += 1
            v = ev.operand(t["args"][1], None)
            ok = helper_call(v) and v[2][0] == bg and pixel(v[2][1])
            ctx.instance(R, {"from_image_inserts": show(v)[:160], "is_blend(bg, pixel)": bool(ok)})
            if not ok:
                ctx.violation(R, PAL_FROM, "insert-site", "a colour is inserted into the octree without blend(bg, pixel): %s" % show(v)[:200], sites=["%s:%d" % (fi.file, t["line"])])
        elif call_matches(t, r"Iterator::collect$|FromIterator.*from_iter$|Extend.*::extend$") and ("image::OcTree" in fi.local_ty(t["dest"]["l"]) or any("image::OcTree" in x for x in t.get("arg_tys", []))):
            sites += 1
            v = ev.operand(t["args"][-1], None)
            ok = is_call(v, r"Iterator::map$") and pixel(v[2][0])
            cb = closure_body(prog, v[2][1]) if ok else None
            if cb is not None:
                evc, cps = paths_of(ctx, R, cb)
                up = closure_upvars(v[2][1])
                ok = bool(cps)
                for cp in cps or []:
                    r = strip(cp.ret) if cp.ret is not None else None
                    good = r is not None and helper_call(r) and r[2][1] == ("arg", 2) and r[2][0][0] == "f" and r[2][0][1] == ("arg", 1)
                    if good:
                        i = int(r[2][0][2]) if r[2][0][2].isdigit() else -1
                        good = 0 <= i < len(up) and up[i] == bg
                    ok = ok and good
            else:
                ok = False
            ctx.instance(R, {"from_image_collects": show(v)[:160], "is_map(|c| blend(bg, *c))_over_img.iter()": bool(ok)})
            if not ok:
                ctx.violation(R, PAL_FROM, "collect-site", "the octree is collected from colours that are not blend(bg, pixel): %s" % show(v)[:200], sites=["%s:%d" % (fi.file, t["line"])])
        elif any("image::OcTree" in x and x.startswith("&mut") for x in t.get("arg_tys", [])) and not call_matches(t, r"^image::OcTree::(prune_until|build_palette|prune)$"):
            sites += 1
            ctx.violation(R, PAL_FROM, "unknown-fill", "the octree is filled through %s, which the rule does not understand" % (t["fn"].get("resolved") or t["fn"].get("path")), sites=["%s:%d" % (fi.file, t["line"])])
    if sites < 2:
        ctx.anchor(R, "from_image/fill-sites", "fewer than two octree fill sites (collect / insert) found in from_image")
    for h in helpers:
        chk = blend_fn_check(prog, h)
        ok = bool(chk and chk[0])
        ctx.instance(R, {"compositing_helper": h, "returns": chk[2] if chk else None, "is_blend_over_iff_alpha_lt_255": ok})
        if not ok:
            ctx.violation(R, h, "blend-fn", "palette extraction does not composite exactly the pixels with alpha < 255: %s" % (chk[1] if chk else "not a loop-free function the rule understands"),
                          sites=[prog.body(h).loc])
    if not helpers:
        ctx.anchor(R, "from_image/blend-helper", "no fill site of from_image hands helper(bg, pixel) to the octree")
    # 3 quantize
    if not q.get("ok"):
        ctx.anchor(R, "quantize-shape")
        return
    b = bodies[QUANT]
    ev = q["ev"]
    fc = [(bb, t) for bb, t in b.calls() if call_matches(t, r"^image::ColorPalette::from_image$")]
    qbg = None
    if len(fc) == 1:
        a = [ev.operand(x, None) for x in fc[0][1]["args"]]
        qbg = a[2]
        ok = a[0] == ("arg", 1) and a[1] == ("arg", 2)
        okbg, dflt = default_bg(b, fc[0][0], fc[0][1]["args"][2], ("arg", 4))
        ctx.instance(R, {"quantize_calls_from_image_with": [show(x)[:80] for x in a], "image_and_size_forwarded": ok, "bg_defaults_to_opaque_black": bool(okbg)})
        if not ok:
            ctx.violation(R, QUANT, "from-image-args", "quantize extracts the palette from %s with size %s instead of (self, palette_size)" % (show(a[0])[:60], show(a[1])[:60]), sites=["%s:%d" % (b.file, fc[0][1]["line"])])
        if not okbg:
            ctx.violation(R, QUANT, "default-bg", "the background is not bg.unwrap_or(opaque black): %s / default %s" % (show(qbg)[:100], [show(x) for x in dflt or []]), sites=["%s:%d" % (b.file, fc[0][1]["line"])])
    else:
        ctx.anchor(R, "quantize/from_image-call")
    probs = []
    for p in q["paths"]:
        srcs = q["src"].get(id(p))
        v = mapped_colour(p, q)
        if not srcs or v is None or qbg is None:
            probs.append("pixel source or looked-up colour not understood")
            continue
        src = ([s_ for s_ in srcs if contains(v[1], s_)] or srcs)[0]
        pr = blend_problem(p, v[1], src, qbg, prog, body=b)
        if pr:
            probs.append(pr)
    ok = bool(q["paths"]) and not probs

    def kind(t):
        if isinstance(t, tuple) and t[0] == "call" and is_blend_fn(prog, t[1]):
            return "helper"         # both cases, decided inside the verified helper
        return "blend" if is_call(t, r"::blend_over$") else "plain"
    kinds = {kind((mapped_colour(p, q) or (None, None))[1]) for p in q["paths"]}
    ok = ok and kinds in ({"blend", "plain"}, {"helper"})
    ctx.instance(R, {"quantize_pixel_paths": len(q["paths"]), "mapped_colour_is_blend_over(bg, pixel)_iff_alpha_lt_255_with_from_image's_bg": ok})
    if not ok:
        ctx.violation(R, QUANT, "quantize-site", "pixel mapping does not composite like palette extraction (same bg, exactly the pixels with alpha < 255): %s" % (probs[:2] or sorted(kinds)), sites=[b.loc])


BLACK = ("call", "rasterize::RGBA::new", (("c", "0"), ("c", "0"), ("c", "0"), ("c", "255")), None)


def default_bg(b, at, operand, opt, black=BLACK):
    """is the value of `operand` at the start of block `at` `opt.unwrap_or(black)` -- decided by meaning: on every path from a dominator of `at`
    (Option combinators evaluated by their definition, so `unwrap_or`, `unwrap_or_else`, `map_or`, `match`, `if let` .. are the same thing) the value is
    the payload of `opt` where `opt` is Some and `black` where it is None.   -> (ok, [the default terms seen])"""
    if not (opt[0] == "arg" and not b.defs_of(opt[1])):
        return False, []
    cfg = b.cfg()
    doms = sorted((d for d in cfg.dom().get(at, ()) if d != at), key=lambda d: -len(cfg.dom()[d]))
    payload = ("f", ("dc", opt, "Some"), "0")
    seen = []
    for D in [at] + doms[:24]:
        ev = evaluator(b, max_paths=200, combinators=True)
        try:
            ps = ev.paths(D, [at]) if D != at else None
        except TooManyPaths:
            break
        if ps is None:
            continue
        ps = [p for p in ps if p.end == ("stop", at)]
        if not ps or any(x.end[0] == "loop" for x in ps):
            continue
        dflt, ok = [], True
        for p in ps:
            env = dict(p.env)
            for s in b.blocks[at]["stmts"]:         # the argument temporaries of the call are filled in its own block
                if s["k"] == "assign" and not s["place"]["p"]:
                    env[s["place"]["l"]] = ev.rvalue(s["rv"], env)
            v = ev.operand(operand, env)
            some =("is", opt, "1") in p.facts or any(f[0] == "isnot" and f[1] == opt and "0" in f[2] and "1" not in f[2] for f in p.facts)
            none = ("is", opt, "0") in p.facts or any(f[0] == "isnot" and f[1] == opt and "1" in f[2] and "0" not in f[2] for f in p.facts)
            if some and not none:
                ok = ok and v == payload
            elif none and not some:
                dflt.append(strip(v))
                ok = ok and strip(v) == black
            else:
                ok = False
        seen = dflt or seen
        if ok and dflt:
            return True, dflt
    return False, seen


def mapped_colour(p, q):
    """(dithered?, pre-dither colour term) of the colour handed to palette.find on path p; None when not understood"""
    f = (q.get("find") or {}).get(id(p))
    if f is None:
        cs = [c for c in p.calls if c.matches(r"^image::ColorPalette::find$")]
        if len(cs) != 1:
            return None
        f = cs[0].term
    c = f[2][1]
    if is_call(c, r"^image::ColorError::add$") and len(c[2]) == 2:
        return True, c[2][1], c[2][0]
    return False, c, None


FROM_ELEM = r"^(std|alloc)::vec::from_elem$"        # vec![x; n]
VEC_EMPTY = r"Vec::<T>::new$|Vec::<T>::with_capacity$"


def error_rows(b, ev):
    """the error-row vector of quantize, found by use: the Vec local(s) that quantize indexes / resizes / takes apart.
    -> (term of the vector or None when there is not exactly one, sizing definitions [(block, length term)] = `vec![x; n]` among its definitions,
    all other definitions are empty vectors (Vec::new / with_capacity)? -- then the list of their blocks, else False)"""
    terms, locs = {}, []
    for l in range(len(b.locals)):
        if not b.local_ty(l).startswith("std::vec::Vec<") or l <= b.arg_count:
            continue
        t = ev.local(l, None)
        used = any(call_matches(c, r"Index<I>>::index$|IndexMut<I>>::index_mut$|Deref>::deref$|DerefMut>::deref_mut$|Vec::<T, A>::resize(_with)?$|slice::<impl \[T\]>::") and
                   any(ev.operand(a, None) == t for a in c["args"]) for bb, c in b.calls())
        if used:
            terms.setdefault(t, []).append(l)
    if len(terms) != 1:
        return None, [], False
    E, ls = next(iter(terms.items()))
    sizing, ok, seen, empties = [], [True], set(), []

    def scan(l):
        if l in seen:
            return
        seen.add(l)
        ds = b.defs_of(l)
        if not ds:
            ok[0] = False
        for bb, si, rv in ds:
            if si == "term":
                if call_matches(rv, FROM_ELEM) and len(rv["args"]) == 2:
                    sizing.append((bb, ev.operand(rv["args"][1], None)))
                elif call_matches(rv, VEC_EMPTY):
                    empties.append(bb)
                else:
                    ok[0] = False
            elif rv["k"] == "use" and rv["a"]["k"] == "move" and not rv["a"]["place"]["p"]:
                scan(rv["a"]["place"]["l"])
            else:
                ok[0] = False
    for l in ls:
        scan(l)
    return E, sizing, (empties if ok[0] else False)


# =================================================================================================================
# DITHER-GUARD
# =================================================================================================================
def dither_guard(ctx, bodies, q):
    R = "DITHER-GUARD"
    ctx.rule(R, "every access to the error rows lies under `if dither`; with dither == false the colour looked up is the (blended) source pixel itself", floor=4)
    b = bodies[QUANT]
    ev = evaluator(b)
    cfg = b.cfg()
    dither = ("arg", 3)
    # edges taken only when dither is true
    true_edges, _false_edges = flag_edges(b, ev, dither)
    E_, _sz, _ok = error_rows(b, ev)
    vterms = {E_} if E_ is not None else set()
    n = 0
    for bb, t in b.calls():
        hit = [a for a in t["args"] if ev.operand(a, None) in vterms]
        if not hit:
            continue
        n += 1
        ok = any(cfg.edge_dominates(x, y, bb) for x, y in true_edges)
        ctx.instance(R, {"error_rows_access": (t["fn"].get("resolved") or "?").split("::")[-1], "line_in_sites_only": True, "under_if_dither": ok})
        if not ok:
            ctx.violation(R, QUANT, "unguarded-%s" % (t["fn"].get("resolved") or t["fn"].get("path") or "?").split("::")[-1],
                          "the error rows are accessed outside `if dither` (they are empty when dither == false)", sites=["%s:%d" % (b.file, t["line"])])
    if n < 1 or len(vterms) != 1:
        ctx.anchor(R, "quantize/error-rows", "no single error-row vector with guarded accesses found in quantize")
    if not q.get("ok"):
        ctx.anchor(R, "quantize-shape")
        return
    plain = [p for p in q["paths"] if ("false", dither) in p.facts]
    dith = [p for p in q["paths"] if ("true", dither) in p.facts]
    ok = bool(plain) and len(plain) + len(dith) == len(q["paths"])
    bad = []
    for p in plain:
        m = mapped_colour(p, q)
        if m is None or m[0]:
            bad.append("the colour handed to find is adjusted by the error rows although dither == false")
        errc = [c.name for c in p.calls if "ColorError" in c.name]
        if errc:
            bad.append("ColorError arithmetic runs although dither == false: %s" % errc)
    for p in dith:
        m = mapped_colour(p, q)
        if m is None:
            bad.append("colour handed to find not understood on a dithering path")
    ok = ok and not bad
    ctx.instance(R, {"paths_without_dither": len(plain), "paths_with_dither": len(dith), "undithered_lookup_uses_source_pixel_unchanged": ok})
    if not ok:
        ctx.violation(R, QUANT, "no-dither-colour", "with dither == false the colour handed to palette.find is not the (blended) source pixel: %s" % bad[:2], sites=[b.loc])


# =================================================================================================================
# NEAREST-SHAPE
# =================================================================================================================
def sq_diff(t):
    """(a, b) when t is (a - b)^2 written as pow(Sub(a, b), 2) or Mul(d, d)"""
    t = strip(t)
    d = None
    if is_call(t, r"::pow$") and len(t[2]) == 2 and t[2][1] == ("c", "2"):
        d = t[2][0]
    elif t[0] == "bin" and t[1] in ("Mul", "MulWithOverflow") and t[2] == t[3]:
        d = t[2]
    if d is not None and d[0] == "bin" and d[1] in ("Sub", "SubWithOverflow"):
        return d[2], d[3]
    return None


def metric_of(t, tgt, col, prog=None, width=None, closures=None):
    """channel numbers [i, ..] when t is a sum of squares (tgt[i] - col[i])^2 (either operand order, pow(_, 2) or d * d) over signed widenings of
    the two colours' channels; None when it is anything else.  The iterator form `tgt.iter().zip(col.iter()).map(|(a, b)| (a - b)^2).sum()` covers
    the channels 0..width, width = common length of the two arrays (given by the caller from their types)"""
    t0 = strip(t)
    if prog is not None and width and is_call(t0, r"Iterator::sum$") and len(t0[2]) == 1 and is_call(t0[2][0], r"Iterator::map$"):
        zp, clo = t0[2][0][2]
        if not (is_call(zp, r"Iterator::zip$") and len(zp[2]) == 2):
            return None
        its = []
        for x in zp[2]:
            while is_call(x, r"::into_iter$") and len(x[2]) == 1:
                x = x[2][0]
            its.append(x[2][0] if is_call(x, r"slice::<impl \[T\]>::iter$|array::.*::iter$") else x)
        if sorted(its, key=repr) != sorted([tgt, col], key=repr):
            return None
        cb = closure_body(prog, clo)
        if cb is None:
            return None
        try:
            cps = [cp for cp in evaluator(cb).paths(0, []) if cp.end[0] not in ("infeasible", "unreachable")]
        except TooManyPaths:
            return None
        pair = {field(("arg", 2), "0"), field(("arg", 2), "1")}
        for cp in cps:
            ab = sq_diff(cp.ret) if cp.end[0] == "return" and cp.ret is not None else None
            if ab is None or {strip(uncast(ab[0])), strip(uncast(ab[1]))} != pair:
                return None
            if not all(re.match(r"^i(32|64|128)$|^isize$", c[1]) for c in subterms(cp.ret) if c[0] == "cast"):
                return None
        if not cps:
            return None
        if closures is not None:
            closures.add(cb.path)
        return list(range(width))
    chans = []
    for s in sum_terms(t):
        ab = sq_diff(s)
        if ab is None:
            return None
        a, b = uncast(ab[0]), uncast(ab[1])
        pair = None
        for x, y in ((a, b), (b, a)):
            if x[0] == "ix" and strip(x[1]) == tgt and y[0] == "ix" and strip(y[1]) == col and x[2] == y[2]:
                pair = const_int(x[2])
        if pair is None:
            return None
        chans.append(pair)
    if not all(re.match(r"^i(32|64|128)$|^isize$", c[1]) for c in subterms(t) if c[0] == "cast"):
        return None
    return chans


def chan_width(prog, target_ty):
    """common length of the target colour array and KDNode.color (None when they are not arrays of known length)"""
    kn = prog.adts.get("image::KDNode") or {"variants": []}
    col_ty = [f.get("ty") for v in kn["variants"] for f in v.get("fields", []) if f.get("name") == "color"]
    m1 = re.fullmatch(r"\[u8; (\d+)\]", target_ty or "")
    m2 = re.fullmatch(r"\[u8; (\d+)\]", col_ty[0]) if len(col_ty) == 1 else None
    return min(int(m1.group(1)), int(m2.group(1))) if m1 and m2 else None


def uncast(t):
    while isinstance(t, tuple) and t[0] == "cast":
        t = t[2]
    return t


def sum_terms(t):
    t = strip(t)
    if t[0] == "bin" and t[1] in ("Add", "AddWithOverflow"):
        return sum_terms(t[2]) + sum_terms(t[3])
    return [t]


def nearest_shape(ctx, bodies):
    R = "NEAREST-SHAPE"
    ctx.rule(R, "k-d search soundness conditions: metric over r,g,b; minimal candidate by the path's comparisons; children skipped only across the node's own plane "
                "with plane distance >= best; build: median partition in the node's own dimension, root pushed last", floor=15)
    kd = {"dim_ok": False, "ids_ok": False}
    # ---- metric -----------------------------------------------------------------------------------------------
    # decided on the helper `dist` when it exists; a metric written out in find_rec itself is decided there (below)
    db = bodies[KD_DIST]
    metric_ok = False
    metric_closures = kd["metric_closures"] = set()      # closures that compute one squared channel difference (iterator form of the metric)
    if db is not None:
        ev, ps = paths_of(ctx, R, db)
        if ps is not None:
            got = metric_of(ps[0].ret, ("arg", 1), field(("arg", 2), "color"), ctx.prog, chan_width(ctx.prog, db.local_ty(1)), metric_closures) \
                if len(ps) == 1 and ps[0].ret is not None else None
            metric_ok = got is not None and sorted(got) == [0, 1, 2]
            ctx.instance(R, {"dist": show(ps[0].ret)[:240] if ps and ps[0].ret else None, "channels": got, "is_sum_of_squared_differences_over_r_g_b": metric_ok})
            if not metric_ok:
                ctx.violation(R, KD_DIST, "metric", "the k-d tree metric is not the sum of squared signed differences over exactly the channels 0,1,2 of (target, node.color): channels %s in %s"
                              % (got, show(ps[0].ret)[:240] if ps and ps[0].ret else None), sites=[db.loc])

    # ---- search ------------------------------------------------------------------------------------------------
    fr = bodies[KD_REC]
    ev, ps = paths_of(ctx, R, fr, combinators=True)
    if ps is None:
        return kd
    nodes, idx, target = ("arg", 1), ("arg", 2), ("arg", 3)
    N = ("ix", nodes, idx)
    dimN = field(N, "dim")
    child = {"left": field(N, "left"), "right": field(N, "right")}

    inline_metric = set()       # distance of this node written out in find_rec: sum of squared differences over r,g,b of (target, node.color)

    def node_dists(p):
        """terms on path p that are the distance between the target and this node"""
        out = [("call", KD_DIST, (target, N), None)] if db is not None else []
        for f in [strip(f) for f in p.facts] + [strip(p.ret)]:
            for t in subterms(f):
                if (t[0] == "bin" and t[1].startswith("Add") or is_call(t, r"Iterator::sum$")) and t not in out \
                        and sorted(metric_of(t, target, field(N, "color"), ctx.prog, chan_width(ctx.prog, fr.local_ty(3)), metric_closures) or []) == [0, 1, 2]:
                    out.append(t)
                    inline_metric.add(t)
        return out

    def plane_like(t):
        """(i, j) index terms when t is (target[i] - node.color[j])^2 in either operand order"""
        ab = sq_diff(t)
        if ab is None:
            return None
        a, b = uncast(ab[0]), uncast(ab[1])
        for x, y in ((a, b), (b, a)):
            if x[0] == "ix" and x[1] == target and y[0] == "ix" and y[1] == field(N, "color"):
                return x[2], y[2]
        return None

    def side_fact(f):
        """('below'|'above', strict, i, j): target[i] <(=) N.color[j]  ('below': target is on the low side)"""
        if f[0] not in ("lt", "le"):
            return None
        a, b = uncast(f[1]), uncast(f[2])
        if a[0] == "ix" and a[1] == target and b[0] == "ix" and b[1] == field(N, "color"):
            return "below", a[2], b[2]
        if b[0] == "ix" and b[1] == target and a[0] == "ix" and a[1] == field(N, "color"):
            return "above", b[2], a[2]
        return None

    viol = {}       # shape -> message (first)
    counts = {"paths": 0, "skips": 0, "explored": 0, "exact": 0}

    def report(shape, msg):
        viol.setdefault(shape, msg)

    for p in ps:
        if p.end[0] != "return" or p.ret is None:
            report("paths", "find_rec has a path that does not return (%s)" % (p.end,))
            continue
        counts["paths"] += 1
        facts = [strip(f) for f in p.facts]
        recs = [c for c in p.calls if c.matches(r"^image::KDTree::find::find_rec$")]
        # predicates and lengths computed without `&mut` arguments (conditions of assertions) are neither candidates nor (i32) distances
        others = [c for c in p.calls if not c.matches(r"^image::KDTree::find::(find_rec|dist)$|::pow$")
                  and not ((c.body or fr).local_ty(c.t["dest"]["l"]) in ("bool", "usize") and not c.t["dest"]["p"] and not mut_arg(c, lambda a: True))]
        if others:
            report("calls", "find_rec calls %s, which the rule does not understand" % others[0].name)
        cands = [(N, d) for d in node_dists(p)]
        explored = set()
        for c in recs:
            a = [strip(x) for x in c.args]
            which = [k for k, v in child.items() if a[1] == some_payload(v)]
            if a[0] != nodes or a[2] != target or len(which) != 1:
                report("rec-args", "find_rec recurses with (%s, %s, %s): not (nodes, <child index of this node>, target)" % tuple(show(x)[:60] for x in a))
                continue
            explored.add(which[0])
            r = strip(c.term)
            cands.append((field(r, "0"), field(r, "1")))
        counts["explored"] += len(explored)
        r = strip(p.ret)
        if r[0] != "tuple":         # a (node, distance) pair handed on as a whole (`best = near_best; .. return best`)
            r = ("tuple", (field(r, "0"), field(r, "1")))
        if not (r[0] == "tuple" and len(r[1]) == 2 and (r[1][0], r[1][1]) in cands):
            report("candidates", "find_rec returns %s, which is not (node, dist(target, node)) of this node or the (node, distance) pair of one recursive result" % show(r)[:200])
            continue
        best = r[1][1]
        for cn, cd in cands:
            if not implies_le(facts, best, cd):
                report("best-update", "on a path the returned distance %s is not shown <= the visited candidate's %s by the comparisons taken (%s)"
                       % (show(best)[:80], show(cd)[:80], [show(f)[:120] for f in facts if f[0] in ("lt", "le")]))
        sides = [s for s in (side_fact(f) for f in facts) if s]
        # every distance is a sum of squares (metric clause): once the best distance is known to be <= 0 nothing can be strictly closer
        exact = metric_ok and implies_le_const(facts, best, 0)
        for k, v in child.items():
            if k in explored:
                continue
            if variant_known(facts, v, "0"):
                continue        # no child on that side
            if exact:
                counts["exact"] += 1
                continue
            counts["skips"] += 1
            # the skipped child must lie across the plane: right child needs target <= color[dim], left child needs color[dim] <= target
            need = "below" if k == "right" else "above"
            good_side = [s for s in sides if s[0] == need and s[1] == dimN and s[2] == dimN]
            if not good_side:
                if any(s[0] == need for s in sides):
                    report("side-dim", "the side of the splitting plane is decided by comparing target[%s] with node.color[%s] instead of the node's own dimension node.dim"
                           % tuple(show(x) for x in [s for s in sides if s[0] == need][0][1:]))
                else:
                    report("near-side", "the %s child is skipped on a path where the target is not known to lie on the other side of the node's splitting plane "
                                        "(the near side must always be explored)" % k)
                continue
            ups = set()
            for f in facts:
                if f[0] in ("lt", "le") and implies_le(facts, best, f[1]):
                    ups.add(f[2])
            planes = [(u, plane_like(u)) for u in ups if plane_like(u)]
            if any(ij == (dimN, dimN) for u, ij in planes):
                continue
            if planes:
                report("plane-dim", "the far child is pruned by the squared distance (target[%s] - node.color[%s])^2, not by the node's own dimension node.dim" % tuple(show(x) for x in planes[0][1]))
            else:
                report("far-prune", "the %s (far) child is skipped on a path without the guard plane_distance >= best, plane_distance = (target[node.dim] - node.color[node.dim])^2; upper bounds of best on that path: %s"
                       % (k, [show(u)[:100] for u in ups]))
    if db is None:
        metric_ok = bool(inline_metric)
        ctx.instance(R, {"dist": "written out in find_rec: %s" % [show(t)[:200] for t in sorted(inline_metric, key=repr)][:1], "channels": [0, 1, 2] if metric_ok else None,
                         "is_sum_of_squared_differences_over_r_g_b": metric_ok})
        if not metric_ok:
            ctx.violation(R, KD_REC, "metric", "find_rec neither calls the metric helper `dist` nor computes the sum of squared signed differences over the channels 0,1,2 of "
                                               "(target, node.color) for the node it visits", sites=[fr.loc])
    kd["inline_metric"] = inline_metric
    shapes = [("candidates", "returned pair is this node with its distance or a recursive result pair"),
              ("rec-args", "recursion passes the same node slice and target and a child index of this node"),
              ("best-update", "returned distance <= every visited candidate's by the comparisons on the path"),
              ("near-side", "a child is skipped only when it lies across the splitting plane from the target"),
              ("side-dim", "the side test uses the node's own dimension on both operands"),
              ("far-prune", "a far child is skipped only under plane_distance >= best"),
              ("plane-dim", "the plane distance uses the node's own dimension on both operands"),
              ("calls", "no other calls in find_rec"), ("paths", "every path returns")]
    for shape, what in shapes:
        ctx.instance(R, {"find_rec": what, "paths": counts["paths"], "holds": shape not in viol})
        if shape in viol:
            ctx.violation(R, KD_REC, shape, viol[shape], sites=[fr.loc])
    if counts["skips"] == 0 or counts["explored"] == 0:
        ctx.anchor(R, "find_rec/branch-and-bound", "find_rec has no path that skips a child or none that explores one: not the branch-and-bound search the rule understands")

    # ---- root ----------------------------------------------------------------------------------------------------
    kf = bodies[KD_FIND]
    ev, ps2 = paths_of(ctx, R, kf)
    if ps2 is not None:
        ok = bool(ps2)
        found = None
        for p in ps2:
            cs = [c for c in p.calls if c.matches(r"^image::KDTree::find::find_rec$")]
            if len(cs) != 1:
                ok = False
                continue
            a = [strip(x) for x in cs[0].args]
            found = a
            nd = field(("arg", 1), "nodes")
            ln = ("call", "std::vec::Vec::<T, A>::len", (nd,), None)
            ok = ok and a[0] == nd and a[1] in (("bin", "Sub", ln, ("c", "1")),) and a[2] in (("call", "rasterize::Color::to_rgb", (("arg", 2),), None),)
        ctx.instance(R, {"KDTree::find_starts_at": [show(x)[:80] for x in found] if found else None, "is_(self.nodes, len-1, color.to_rgb())": ok})
        if not ok:
            ctx.violation(R, KD_FIND, "root", "KDTree::find does not start the search at the last node (the root pushed last by build_rec) of self.nodes with color.to_rgb(): %s"
                          % ([show(x)[:80] for x in found] if found else None), sites=[kf.loc])

    # ---- build -------------------------------------------------------------------------------------------------------
    kb = bodies[KD_BUILD]
    ev, psb = paths_of(ctx, R, kb)
    if psb is None:
        return kd
    dim, nvec, cols = ("arg", 1), ("arg", 2), ("arg", 3)
    okb = {"build-dim": True, "build-partition": True, "build-order": True, "build-leaf": True}
    msgs = {}
    n_general = n_leaf = 0
    for p in psb:
        pushes = [c for c in p.calls if c.matches(r"Vec::<T, A>::push$") and c.args[0] == nvec]
        recs = [c for c in p.calls if c.matches(r"^image::KDTree::new::build_rec$")]
        r = p.ret
        if r is not None and r[0] == "agg" and r[2] == "None":
            if pushes or recs:
                okb["build-order"] = False
                msgs["build-order"] = "build_rec pushes a node on a path that returns None"
            continue
        if len(pushes) != 1 or pushes[0].args[1][0] != "agg":
            okb["build-order"] = False
            msgs["build-order"] = "a path of build_rec returning Some does not push exactly one KDNode"
            continue
        push = pushes[0]
        f = dict(zip(push.args[1][4], push.args[1][3]))
        # returned index = nodes.len() - 1 right after the push, and the push is the last event touching the node vector
        ln = [c for c in p.calls if c.matches(r"Vec::<T, A>::len$") and c.args[0] == nvec and c.pos > push.pos]
        later = [c for c in p.calls if c.pos > push.pos and mut_arg(c, lambda a: contains(a, nvec))]
        okret = r is not None and r[0] == "agg" and r[2] == "Some" and bool(ln) and strip(r[3][0]) == ("bin", "Sub", strip(ln[0].term), ("c", "1")) and not later
        if not okret:
            okb["build-order"] = False
            msgs["build-order"] = "build_rec does not return Some(nodes.len() - 1) right after pushing its node (returned %s)" % show(r)[:120]
        if f.get("dim") != dim:
            okb["build-dim"] = False
            msgs["build-dim"] = "a KDNode is created with dim = %s instead of the dimension its colours were split on (the `dim` parameter)" % show(f.get("dim"))[:80]
        if not recs:
            n_leaf += 1
            ok = f.get("left", ("?",))[0] == "agg" and f["left"][2] == "None" and f.get("right", ("?",))[0] == "agg" and f["right"][2] == "None" \
                and any(fa == ("eq", ("un", "PtrMetadata", cols), ("c", "1")) or (fa[0] == "eq" and is_call(fa[1], r"slice::<impl \[T\]>::len$") and fa[2] == ("c", "1")) for fa in p.facts) \
                and f.get("color") == field(ix(cols, 0), "1")
            if not ok:
                okb["build-leaf"] = False
                msgs["build-leaf"] = "the childless node is not built from the single element of a one-element slice"
            continue
        n_general += 1
        sorts = [c for c in p.calls if c.matches(r"sort_by_key$|sort_by_cached_key$|sort_unstable_by_key$") and c.args[0] == cols]
        ok_sort = len(sorts) == 1 and all(c.pos > sorts[0].pos for c in recs + [push])
        key_ok = False
        if ok_sort:
            cb = closure_body(ctx.prog, sorts[0].args[1])
            up = closure_upvars(sorts[0].args[1])
            if cb is not None:
                evc, cps = paths_of(ctx, R, cb)
                kd.setdefault("sort_closures", set()).add(cb.path)
                key_ok = bool(cps)
                for cp in cps or []:
                    rr = strip(cp.ret) if cp.ret is not None else None
                    # key = element.1[<captured dim>]
                    good = rr is not None and rr[0] == "ix" and rr[1] == field(("arg", 2), "1") and rr[2][0] == "f" and rr[2][1] == ("arg", 1) and rr[2][2].isdigit() \
                        and int(rr[2][2]) < len(up) and up[int(rr[2][2])] == dim
                    key_ok = key_ok and good
        if not (ok_sort and key_ok):
            okb["build-dim"] = False
            msgs["build-dim"] = "the colours are not sorted by channel `dim` (the dimension stored in the node) before they are partitioned"
        # median and the two halves
        med = f.get("color")
        m = med[1][2] if med and med[0] == "f" and med[2] == "1" and med[1][0] == "ix" and med[1][1] == cols else None
        lo = hi = None
        for c in recs:
            sl = c.args[2]
            if is_call(sl, r"index_mut$|::index$") and sl[2][0] == cols and sl[2][1][0] == "agg":
                rg = sl[2][1]
                if rg[1] == "std::ops::RangeTo" and m is not None and rg[3] == (m,):
                    lo = c
                if rg[1] == "std::ops::RangeFrom" and m is not None and strip(rg[3][0]) in (("bin", "Add", strip(m), ("c", "1")), ("bin", "Add", ("c", "1"), strip(m))):
                    hi = c
                if rg[1] == "std::ops::Range" and m is not None and rg[3][0] == ("c", "0") and rg[3][1] == m:
                    lo = c
        okp = m is not None and lo is not None and hi is not None and len(recs) == 2 and f.get("left") == lo.term and f.get("right") == hi.term
        if not okp:
            okb["build-partition"] = False
            msgs["build-partition"] = ("the node's colour is not the median element colors[m] with left = build(colors[..m]) and right = build(colors[m+1..]) of the slice sorted on its dimension "
                                       "(left %s, right %s)" % (show(f.get("left"))[:100], show(f.get("right"))[:100]))
        if okp and not (push.pos > lo.pos and push.pos > hi.pos):
            okb["build-order"] = False
            msgs["build-order"] = "the parent node is not pushed after both sub-trees (KDTree::find takes the last node as the root)"
    if n_general < 1 or n_leaf < 1:
        ctx.anchor(R, "build_rec/arms", "build_rec does not have the leaf arm and the median arm the rule understands")
    what = {"build-dim": "node.dim is the dimension the slice was sorted on", "build-partition": "median element becomes the node; lower half -> left, upper half -> right",
            "build-order": "Some(nodes.len()-1) right after the push; parent pushed after both sub-trees", "build-leaf": "one-element slice -> childless node"}
    for k in ("build-dim", "build-partition", "build-order", "build-leaf"):
        ctx.instance(R, {"build_rec": what[k], "holds": okb[k]})
        if not okb[k]:
            ctx.violation(R, KD_BUILD, k, msgs.get(k, k), sites=[kb.loc])
    return kd


# =================================================================================================================
# PALETTE-BOUND (shape)
# =================================================================================================================
def palette_bound(ctx, bodies):
    R = "PALETTE-BOUND"
    ctx.rule(R, "from_image: prune_until(palette_size) on the filled tree before build_palette -> ColorPalette::new; prune loop runs while leaf_count > bound; "
                "build_palette: one colour per leaf, leaf.index = its position (the numeric bound max(requested, 8) itself is NOT decided)", floor=8)
    prog = ctx.prog
    fi = bodies[PAL_FROM]
    ev = evaluator(fi)
    cfg = fi.cfg()
    pu = [(bb, t) for bb, t in fi.calls() if call_matches(t, r"^image::OcTree::prune_until$")]
    bp = [(bb, t) for bb, t in fi.calls() if call_matches(t, r"^image::OcTree::build_palette$")]
    nw = [(bb, t) for bb, t in fi.calls() if call_matches(t, r"^image::ColorPalette::new$")]
    if len(pu) != 1 or len(bp) != 1 or len(nw) != 1:
        ctx.anchor(R, "from_image/prune-build-new", "from_image does not call prune_until, build_palette and ColorPalette::new exactly once each")
    else:
        from ..flow import arg_place
        tree_p, tree_b = arg_place(fi, pu[0][1], 0), arg_place(fi, bp[0][1], 0)
        same = tree_p == tree_b and re.fullmatch(r"_\d+", tree_p or "") is not None
        order = cfg.dominates(pu[0][0], bp[0][0]) and pu[0][0] != bp[0][0] and cfg.dominates(bp[0][0], nw[0][0])
        size_arg = ev.operand(pu[0][1]["args"][1], None) == ("arg", 2)
        ctx.instance(R, {"from_image": "prune_until(%s) dominates build_palette(%s)" % (tree_p, tree_b), "same_tree": bool(same), "order": order, "prune_argument_is_palette_size": size_arg})
        if not (same and order):
            ctx.violation(R, PAL_FROM, "prune-before-build", "from_image does not call prune_until on the tree (%s) whose palette it builds (%s) before build_palette" % (tree_p, tree_b),
                          sites=["%s:%d" % (fi.file, bp[0][1]["line"])])
        if not size_arg:
            ctx.violation(R, PAL_FROM, "prune-arg", "prune_until is called with %s instead of the requested palette_size" % show(ev.operand(pu[0][1]["args"][1], None))[:80],
                          sites=["%s:%d" % (fi.file, pu[0][1]["line"])])
        # the tree that is pruned is the one that was filled: its definitions are collect(..) or a moved local that received the inserts
        ok_fill = False
        if same:
            tl = int(tree_p[1:])
            ok_fill = True
            srcs = []

            def fill_defs(l, seen):
                """every definition of tree local l is collect(..) or a move (through any chain of plain locals: `let t = octree;`, the result slot of an
                expanded helper) of a local that received the inserts"""
                ok_ = True
                if l in seen:
                    return False
                seen = seen | {l}
                ds = fi.defs_of(l)
                for bb, si, rv in ds:
                    if si == "term":
                        srcs.append((rv["fn"].get("resolved") or rv["fn"].get("path") or "?").split("::")[-1])
                        ok_ = ok_ and call_matches(rv, r"Iterator::collect$|FromIterator.*from_iter$")
                    elif rv["k"] == "use" and rv["a"]["k"] in ("move", "copy") and not rv["a"]["place"]["p"]:
                        l2 = rv["a"]["place"]["l"]
                        ins = [t for bb2, t in fi.calls() if call_matches(t, r"^image::OcTree::insert$") and arg_place(fi, t, 0) == "_%d" % l2]
                        if ins:
                            srcs.append("moved local with %d insert site(s)" % len(ins))
                        else:
                            ok_ = ok_ and fill_defs(l2, seen)
                    else:
                        ok_ = False
                return ok_ and bool(ds)
            ok_fill = fill_defs(tl, frozenset())
            allins = [t for bb2, t in fi.calls() if call_matches(t, r"^image::OcTree::insert$")]
            ok_fill = ok_fill and bool(srcs) and sum(int(s.split()[3]) for s in srcs if s.startswith("moved")) == len(allins)
            ctx.instance(R, {"pruned_tree_defined_by": srcs, "is_the_filled_tree": ok_fill})
        if not ok_fill:
            ctx.violation(R, PAL_FROM, "filled-tree", "the tree that is pruned and turned into the palette is not the one the image colours were inserted into", sites=[fi.loc])
        res = ev.operand(nw[0][1]["args"][0], None)
        ok_new = is_call(res, r"^image::OcTree::build_palette$") and nw[0][1]["dest"]["l"] == 0 and not nw[0][1]["dest"]["p"]
        ctx.instance(R, {"returned": "ColorPalette::new(%s)" % show(res)[:80], "is_new(build_palette())": bool(ok_new)})
        if not ok_new:
            ctx.violation(R, PAL_FROM, "palette-from-tree", "from_image does not return ColorPalette::new(octree.build_palette())", sites=["%s:%d" % (fi.file, nw[0][1]["line"])])

    # ---- prune_until loop ------------------------------------------------------------------------------------------
    pb = bodies[OC_PRUNE_UNTIL]
    ev = evaluator(pb)
    cfg = pb.cfg()
    loops = cfg.loops()
    prunes = [(bb, t) for bb, t in pb.calls() if call_matches(t, r"^image::OcTree::prune$")]
    ok = False
    detail = None
    if len(loops) == 1 and len(prunes) == 1 and prunes[0][0] in list(loops.values())[0]:
        head, lbody = list(loops.items())[0]
        evp, ps = evaluator(pb), None
        try:
            ps = evp.paths(0, [])
        except TooManyPaths:
            ps = None
        lc = field(field(("arg", 1), "info"), "leaf_count")

        def bound_ok(t, facts):
            """t is the requested count, max(requested, const), or -- on a path whose facts say requested < K or requested <= K -- the constant K
            (the two arms of `if requested < K { K } else { requested }` together are max(requested, K))"""
            t = strip(t)
            if t == ("arg", 2):
                return True
            if is_call(t, r"::max$") and len(t[2]) == 2 and ("arg", 2) in t[2] and all(x == ("arg", 2) or const_int(x) is not None for x in t[2]):
                return True
            k = const_int(t)
            return k is not None and any(f[0] == "lt" and f[1] == ("arg", 2) and const_int(f[2]) in (k, k + 1) for f in facts)

        def le_bound(f):
            """B of a fact leaf_count <= B"""
            if f[0] == "le" and f[1] == lc:
                return f[2]
            if f[0] == "lt" and f[1] == lc and const_int(f[2]) is not None:
                return ("c", str(const_int(f[2]) - 1))
            return None

        def gt_bound(f):
            """B of a fact B < leaf_count"""
            return f[1] if f[0] == "lt" and f[2] == lc else None
        if ps:
            ok = True
            detail = []
            for p in ps:
                if p.end[0] in ("infeasible", "unreachable"):
                    continue
                facts = [strip(f) for f in p.facts]
                fs = [f for f in facts if contains(f, lc)]
                detail.append((p.end[0], [show(f) for f in facts]))
                n_prune = sum(1 for c in p.calls if c.matches(r"OcTree::prune$") and c.args[0] == ("arg", 1))
                if p.end[0] == "return":
                    bnd = le_bound(fs[0]) if len(fs) == 1 else None
                    ok = ok and bnd is not None and bound_ok(bnd, facts) and n_prune == 0
                elif p.end[0] == "loop":
                    bnd = gt_bound(fs[0]) if len(fs) == 1 else None
                    ok = ok and bnd is not None and bound_ok(bnd, facts) and n_prune == 1 and len([c for c in p.calls if c.matches(r"OcTree::prune$")]) == 1
                else:
                    ok = False
            ok = ok and {e for e, _ in detail} == {"return", "loop"}
    ctx.instance(R, {"prune_until": detail, "loop_runs_exactly_while_leaf_count_gt_bound(requested)": ok})
    if not ok:
        ctx.violation(R, OC_PRUNE_UNTIL, "loop-cond", "prune_until does not loop `while self.info.leaf_count > bound { self.prune() }` with bound = color_count or max(color_count, const): %s" % detail, sites=[pb.loc])

    # ---- build_palette -------------------------------------------------------------------------------------------------
    build_palette_traversal(ctx, bodies)


def traversal_fns(prog):
    """the functions that carry the palette vector through the octree below build_palette: every crate function reached from it (through its
    closures too) with the two parameters (&mut OcTreeNode | &mut OcTree, &mut Vec<RGBA>) -- {path: "node" | "tree"}; found by data flow from the
    entry point, whatever they are called and however the traversal is split between them"""
    out, seen, work = {}, set(), [OC_BUILD]
    while work:
        p = work.pop()
        if p in seen:
            continue
        seen.add(p)
        b = prog.body(p)
        if b is None:
            continue
        for bb, t in b.calls():
            f = t["fn"]
            cp = f.get("resolved") if f.get("resolved_local") else (f.get("path") if f.get("local") else None)
            cb = prog.body(cp) if cp else None
            if cb is None or cb.closure_root or cb.arg_count != 2 or not re.match(r"^&('\w+ )?mut std::vec::Vec<rasterize::RGBA>$", cb.local_ty(2)):
                continue
            m = re.match(r"^&('\w+ )?mut image::(OcTreeNode|OcTree)$", cb.local_ty(1))
            if m:
                out[cb.path] = "node" if m.group(2) == "OcTreeNode" else "tree"
                work.append(cb.path)
        for c in prog.bodies:
            if c.closure_root == (b.closure_root or b.path) and c.path not in seen:
                work.append(c.path)
    return out


def build_palette_traversal(ctx, bodies):
    """build_palette hands out one colour per leaf, leaf.index = its position, and reaches every child: decided on the traversal as a whole.
    A *node handler* for node n does: Leaf -> `leaf.index = palette.len(); palette.push(leaf.to_rgba())`, Empty -> nothing, Tree(t) -> visit t;
    a *tree visitor* for t hands every element of t.children (iter_mut loop without early exit, or for_each) to a node handler -- written in place or
    as a call of a traversal function (found by data flow: traversal_fns) with the same palette vector."""
    R = "PALETTE-BOUND"
    prog = ctx.prog
    TF = traversal_fns(prog)
    vs = dict((n, str(d if d is not None else i)) for i, (n, d) in enumerate(prog.enum_variants("image::OcTreeNode") or []))
    if set(vs) != {"Leaf", "Tree", "Empty"} or not TF:
        ctx.anchor(R, "build_palette/traversal", "no function below build_palette takes (&mut OcTreeNode | &mut OcTree, &mut Vec<RGBA>), or OcTreeNode is not Empty | Leaf | Tree")
        return
    st = {"leaf": 0, "leaf_why": None, "leaf_ok": True, "other_ok": True}
    TFRX = r"^(%s)$" % "|".join(re.escape(x) for x in TF)

    def events(p):
        pushes = [c for c in p.calls if c.matches(r"Vec::<T, A>::push$")]
        stores = [s for s in p.stores if s[0][0] == "f" and s[0][2] == "index"]
        trav = [c for c in p.calls if c.matches(TFRX)]
        return pushes, stores, trav

    def known(p, n, v):
        return variant_known(p.facts, n, vs[v], tuple(vs.values())) or variant_known([strip(f) for f in p.facts], strip(n), vs[v], tuple(vs.values()))

    def unit_check(body, start, kind, subj, pal, top=False):
        """the region of `body` from block `start` (up to the heads of its loops) handles node `subj` / visits tree `subj` with palette `pal`, and so do its loops"""
        ev = evaluator(body)
        lps = {lp["head"]: lp for lp in for_loops(body, ev)}
        natural = body.cfg().loops()
        if set(natural) - set(lps):
            return False, "a loop that is not an iteration over children"
        used = set()

        def region(start_, kind_, subj_, stops, own=None):
            """own: head of the loop whose body this region is (reaching it again is the normal end of an iteration)"""
            try:
                ps = [p for p in evaluator(body).paths(start_, stops) if p.end[0] not in ("infeasible", "unreachable") and not panics(body, p)]
            except TooManyPaths:
                return False, "too many paths"
            if not ps:
                return False, "no path"
            for p in ps:
                pushes, stores, trav = events(p)
                if p.end[0] not in ("return", "stop"):
                    return False, "a path ends in %s" % (p.end,)
                normal_end = p.end[0] == "return" or p.end == ("stop", own)
                for c in p.calls:
                    if c in pushes or c in trav or c.matches(r"Vec::<T, A>::(reserve|reserve_exact)$"):
                        continue
                    if mut_arg(c, lambda a: unupd(a)[0] == unupd(pal)[0]) and not c.matches(r"Iterator::for_each$"):
                        return False, "%s modifies the palette vector" % c.name
                if kind_ == "after":        # after a children loop: nothing more happens
                    if pushes or stores or trav or not normal_end:
                        st["other_ok"] = st["other_ok"] and not (pushes or stores)
                        return False, "colours are pushed / nodes visited after the loop over the children"
                    continue
                t = subj_
                if kind_ == "node":
                    if known(p, subj_, "Leaf"):
                        leaf = field(("dc", subj_, "Leaf"), "0")
                        st["leaf"] += 1
                        good = len(pushes) == 1 and len(stores) == 1 and not trav and normal_end and unupd(pushes[0].args[0])[0] == unupd(pal)[0] and stores[0][0] == field(leaf, "index") \
                            and is_call(pushes[0].args[1], r"^image::OcTreeLeaf::to_rgba$") and pushes[0].args[1][2] == (leaf,)
                        if good:
                            v = strip(stores[0][1])
                            lens = [c for c in p.calls if c.matches(r"Vec::<T, A>::len$") and unupd(c.args[0])[0] == unupd(pal)[0]]
                            before = len(lens) == 1 and lens[0].pos < pushes[0].pos
                            good = len(lens) == 1 and ((v == strip(lens[0].term) and before) or (v == ("bin", "Sub", strip(lens[0].term), ("c", "1")) and lens[0].pos > pushes[0].pos))
                            st["leaf_why"] = "leaf.index = %s, len() taken %s the push" % (show(v), "before" if before else "after")
                        else:
                            st["leaf_why"] = "leaf arm: %d push(es), %d store(s) to an index field, %d traversal call(s)" % (len(pushes), len(stores), len(trav))
                        st["leaf_ok"] = st["leaf_ok"] and good
                        if not good:
                            return False, st["leaf_why"]
                        continue
                    if pushes or stores:
                        st["other_ok"] = False
                        return False, "a colour is pushed or an index set outside the Leaf arm"
                    if known(p, subj_, "Empty"):
                        if trav or not normal_end:
                            return False, "an Empty node is traversed"
                        continue
                    if len(trav) == 1 and TF[trav[0].name] == "node" and normal_end:
                        c = trav[0]
                        if strip(c.args[0]) == strip(subj_) and unupd(c.args[1])[0] == unupd(pal)[0]:
                            continue
                        return False, "%s is called with (%s, %s), not (this node, the palette)" % (c.name, show(c.args[0])[:60], show(c.args[1])[:60])
                    if not known(p, subj_, "Tree"):
                        return False, "a node of unknown kind is not handed to a node handler"
                    t = field(("dc", subj_, "Tree"), "0")
                elif pushes or stores:
                    st["other_ok"] = False
                    return False, "a colour is pushed or an index set outside the Leaf arm"
                # visit tree t: a loop over t.children of this body, one call of a tree visitor, or for_each over t.children
                base = field(t, "children")
                fes = [c for c in p.calls if c.matches(r"Iterator::for_each$")]
                if not normal_end:
                    lp = lps.get(p.end[1])
                    if lp is None or trav or fes:
                        return False, "unexpected loop"
                    if not children_iter(lp["iter"], base):
                        return False, "the loop runs over %s, not over every element of %s" % (show(lp["iter"])[:100] if lp["iter"] else None, show(base)[:60])
                    used.add(lp["head"])
                    continue
                if len(trav) == 1 and not fes and TF[trav[0].name] == "tree":
                    c = trav[0]
                    if strip(c.args[0]) == strip(t) and unupd(c.args[1])[0] == unupd(pal)[0]:
                        continue
                    return False, "%s is called with (%s, %s), not (this tree, the palette)" % (c.name, show(c.args[0])[:60], show(c.args[1])[:60])
                if len(fes) == 1 and not trav:
                    c = fes[0]
                    cb = closure_body(prog, c.args[1])
                    up = closure_upvars(c.args[1])
                    if not children_iter(c.args[0], base) or cb is None:
                        return False, "for_each runs over %s, not over every element of %s" % (show(c.args[0])[:100], show(base)[:60])
                    pi = [i for i, u in enumerate(up) if unupd(u)[0] == unupd(pal)[0]]
                    if len(pi) != 1:
                        return False, "the for_each closure does not capture the palette"
                    ok_, why_ = unit_check(cb, 0, "node", ("arg", 2), field(("arg", 1), str(pi[0])))
                    if not ok_:
                        return False, why_
                    continue
                return False, "a tree is not visited (no loop over its children, no visitor call)"
            return True, None

        heads = sorted(lps)
        ok_, why_ = region(start, kind, subj, heads)
        if not ok_:
            return False, why_
        for h in heads:
            lp = lps[h]
            if h not in used:
                return False, "a loop over something else than the children of the visited tree"
            users = [1 for bb2, t2 in body.calls() if any(ev.operand(a, None) == lp["iter"] for a in t2["args"])]
            if len(users) != 1 or loop_early_exits(body, lp):
                return False, "the loop over the children is left early or its iterator is advanced elsewhere"
            ok_, why_ = region(lp["some"], "node", lp["item"], heads, own=h)
            if not ok_:
                return False, why_
            ok_, why_ = region(lp["none"], "after", None, heads)
            if not ok_:
                return False, why_
        return True, None

    def children_iter(it, base):
        t = strip(it) if it is not None else None
        wrapped = False
        while is_call(t, r"::into_iter$") and len(t[2]) == 1:      # `for c in x.iter_mut()` / `for c in &mut x`
            t = t[2][0]
            wrapped = True
        return t is not None and ((is_call(t, r"slice::<impl \[T\]>::iter_mut$") and t[2] == (strip(base),)) or (wrapped and t == strip(base)))

    results = []
    for path in sorted(TF):
        body = expand(prog, path)
        results.append((path, body) + unit_check(body, 0, TF[path], ("arg", 1), ("arg", 2)))
    # the entry: a fresh vector, handed through the whole of self, returned
    bp = bodies[OC_BUILD]
    evb = evaluator(bp)
    try:
        rps = [p for p in evb.paths(0, []) if p.end[0] == "return"]
    except TooManyPaths:
        rps = []
    pals = {unupd(p.ret)[0] for p in rps if p.ret is not None}
    palv = next(iter(pals)) if len(pals) == 1 else None
    if palv is None or not is_call(palv, r"Vec::<T>::new$|Vec::<T>::with_capacity$"):
        results.append((OC_BUILD, bp, False, "build_palette does not return the one fresh vector it fills"))
    else:
        results.append((OC_BUILD, bp) + unit_check(bp, 0, "tree", ("arg", 1), palv, top=True))
    ok_leaf = st["leaf_ok"] and st["leaf"] >= 1
    ctx.instance(R, {"leaf_arm": st["leaf_why"], "index_is_position_of_pushed_colour": ok_leaf})
    ctx.instance(R, {"other_arms": "no push / index store", "holds": st["other_ok"]})
    reported = False
    for path, body, ok, why in results:
        ctx.instance(R, {path.split("::")[-1]: TF.get(path, "entry"), "visits_every_child_with_the_same_palette": bool(ok), "why_not": why})
        if not ok:
            reported = True
            shape = "leaf-index" if not st["leaf_ok"] else ("one-colour-per-leaf" if not st["other_ok"] else "all-children")
            ctx.violation(R, path, shape, "the traversal below build_palette does not give every leaf exactly one colour with leaf.index = its position, reaching every child with the one "
                                          "palette vector (that is returned): %s" % why, sites=[body.loc])
    if not ok_leaf and not reported:
        ctx.violation(R, OC_BUILD, "leaf-index", "a leaf's index is not the position of the colour pushed for it (%s)" % st["leaf_why"], sites=[bp.loc])


# =================================================================================================================
# TOTAL
# =================================================================================================================
def site_key_by_bb(body):
    """obligation site keys of oblrules (KIND-sub-n) indexed by the block of the terminator that carries the obligation"""
    from .. import obligations
    obs = [o for o in obligations.collect(body, lossy=False, unsafe=True) if not o.exp]
    keys = oblrules.site_keys(obs)
    return {o.bb: keys[id(o)] for o in obs if o.term is not None}, obs, keys


class SiteLemmas:
    """Site-level lemmas decided on expanded bodies and filed under the obligation's home (the body the statement is written in, and
    its site key there).  A statement of a helper that is expanded at several call sites gets the lemma only when every copy qualifies."""

    def __init__(self, prog, lemmas):
        self.prog, self.lemmas, self._keys, self.votes = prog, lemmas, {}, {}

    def key(self, xb, bb):
        path, hb = home_of(xb, bb)
        if path not in self._keys:
            hbody = self.prog.body(path)
            self._keys[path] = site_key_by_bb(hbody)[0] if hbody is not None else {}
        k = self._keys[path].get(hb)
        return (path, k) if k is not None else None

    def vote(self, xb, bb, good, lemma):
        k = self.key(xb, bb)
        if k is not None:
            self.votes.setdefault(k, []).append((bool(good), lemma))

    def commit(self):
        for k, vs in self.votes.items():
            if all(g for g, _ in vs) and k not in self.lemmas:
                self.lemmas[k] = vs[0][1]
        self.votes = {}


def bounds_checks(xb, ev):
    """(block, index term, length term) of the scalar bounds checks (`a[i]` on arrays and slices) of an expanded body"""
    out = []
    for x, blk in enumerate(xb.blocks):
        t = blk["term"]
        if not blk["cleanup"] and t["k"] == "assert" and t["msg"].get("kind") == "BoundsCheck":
            out.append((x, strip(ev.operand(t["msg"]["index"], None)), strip(ev.operand(t["msg"]["len"], None))))
    return out


def copies_of(prog, b, bb):
    """where block bb of body b is evaluated: [(expanded body, block)] -- b itself, or, for a helper expanded into the one function that
    uses it, its copies there (empty when b is neither)"""
    root = b.closure_root or b.path
    if b.closure_root:
        return [(b, bb)]
    if in_vocab(root):
        return [(expand(prog, root), bb)]
    callers = set()
    for c in prog.callgraph().callers(root):
        cb = prog.body(c)
        callers.add((cb.closure_root or cb.path) if cb is not None else c)
    callers.discard(root)
    out = []
    seen = set()
    while len(callers) == 1 and not out:
        c = callers.pop()
        if c in seen:
            break
        seen.add(c)
        if in_vocab(c):
            xb = expand(prog, c)
            out = [(xb, x) for x, blk in enumerate(xb.blocks) if blk.get("inl_from") == b.path and blk.get("inl_bb") == bb] if xb is not None else []
        else:
            for c2 in prog.callgraph().callers(c):
                cb = prog.body(c2)
                callers.add((cb.closure_root or cb.path) if cb is not None else c2)
            callers.discard(c)
    return out


def usize_operands(body, o):
    m = o.term.get("msg") if o.term else None
    if not m:
        return False
    for key in ("a", "b"):
        op = m.get(key)
        if not op:
            continue
        if op["k"] == "const":
            if op["c"].get("ty") != "usize":
                return False
        else:
            ty = body.local_ty(op["place"]["l"])
            for e in op["place"]["p"]:
                if e["k"] == "field":
                    ty = e["ty"]
            if ty != "usize":
                return False
    return True


def linear_max(t, loops_by_item, ew, width):
    """(coefficient of W, constant) of the largest value index term t can take, W = self.width(); None when not understood.
    ew = W + 2; item of `for x in 0..ew` is at most W + 1; item of `for x in 0..W` is at most W - 1"""
    ts = strip(t)
    if ts == strip(ew):
        return (1, 2)
    if ts == strip(width):
        return (1, 0)
    c = const_int(ts)
    if c is not None:
        return (0, c)
    for item, end in loops_by_item:
        if t == item:
            e = linear_max(end, (), ew, width)
            return (e[0], e[1] - 1) if e else None
    if ts[0] == "bin" and ts[1] == "Add" and t[0] == "bin":
        a, b = linear_max(t[2], loops_by_item, ew, width), linear_max(t[3], loops_by_item, ew, width)
        if a and b:
            return (a[0] + b[0], a[1] + b[1])
    return None


def dim_below_3(d, facts, in_build_rec):
    """is the `dim` argument of a build_rec call below 3: a constant, `_ % k` with k <= 3, or -- inside build_rec, whose own `dim` is below 3 by
    induction over all its call sites -- `dim + 1` on a path that excludes dim == 2 (`if dim == 2 { 0 } else { dim + 1 }`)"""
    c = const_int(d)
    if c is not None:
        return 0 <= c < 3
    if d[0] == "bin" and d[1] == "Rem" and const_int(d[3]) is not None and 1 <= const_int(d[3]) <= 3:
        return True
    if in_build_rec and d[0] == "bin" and d[1] == "Add" and sorted([d[2], d[3]], key=repr) == sorted([("arg", 1), ("c", "1")], key=repr):
        return any(f == ("ne", ("arg", 1), ("c", "2")) or (f[0] == "lt" and f[1] == ("arg", 1) and const_int(f[2]) is not None and const_int(f[2]) <= 2) for f in facts)
    return False


def is_half(t, is_len):
    """t is len / k (k >= 2) or len >> k (k >= 1) of the slice"""
    return t[0] == "bin" and is_len(t[2]) and ((t[1] == "Div" and (const_int(t[3]) or 0) >= 2) or (t[1] == "Shr" and (const_int(t[3]) or 0) >= 1))


def total(ctx, bodies, q, kd):
    prog = ctx.prog
    lemmas, trusts = {}, {}
    sites = SiteLemmas(prog, lemmas)
    clean = lambda *rules: not any(v.rule in rules for v in ctx.violations)   # noqa: E731

    # ---------------- ERR-ROWS: errors.len() == 2 * ewidth under dither, every index below it ----------------------------
    R = "ERR-ROWS"
    ctx.rule(R, "under dither the error vector is resized once to 2*ewidth (ewidth = width + 2) before the loops and every index col [+ ewidth] [+ k] stays below 2*ewidth", floor=3)
    b = bodies[QUANT]
    ev = evaluator(b)
    E, sized_defs, defs_ok = error_rows(b, ev)
    if E is None or not q.get("ok"):
        ctx.anchor(R, "quantize/error-rows")
    else:
        width = ("call", "surface::Surface::width", (("arg", 1),), "@g")
        touching = [(bb, t) for bb, t in b.calls() if any(ev.operand(a, None) == E for a in t["args"])]
        rs = [(bb, t) for bb, t in touching if call_matches(t, r"Vec::<T, A>::resize_with$|Vec::<T, A>::resize$")]
        idxs = [(bb, t) for bb, t in touching if call_matches(t, r"Index<I>>::index$|IndexMut<I>>::index_mut$")]
        # the two rows taken apart as slices: errors.split_at_mut(ewidth) (halves cannot change the vector's length)
        splits = [(bb, t) for bb, t in touching if call_matches(t, r"slice::<impl \[T\]>::split_at(_mut)?$") and ev.operand(t["args"][0], None) == E]
        # scalar indexing of the rows seen as a slice (`errors[i]` behind `&mut [ColorError]`, e.g. in a helper that received `&mut errors`): bounds-checked
        # against the slice length = the vector's length
        sl_idx = [(x, blk["term"]) for x, blk in enumerate(b.blocks) if not blk["cleanup"] and blk["term"]["k"] == "assert" and blk["term"]["msg"].get("kind") == "BoundsCheck"
                  and ev.operand(blk["term"]["msg"]["len"], None) == ("un", "PtrMetadata", E)]
        # calls that cannot change the vector's length: the Vec -> slice view (what is done with it is a call of its own), every slice method (a `&mut [T]` cannot
        # grow or shrink: copy_within, fill, swap, rotate_*, iter_mut, ..), and calls that get the vector by shared reference only (len, is_empty, iter, ..)
        def length_preserving(t):
            if call_matches(t, r"Deref>::deref$|DerefMut>::deref_mut$|^std::ops::Deref(Mut)?::deref(_mut)?$|^core::slice::<impl \[T\]>::\w+$"):
                return True
            tys = t.get("arg_tys", [])
            return all(i < len(tys) and re.match(r"^&(?!('\w+ )?mut )", tys[i]) for i, a in enumerate(t["args"]) if ev.operand(a, None) == E)
        moves = [(bb, t) for bb, t in touching if call_matches(t, r"^core::slice::<impl \[T\]>::copy_within$") and ev.operand(t["args"][0], None) == E]
        other = [(bb, t) for bb, t in touching if (bb, t) not in rs and (bb, t) not in idxs and (bb, t) not in splits and not length_preserving(t)]
        ew = None
        ok_rs = False
        # the one place where the rows get their length: `errors.resize[_with](n, ..)` on the empty vector, or the vector is created as `vec![x; n]`
        # (every other definition being an empty vector: `if dither { vec![..; n] } else { Vec::new() }`)
        sizing = [(bb, ev.operand(t["args"][1], None)) for bb, t in rs] + sized_defs
        if len(sizing) == 1 and not other and defs_ok is not False:
            size_bb, n = sizing[0]
            ns = strip(n)
            if ns[0] == "bin" and ns[1] == "Mul" and ("c", "2") in (ns[2], ns[3]):
                ew = n[2] if ns[3] == ("c", "2") else n[3]
            elif ns[0] == "bin" and ns[1] == "Add" and ns[2] == ns[3]:
                ew = n[2]
            ews = strip(ew) if ew else None
            ok_ew = ews is not None and ews[0] == "bin" and ews[1] == "Add" and sorted([ews[2], ews[3]], key=repr) == sorted([strip(width), ("c", "2")], key=repr)
            cfg = b.cfg()
            # with the dither == false edges removed (the flag never changes), every access is reachable only through the resize
            off = set(flag_edges(b, ev, ("arg", 3))[1])
            ok_dom = bool(off) and all(_only_through(cfg, size_bb, bb, off) for bb, t in idxs + splits + sl_idx + moves) and not any(size_bb in lp["body"] for lp in q["loops"])
            # no (re)definition of the vector as an empty one after it was sized: none inside a loop, none reachable from the sizing site while dither is true
            after = _reach(cfg, size_bb, off)
            in_loop = {x for bd in cfg.loops().values() for x in bd}
            ok_dom = ok_dom and not any(x in in_loop or (x in after and x != size_bb) for x in defs_ok) and size_bb not in in_loop
            ok_rs = ok_ew and ok_dom
            ctx.instance(R, {"resize": show(n)[:100], "ewidth": show(ew)[:80] if ew else None, "is_2*(width+2)": bool(ok_ew), "every_access_preceded_by_resize": ok_dom})
        else:
            ctx.instance(R, {"sizing_sites": len(rs) + len(sized_defs), "definitions_understood": defs_ok is not False, "other_calls_on_error_rows": [(t["fn"].get("resolved") or "?") for bb, t in other], "ok": False})
        if not ok_rs:
            ctx.violation(R, QUANT, "resize", "the error rows are not (only) resized to 2 * (self.width() + 2) before use", sites=[b.loc])
        loops_by_item = [(lp["item"], range_of(lp["iter"])[1]) for lp in q["loops"] if lp["iter"] and range_of(lp["iter"]) and strip(range_of(lp["iter"])[0]) == ("c", "0")]
        guarded = clean("DITHER-GUARD")
        def range_max(rg):
            """(largest value of the end of a usize range term over the rows, number of elements it can cover at most); None when not understood.
            `s..` / `..e` / `0..e` / `..=e`: in bounds iff s <= len resp. e (+1) <= len"""
            if not (isinstance(rg, tuple) and rg[0] == "agg" and rg[1].startswith("std::ops::Range")):
                return None
            kind, fs = rg[1].split("::")[-1], rg[3]
            if kind == "RangeFull":
                return (0, 0)
            if kind == "RangeFrom" and len(fs) == 1:
                return linear_max(fs[0], loops_by_item, ew, width)
            if kind == "RangeTo" and len(fs) == 1 or (kind == "Range" and len(fs) == 2 and const_int(fs[0]) == 0):
                return linear_max(fs[-1], loops_by_item, ew, width)
            if kind == "RangeToInclusive" and len(fs) == 1:
                m = linear_max(fs[0], loops_by_item, ew, width)
                return (m[0], m[1] + 1) if m else None
            return None
        for bb, t in idxs + sl_idx:
            it = ev.operand(t["args"][1], None) if t["k"] == "call" else ev.operand(t["msg"]["index"], None)
            if isinstance(it, tuple) and it[0] == "agg" and ew:
                # `errors[s..]`, `errors[..e]`: the bound may equal the length
                lm = range_max(it)
                ok = ok_rs and lm is not None and (lm[0], lm[1]) <= (2, 4) and lm[0] <= 2 and lm[1] <= 4 and guarded
                ctx.instance(R, {"range_index": show(it)[:160], "max_bound_as_(coef_of_width, const)": lm, "at_most_2*width+4": bool(ok)})
                sites.vote(b, bb, ok, ("ERR-ROWS", "range bound <= %d*width%+d <= 2*(width+2) == errors.len() (resized under the same `dither` flag that guards the access)" % (lm or (0, 0))))
                continue
            lm = linear_max(it, loops_by_item, ew, width) if ew else None
            ok = ok_rs and lm is not None and lm[0] <= 2 and lm[1] <= 3 and guarded
            ctx.instance(R, {"index": show(it)[:160], "max_as_(coef_of_width, const)": lm, "below_2*width+4": bool(ok)})
            sites.vote(b, bb, ok, ("ERR-ROWS", "index <= %d*width%+d <= 2*width+3 < 2*(width+2) == errors.len() (resized under the same `dither` flag that guards the access)" % (lm or (0, 0))))
        for bb, t in moves:
            # errors.copy_within(src, dest): src within the rows and dest + src.len() <= errors.len(); decided for `s..` with dest <= s (moves towards the front)
            src, dest = ev.operand(t["args"][1], None), ev.operand(t["args"][2], None)
            lm = range_max(src) if ew else None
            kind = src[1].split("::")[-1] if isinstance(src, tuple) and src[0] == "agg" else None
            if kind == "RangeFrom":
                fits = const_int(dest) == 0 or strip(dest) == strip(src[3][0])
            else:       # `..e` / `0..e` / `..=e`: e elements land at dest.. : dest + e <= len
                dm = linear_max(dest, loops_by_item, ew, width) if ew else None
                fits = lm is not None and dm is not None and lm[0] + dm[0] <= 2 and lm[1] + dm[1] <= 4
            ok = bool(ok_rs and lm is not None and lm[0] <= 2 and lm[1] <= 4 and fits and guarded)
            ctx.instance(R, {"copy_within": "%s -> %s" % (show(src)[:100], show(dest)[:60]), "source_and_destination_inside_the_rows": ok})
            sites.vote(b, bb, ok, ("ERR-ROWS", "source range bound <= 2*(width+2) == errors.len() and the copied elements end at or before errors.len() (resized under the same `dither` flag)"))
        halves = []
        for bb, t in splits:
            mid = ev.operand(t["args"][1], None)
            ok = bool(ok_rs and ew is not None and strip(mid) == strip(ew) and guarded)
            ctx.instance(R, {"split_at": show(mid)[:100], "is_ewidth_of_the_2*ewidth_rows": ok})
            sites.vote(b, bb, ok, ("ERR-ROWS", "mid == ewidth <= 2*ewidth == errors.len() (resized under the same `dither` flag that guards the access)"))
            if ok:
                st = ev.local(t["dest"]["l"], None) if not t["dest"]["p"] else None
                halves.append({field(st, "0"), field(st, "1")})
        for bb, t in b.calls():
            if call_matches(t, r"slice::<impl \[T\]>::(copy_from_slice|clone_from_slice|swap_with_slice)$") and len(t["args"]) == 2:
                pair = {ev.operand(t["args"][0], None), ev.operand(t["args"][1], None)}
                if any(pair == h for h in halves):
                    sites.vote(b, bb, True, ("ERR-ROWS", "the two halves of errors.split_at_mut(ewidth) with errors.len() == 2*ewidth have ewidth elements each"))
        sites.commit()

    # ---------------- KD-INV: the k-d tree store invariants -------------------------------------------------------------------
    R = "KD-INV"
    ctx.rule(R, "k-d tree store invariants: non-empty node vector, child/root indices below nodes.len(), dim < 3, median index inside the slice", floor=9)
    kb = bodies[KD_BUILD]
    evb, psb = paths_of(ctx, R, kb)
    struct_ok = clean("INDEX-VALID", "NEAREST-SHAPE")
    ctx.instance(R, {"INDEX-VALID_and_NEAREST-SHAPE_hold": struct_ok})
    # dim arguments
    dims = []
    for cpath in sorted({owner(prog, c) for c in prog.callgraph().callers(KD_BUILD)}):
        cb = expand(prog, cpath)
        if cb is None:
            continue
        evc_, cps_ = paths_of(ctx, R, cb)
        for bb, t in cb.calls():
            if call_matches(t, r"^image::KDTree::new::build_rec$"):
                d = strip(evaluator(cb).operand(t["args"][0], None))
                # per path (the argument may be chosen by an `if` / `match`), with the facts of the path
                seen_ = [(strip(c.args[0]), [strip(f) for f in cp.facts]) for cp in cps_ or [] for c in cp.calls if c.bb == bb]
                good = all(dim_below_3(d_, fs_, cb.path == KD_BUILD) for d_, fs_ in seen_) if seen_ else dim_below_3(d, [], False)
                if seen_ and d[0] == "var":
                    d = seen_[0][0]
                dims.append(good)
                ctx.instance(R, {"build_rec_called_from": cb.path, "dim": show(d)[:60], "below_3": bool(good)})
                if not good:
                    ctx.violation(R, cb.path, "dim-arg", "build_rec is called with dim = %s, not provably below 3 (KDNode.dim indexes [u8; 3])" % show(d)[:80], sites=["%s:%d" % (cb.file, t["line"])])
    dim_ok = bool(dims) and all(dims) and struct_ok
    # empty slice <-> None; every len()-1 follows a push; median inside the slice
    none_ok = push_ok = med_ok = psb is not None
    med_sites = {}
    if psb is not None:
        cols, nvec = ("arg", 3), ("arg", 2)

        def is_len(t):
            t = strip(t)
            return t == ("un", "PtrMetadata", cols) or (is_call(t, r"slice::<impl \[T\]>::len$") and t[2] == (cols,))
        for p in psb:
            empty = any(f[0] == "eq" and is_len(f[1]) and f[2] == ("c", "0") for f in p.facts)
            nonempty = any(f[0] == "ne" and is_len(f[1]) and f[2] == ("c", "0") for f in p.facts)
            isnone = p.ret is not None and p.ret[0] == "agg" and p.ret[2] == "None"
            if isnone != empty or (not isnone and not nonempty):
                none_ok = False
            pushes = [c.pos for c in p.calls if c.matches(r"Vec::<T, A>::push$") and c.args[0] == nvec]
            # the minuends of the overflow-checked subtractions on this path (a len() that is only compared or asserted on does not matter)
            minuends = [f[1][1][2] for f in p.asserts if f[0] == "false" and f[1][0] == "ovf" and f[1][1][1] == "SubWithOverflow"]
            for c in p.calls:
                if c.matches(r"Vec::<T, A>::len$") and c.args[0] == nvec and c.term in minuends and not (pushes and min(pushes) < c.pos):
                    push_ok = False
                if c.matches(r"index_mut$|Index.*::index$") and c.args[0] == cols and c.args[1][0] == "agg":
                    bnd = c.args[1][3][-1] if c.args[1][1] != "std::ops::RangeFrom" else c.args[1][3][0]
                    bs = strip(bnd)
                    if bs[0] == "bin" and bs[1] == "Add" and ("c", "1") in (bs[2], bs[3]):
                        bs = bs[2] if bs[3] == ("c", "1") else bs[3]
                    good = is_half(bs, is_len) and nonempty
                    med_ok = med_ok and good
                    med_sites[c.bb] = good
        # the bounds-checked colors[m]
        for x in range(len(kb.blocks)):
            t = kb.blocks[x]["term"]
            if t["k"] == "assert" and t["msg"].get("kind") == "BoundsCheck":
                i = strip(evb.operand(t["msg"]["index"], None))
                good = is_half(i, is_len)
                med_sites[x] = good
                med_ok = med_ok and good
        # every overflow-checked `x - 1` is nodes.len() - 1
        for x in range(len(kb.blocks)):
            t = kb.blocks[x]["term"]
            if t["k"] == "assert" and t["msg"].get("kind") == "Overflow" and t["msg"].get("op") == "Sub":
                a = evb.operand(t["msg"]["a"], None)
                if not (is_call(a, r"Vec::<T, A>::len$") and a[2] == (nvec,) and const_int(evb.operand(t["msg"]["b"], None)) == 1):
                    push_ok = False
    ctx.instance(R, {"build_rec": "returns None exactly for the empty slice", "holds": none_ok})
    ctx.instance(R, {"build_rec": "nodes.len() - 1 is only computed after a push on the same path", "holds": push_ok})
    ctx.instance(R, {"build_rec": "slice bounds and median index are len/2 (+1) of the non-empty slice", "sites": len(med_sites), "holds": med_ok})
    if push_ok and struct_ok:
        lemmas[(KD_BUILD, "OVF")] = ("KD-INV", "nodes.len() >= 1 right after nodes.push(..) (the only overflow-checked subtraction is nodes.len() - 1 after a push)")
    elif not push_ok:
        ctx.violation(R, KD_BUILD, "len-after-push", "build_rec computes nodes.len() - 1 (or another checked subtraction) without a preceding push on the same path", sites=[kb.loc])
    if med_ok and struct_ok:
        for bb, good in med_sites.items():
            sites.vote(kb, bb, good, ("KD-INV", "m = len/2 of a slice with len >= 1 (the empty slice returned None): m < len, m + 1 <= len"))
        sites.commit()
    elif not med_ok:
        ctx.violation(R, KD_BUILD, "median", "a slice bound / index in build_rec is not len/2 (+1) of the non-empty colour slice", sites=[kb.loc])
    if not none_ok:
        ctx.violation(R, KD_BUILD, "empty-none", "build_rec does not return None exactly when its slice is empty (a non-empty palette must give a non-empty node vector)", sites=[kb.loc])
    xr = bodies[KD_REC]
    evr = evaluator(xr)
    rec_checks = bounds_checks(xr, evr)
    DIM_WHY = "KDNode.dim is build_rec's `dim` parameter (NEAREST-SHAPE build-dim), which is 0 at the root call and (dim + 1) % 3 in the recursion: < 3"
    if dim_ok:
        # every `x[node.dim]` on a 3-element array with `node` an element of the searched node slice
        for x, i, ln in rec_checks:
            if ln == ("c", "3") and i[0] == "f" and i[2] == "dim" and i[1][0] == "ix" and i[1][1] == ("arg", 1):
                sites.vote(xr, x, True, ("KD-INV", DIM_WHY))
        # the sort key closure(s) of build_rec index a colour by the captured `dim` (NEAREST-SHAPE build-dim checked the key)
        for cpath in kd.get("sort_closures", ()):
            lemmas[(cpath, "BOUNDS")] = ("KD-INV", DIM_WHY)
        sites.commit()
    # callers of KDTree::find / find_rec inside the reach set
    cg = prog.callgraph()
    dyn, _init = cg.reach_split(ENTRIES)
    c_find = sorted({owner(prog, c) for c in cg.callers(KD_FIND) if c in dyn})
    c_rec = sorted({owner(prog, c) for c in cg.callers(KD_REC) if c in dyn})
    callers_ok = c_find == [PAL_FIND] and c_rec == sorted([KD_FIND, KD_REC])
    ctx.instance(R, {"callers_of_KDTree::find_in_reach": c_find, "callers_of_find_rec": c_rec, "ok": callers_ok})
    if not callers_ok:
        ctx.violation(R, KD_FIND, "callers", "KDTree::find / find_rec are reached from %s / %s: the non-empty and index invariants are only established through ColorPalette" % (c_find, c_rec), sites=[])
    if struct_ok and none_ok and callers_ok:
        lemmas[(KD_FIND, "OVF-Sub-1")] = ("KD-INV", "self.nodes is non-empty: ColorPalette::new rejects an empty vector, KDTree::new hands all colours to build_rec, which pushes a node for every non-empty slice; "
                                                    "no writer of ColorPalette / KDTree fields outside their constructors")
        if push_ok:
            # `nodes[index]` with find_rec's own parameters (NEAREST-SHAPE rec-args / root: index is the root or a child index of a visited node)
            for x, i, ln in rec_checks:
                if i == ("arg", 2) and ln == ("un", "PtrMetadata", ("arg", 1)):
                    sites.vote(xr, x, True, ("KD-INV", "index is the root nodes.len() - 1 or a child index stored by build_rec = position of a node pushed earlier into the same, only growing vector; "
                                                       "KDNode / KDTree are never modified after construction"))
            sites.commit()

    # ---------------- METRIC-RANGE -----------------------------------------------------------------------------------------
    if clean("NEAREST-SHAPE"):
        db = bodies[KD_DIST]
        kn = prog.adts.get("image::KDNode") or {"variants": []}
        col_ty = [f.get("ty") for v in kn["variants"] for f in v.get("fields", []) if f.get("name") == "color"]
        tgt_ty = db.local_ty(1) if db is not None else xr.local_ty(3)
        u8 = tgt_ty == "[u8; 3]" and col_ty == ["[u8; 3]"]
        ctx.instance("KD-INV", {"metric_operands": [tgt_ty, col_ty], "are_u8_channels": u8})
        WHY = "the metric is a sum of three squares of differences of u8 values (NEAREST-SHAPE metric): at most 3 * 255^2 = 195075 < 2^31"
        if u8 and db is not None:
            lemmas[(KD_DIST, "OVF")] = ("METRIC-RANGE", WHY)
        if u8:
            for cpath in kd.get("metric_closures", ()):      # |(a, b)| (a - b)^2 over the zipped u8 channels
                lemmas[(cpath, "OVF")] = ("METRIC-RANGE", "one squared difference of two u8 channels widened to a signed type: |a - b| <= 255, (a - b)^2 <= 65025")
        if u8 and kd.get("inline_metric"):
            # the metric written out in find_rec: every checked operation that computes a part of it
            parts = {t for m in kd["inline_metric"] for t in subterms(m) if t[0] == "bin"}
            for x, blk in enumerate(xr.blocks):
                t = blk["term"]
                if not blk["cleanup"] and t["k"] == "assert" and t["msg"].get("kind") == "Overflow":
                    r = strip(("bin", t["msg"]["op"], evr.operand(t["msg"]["a"], None), evr.operand(t["msg"]["b"], None)))
                    if r in parts:
                        sites.vote(xr, x, True, ("METRIC-RANGE", WHY))
            sites.commit()

    # ---------------- OCTREE-INV ---------------------------------------------------------------------------------------------
    octree_inv(ctx, bodies, lemmas, trusts)

    ACC = ("<image::OcTreeLeaf as std::ops::AddAssign<rasterize::RGBA>>::add_assign", "<image::OcTreeLeaf as std::ops::AddAssign>::add_assign", "image::OcTreeInfo::join")
    evs = {}

    def size_bound(bd, t, depth=0):
        """upper bound of a usize term under SIZE-BOUND (every dimension / palette size atom < 2^31); None when the term has other atoms"""
        c = const_int(t)
        if c is not None:
            return c
        if depth > 12 or not isinstance(t, tuple):
            return None
        if t == ("arg", 2) and bd.path == PAL_FROM or (t == ("arg", 2) and bd.path == QUANT):
            return 2 ** 31
        if is_call(t, r"^surface::Surface::(width|height)$") and t[2] == (("arg", 1),):
            return 2 ** 31
        if t[0] == "f" and t[2] == "0" and t[1][0] == "dc" and t[1][2] == "Some" and is_call(t[1][1], r"::next$") and len(t[1][1][2]) == 1:
            rg = range_of(t[1][1][2][0])      # item of `for x in 0..end`: x < end
            return size_bound(bd, rg[1], depth + 1) if rg else None
        if t[0] == "cast":
            return size_bound(bd, t[2], depth + 1)
        if t[0] == "bin":
            a, b_ = size_bound(bd, t[2], depth + 1), size_bound(bd, t[3], depth + 1)
            op = t[1].replace("WithOverflow", "")
            if op in ("Div", "Sub") and a is not None:
                return a
            if a is None or b_ is None:
                return None
            if op == "Add":
                return a + b_
            if op == "Mul":
                return a * b_
            if op == "Rem":
                return b_
        return None

    def acc_operand(t):
        """a per-pixel accumulator operand: a field of self/rhs, a small constant, or an 8-bit channel widened to usize"""
        while isinstance(t, tuple) and t[0] == "f":
            t = t[1]
        if isinstance(t, tuple) and t[0] == "arg":
            return True
        if const_int(t) is not None:
            return 0 <= const_int(t) <= 255
        return isinstance(t, tuple) and t[0] == "cast" and t[1] == "usize" and t[2][0] == "ix" and is_call(t[2][1], r"::to_rgb$|::to_rgba$")

    def assume_one(xb, x, o):
        ev_ = evs.setdefault(id(xb), evaluator(xb))
        t = xb.blocks[x]["term"]
        if o.kind == "OVF" and o.sub in ("Add", "Mul"):
            m = t["msg"]
            ta, tb = ev_.operand(m["a"], None), ev_.operand(m["b"], None)
            if xb.path in (QUANT, PAL_FROM):
                ba, bb_ = size_bound(xb, ta), size_bound(xb, tb)
                if ba is not None and bb_ is not None and (ba + bb_ if o.sub == "Add" else ba * bb_) < 2 ** 64:
                    return ("SIZE-BOUND", "operands are built from image dimensions / palette size (each below 2^31) and constants: result below %d < 2^64" % (ba + bb_ if o.sub == "Add" else ba * bb_))
            if xb.path in ACC and o.sub == "Add" and acc_operand(ta) and acc_operand(tb):
                return ("PIXEL-COUNT", "per-pixel accumulators (channel sums <= 255 * pixels, leaf and colour counts <= pixels) with fewer than 2^48 pixels")
        if o.kind == "DIV0" and xb.path == PAL_FROM:
            d = strip(ev_.operand(t["cond"], None))
            if d[0] == "bin" and d[1] == "Eq" and d[3] == ("c", "0"):
                x_ = d[2]
                if x_ == ("arg", 2) or (x_[0] == "bin" and x_[1] == "Mul" and ("arg", 2) in (x_[2], x_[3]) and any((const_int(y) or 0) >= 1 for y in (x_[2], x_[3]))):
                    return ("SIZE-BOUND", "palette_size >= 1 (quantifier of the property), so palette_size * k is not zero")
        return None

    def assume_filter(b, o):
        """decided where the statement is evaluated: in b itself or, for a helper used by one function only, in every copy expanded there"""
        if o.term is None or o.term.get("k") != "assert":
            return None
        if o.kind == "OVF" and not (o.sub in ("Add", "Mul") and usize_operands(b, o)):
            return None
        hits = [assume_one(xb, x, o) for xb, x in copies_of(prog, b, o.bb)]
        return hits[0] if hits and all(hits) else None

    oblrules.run(ctx, "TOTAL", ENTRIES, lossy=False, lemmas=lemmas, trusts=trusts, scope=lambda b: b.file == "src/image.rs", floor_bodies=60,
                 assume_filter=assume_filter,
                 desc="no reachable panic/overflow/bounds/unwrap failure from Image::quantize and ColorPalette::{new,from_image,find} within src/image.rs")


def _reach(cfg, a, removed_edges):
    """blocks reachable from block a (a itself only through a cycle... kept simple: a is included) once `removed_edges` are deleted"""
    seen, st = set(), [a]
    while st:
        y = st.pop()
        if y in seen:
            continue
        seen.add(y)
        for s_ in cfg.succ[y]:
            if (y, s_) not in removed_edges:
                st.append(s_)
    return seen


def _only_through(cfg, a, x, removed_edges):
    """block x is reachable from the entry only through block a once `removed_edges` are deleted"""
    seen, st = set(), [0]
    while st:
        y = st.pop()
        if y in seen or y == a:
            continue
        seen.add(y)
        if y == x:
            return False
        for s_ in cfg.succ[y]:
            if (y, s_) not in removed_edges:
                st.append(s_)
    return True


def umax(t):
    """an upper bound of the unsigned integer term t derived from its operators alone (None: unknown): constants, `&` (either side bounds it), `|` and `^`
    (below the next power of two above both sides), `>>` by a constant, `%` by a constant, widening casts"""
    if not isinstance(t, tuple) or not t:
        return None
    c = const_int(t)
    if c is not None:
        return c if c >= 0 else None
    if t[0] == "cast":
        if not re.match(r"^[ui](8|16|32|64|128|size)$", t[1]):
            return None
        m = umax(t[2])      # truncation never raises an unsigned value; a signed target keeps values below 2^7 in every width
        return m if m is not None and (t[1].startswith("u") or m <= 127) else None
    if t[0] != "bin":
        return None
    a, b_ = umax(t[2]), umax(t[3])
    if t[1] == "BitAnd":
        return min(x for x in (a, b_) if x is not None) if (a is not None or b_ is not None) else None
    if t[1] in ("BitOr", "BitXor"):
        return (1 << max(a, b_).bit_length()) - 1 if a is not None and b_ is not None else None
    if t[1] in ("Shr", "ShrUnchecked") and a is not None and const_int(t[3]) is not None and const_int(t[3]) >= 0:
        return a >> const_int(t[3])
    if t[1] == "Rem" and const_int(t[3]) is not None and const_int(t[3]) > 0:
        return const_int(t[3]) - 1
    if t[1] == "Div" and a is not None and const_int(t[3]) is not None and const_int(t[3]) > 0:
        return a // const_int(t[3])
    return None


def subst(t, var, val):
    """term t with the term `var` replaced by `val`; projections of aggregates that become known are folded (as sympath does while evaluating)"""
    if t == var:
        return val
    if not isinstance(t, tuple) or not t:
        return t
    k = t[0]
    if k == "dc" and len(t) == 3:
        x = subst(t[1], var, val)
        return x if isinstance(x, tuple) and x and x[0] == "agg" and x[2] == t[2] else ("dc", x, t[2])
    if k == "f" and len(t) == 3:
        x = subst(t[1], var, val)
        if isinstance(x, tuple) and x and x[0] == "agg":
            if t[2] in x[4]:
                return x[3][x[4].index(t[2])]
            if t[2].isdigit() and int(t[2]) < len(x[3]):
                return x[3][int(t[2])]
        if isinstance(x, tuple) and x and x[0] == "tuple" and t[2].isdigit() and int(t[2]) < len(x[1]):
            return x[1][int(t[2])]
        return ("f", x, t[2])
    if k == "agg" and len(t) == 5:
        return t[:3] + (tuple(subst(x, var, val) for x in t[3]), t[4])
    return tuple(subst(x, var, val) if isinstance(x, tuple) else x for x in t)


def argmin_ok(ctx, R, prog, b):
    """argmin_color_count(tree) returns Some(i) only for an enumerate() position i over tree.children of an element whose info().min_color_count is Some -- decided on
    what is returned, for the iterator chain (enumerate / filter_map / min_by_key / map: the closures are found by data flow) and for the loop that keeps the best
    candidate in a local (every update of the accumulator stores the loop's own index under the fact that the element's min_color_count is Some, and the
    returned value is the index component of the accumulator)"""
    children = field(("arg", 1), "children")
    if not b.cfg().loops():
        ev, ps = paths_of(ctx, R, b)
        if not ps:
            return False
        ok = True
        for p in ps:
            r = strip(p.ret) if p.ret is not None else None
            good = r is not None and is_call(r, r"Option::<T>::map$") and is_call(r[2][0], r"Iterator::(min_by_key|max_by_key|min_by|max_by|next|last)$") and is_call(r[2][0][2][0], r"Iterator::filter_map$") \
                and is_call(r[2][0][2][0][2][0], r"Iterator::enumerate$") and is_call(r[2][0][2][0][2][0][2][0], r"slice::<impl \[T\]>::iter$") and r[2][0][2][0][2][0][2][0][2] == (children,)
            if not good:
                return False
            sel, flt = closure_body(prog, r[2][1]), closure_body(prog, r[2][0][2][0][2][1])
            if sel is None or flt is None:
                return False
            ps_sel, ps_flt = paths_of(ctx, R, sel)[1], paths_of(ctx, R, flt)[1]
            if not ps_sel or not ps_flt:
                return False
            ok = ok and all(q.ret is not None and strip(q.ret) == field(("arg", 2), "0") for q in ps_sel)
            info_t = ("call", "image::OcTreeNode::info", (field(("arg", 2), "1"),), None)
            mcc = ("try", field(info_t, "min_color_count"))
            for q in ps_flt:
                r2 = strip(q.ret) if q.ret is not None else None
                if r2 is not None and r2[0] == "agg" and r2[2] == "Some":
                    ok = ok and r2[3][0][0] == "tuple" and r2[3][0][1][0] == field(("arg", 2), "0") and \
                        (variant_known([strip(f) for f in q.facts], mcc, "0") or variant_known([strip(f) for f in q.facts], mcc[1], "1"))
                elif r2 is not None and is_call(r2, r"from_residual$"):
                    pass
                elif not (r2 is not None and r2[0] == "agg" and r2[2] == "None"):
                    ok = False
        return ok
    # ---- the loop form
    ev0 = evaluator(b)
    loops = for_loops(b, ev0)
    if len(loops) != 1 or len(b.cfg().loops()) != 1:
        return False
    lp = loops[0]
    it = strip(lp["iter"]) if lp["iter"] else None
    while is_call(it, r"IntoIterator.*into_iter$") and it[2]:
        it = it[2][0]
    if not (is_call(it, r"Iterator::enumerate$") and it[2] and is_call(it[2][0], r"slice::<impl \[T\]>::iter$") and it[2][0][2] == (children,)):
        return False
    item = strip(lp["item"])
    idx_t = field(item, "0")
    mcc = field(("call", "image::OcTreeNode::info", (field(item, "1"),), None), "min_color_count")
    ev = evaluator(b, combinators=True)
    try:
        inner = ev.paths(lp["some"], [lp["head"]])
        after = ev.paths(lp["none"], ())
    except TooManyPaths:
        return False
    live = lambda ps: [p for p in ps if p.end[0] not in ("infeasible", "unreachable") and not panics(b, p)]     # noqa: E731
    inner, after = live(inner), live(after)
    inside = lambda l: {bb for bb, si, rv in b.defs_of(l) if bb in lp["body"]}       # noqa: E731
    carried = [l for l in range(b.arg_count + 1, len(b.locals)) if inside(l) and len(inside(l)) < len(b.defs_of(l))]
    cvars = [("var", l) for l in carried]

    def selected(x, facts):
        """x is the loop's own enumerate position, taken where the element's min_color_count is Some"""
        facts = [strip(f) for f in facts]
        return x == idx_t and (variant_known(facts, mcc, "1") or variant_known(facts, ("try", mcc), "0"))

    def good_ret(r, facts):
        return r is not None and r[0] == "agg" and r[1] == "std::option::Option" and (r[2] == "None" or (r[2] == "Some" and len(r[3]) == 1 and selected(r[3][0], facts)))
    cands = {v: [] for v in cvars}      # values an accumulator can hold when the loop is left: (term, facts it was stored under | None for the initial value)
    for l, v in zip(carried, cvars):
        for bb, si, rv in b.defs_of(l):
            if bb not in lp["body"]:
                cands[v].append((strip(ev0.rvalue(rv, None)) if si != "term" else ("?",), None))
    for p in inner:
        if any(contains(strip(st[0]), v) for st in p.stores for v in cvars):
            return False
        if p.end[0] == "return":
            if not good_ret(strip(p.ret) if p.ret is not None else None, p.facts):
                return False
            continue
        if p.end != ("stop", lp["head"]):
            return False
        for l, v in zip(carried, cvars):
            nv = p.env.get(l)
            if nv is not None and nv != v:
                cands[v].append((strip(nv), p.facts))

    def infeasible(facts):
        for f in facts:
            if f[0] in ("is", "isnot") and isinstance(f[1], tuple) and f[1][0] == "agg":
                vi = ev._variant_index(f[1])
                if vi is None and f[1][1] in ("std::option::Option", "core::option::Option"):
                    vi = {"None": 0, "Some": 1}.get(f[1][2])
                if vi is not None and ((f[0] == "is" and str(vi) != f[2]) or (f[0] == "isnot" and str(vi) in f[2])):
                    return True
        return False
    if not after or any(p.end[0] != "return" or p.ret is None for p in after):
        return False
    for p in after:
        r = strip(p.ret)
        used = [v for v in cvars if contains(r, v)]
        if not used:
            if not (r[0] == "agg" and r[2] == "None"):
                return False
            continue
        if len(used) != 1:
            return False
        v = used[0]
        for val, facts in cands[v]:
            if infeasible([subst(strip(f), v, val) for f in p.facts]):
                continue
            r2 = subst(r, v, val)
            if r2 == r:
                continue        # the accumulator is kept: what it held before was stored by one of the other updates
            if facts is None:
                if not (r2[0] == "agg" and r2[2] == "None"):
                    return False
                continue
            if not good_ret(r2, facts):
                # an update that carries the old candidate over (`best = best.or(..)`, `Some((old_index, ..))`): the index component is the one the accumulator held
                if r2[0] == "agg" and r2[2] == "Some" and len(r2[3]) == 1 and r[0] == "agg" and r[2] == "Some" and r2[3][0] == r[3][0]:
                    continue
                return False
    return True


def octree_inv(ctx, bodies, lemmas, trusts):
    R = "OCTREE-INV"
    prog = ctx.prog
    ctx.rule(R, "octree store invariants: child indices below 8 (3-bit path element / enumerate over the 8 children), OcTreePath starts with length 8, argmin selects a non-empty child; "
                "who-writes rules for the trusted leaf-count and depth invariants", floor=10)
    NEXT = "<image::OcTreePath as std::iter::Iterator>::next"
    ARGMIN = "image::OcTree::prune::argmin_color_count"
    need = {p: prog.body(p) for p in (NEXT, "image::OcTreePath::new", "image::OcTree::insert", "image::OcTree::insert::insert_rec", ARGMIN,
                                      "image::OcTreeNode::info", "image::OcTreeInfo::empty", "image::OcTree::node_update", "image::OcTree::prune", "image::OcTree::prune::prune_rec",
                                      "image::OcTreeLeaf::from_rgba", "image::OcTreeLeaf::to_rgba")}
    for p, b in need.items():
        if b is None:
            ctx.anchor(R, p)
    if any(b is None for b in need.values()):
        return
    P = {}
    for p, b in need.items():
        if p == ARGMIN:
            continue        # decided by argmin_ok: an iterator chain or a loop
        ev, ps = paths_of(ctx, R, b)
        if ps is None:
            return
        P[p] = ps
    # (1) OcTreePath::next yields 3-bit values and None only when length == 0; new() starts with a constant length >= 1
    ok_next = True
    length = field(("arg", 1), "length")

    def length_is_zero(facts):
        """the path's facts say self.length == 0: written as a comparison (== 0, < 1, <= 0) or as the failure of the unsigned `length.checked_sub(1)`
        (`self.length = self.length.checked_sub(1)?`, `let Some(l) = self.length.checked_sub(1) else { return None }`, `match .. { None => .. }`)"""
        for f in (strip(f) for f in facts):
            if f[0] == "eq" and sorted([f[1], f[2]], key=repr) == sorted([length, ("c", "0")], key=repr):
                return True
            if f[0] == "lt" and f[1] == length and const_int(f[2]) == 1 or (f[0] == "le" and f[1] == length and const_int(f[2]) == 0):
                return True
            if f[0] in ("is", "isnot"):
                t = f[1]
                broke = t[0] == "try" and variant_known([f], t, "1")       # `?` took the Break edge
                t = t[1] if t[0] == "try" else t
                if is_call(t, r"^core::num::<impl u(8|16|32|64|128|size)>::checked_sub$") and t[2] == (length, ("c", "1")) and (broke or (f[1] == t and variant_known([f], t, "0"))):
                    return True
        return False

    def none_ret(r):
        """None, written out or as the residual of `?` on an Option in this Option-returning function"""
        if r is not None and r[0] == "agg" and r[2] == "None":
            return True
        return is_call(r, r"FromResidual.*::from_residual$") and len(r[2]) == 1 and r[2][0][0] == "f" and r[2][0][1][0] == "dc" and r[2][0][1][2] == "Break" \
            and r[2][0][1][1][0] == "try" and is_call(r[2][0][1][1][1], r"^core::num::<impl \w+>::checked_\w+$|^core::option::Option")
    for p in P[NEXT]:
        r = p.ret
        if r is not None and r[0] == "agg" and r[2] == "Some":
            # the element fits 3 bits by what it computes: `x & 7`, the mask distributed over an or (`(a & 4) | (b & 2) | (c & 1)`), `x % 8`, `x >> k` of a bounded x ..
            m = umax(r[3][0])
            ok_next = ok_next and m is not None and m <= 7
        elif none_ret(r):
            ok_next = ok_next and length_is_zero(p.facts)
        else:
            ok_next = False
    ctx.instance(R, {"OcTreePath::next": "Some(x & 7) / None only when length == 0", "holds": ok_next})
    ok_new = all(p.ret is not None and p.ret[0] == "agg" and p.ret[1] == "image::OcTreePath" and (const_int(dict(zip(p.ret[4], p.ret[3])).get("length")) or 0) >= 1 for p in P["image::OcTreePath::new"]) \
        and len(adt_writers(prog, "image::OcTreePath")[0]) == 1
    ctx.instance(R, {"OcTreePath::new": "length is a constant >= 1; the only constructor", "holds": ok_new})
    # (2) insert: expect(next(OcTreePath::new(c))) with nothing in between
    ok_ins = bool(P["image::OcTree::insert"])
    for p in P["image::OcTree::insert"]:
        ex = [c for c in p.calls if c.matches(r"Option::<T>::(expect|unwrap)$")]
        for c in ex:
            a = c.args[0]
            good = is_call(a, r"Iterator>::next$|Iterator::next$") and is_call(a[2][0], r"^image::OcTreePath::new$")
            if good:
                pth = a[2][0]
                mk = [x for x in p.calls if x.term == pth][0]
                nx = [x for x in p.calls if x.term == a][0]
                between = [x for x in p.calls if mk.pos < x.pos < nx.pos and any(contains(y, pth) for y in x.args)]
                good = not between
            ok_ins = ok_ins and good
    ctx.instance(R, {"OcTree::insert": "expect() is applied to the first next() of a fresh OcTreePath::new(color)", "holds": ok_ins})
    if ok_next and ok_new and ok_ins:
        lemmas[("image::OcTree::insert", "UNWRAP")] = ("OCTREE-INV", "a fresh OcTreePath has length 8 and next() returns None only when length == 0")
    else:
        ctx.violation(R, "image::OcTree::insert", "first-step", "OcTree::insert's expect() is not applied to the first element of a fresh OcTreePath of constant non-zero length", sites=[need["image::OcTree::insert"].loc])
    # (3) argmin: enumerate index of one of the 8 children whose info().min_color_count is Some
    ok_arg = argmin_ok(ctx, R, prog, need[ARGMIN])
    ctx.instance(R, {"argmin_color_count": "index = enumerate() position over tree.children of an element whose info().min_color_count is Some", "holds": ok_arg})
    vs = dict((n, str(d if d is not None else i)) for i, (n, d) in enumerate(prog.enum_variants("image::OcTreeNode") or []))
    ok_info = "Empty" in vs
    for p in P["image::OcTreeNode::info"]:
        if variant_known(p.facts, ("arg", 1), vs.get("Empty"), tuple(vs.values())):
            ok_info = ok_info and is_call(p.ret, r"^image::OcTreeInfo::empty$")
    ok_info = ok_info and all(p.ret is not None and p.ret[0] == "agg" and dict(zip(p.ret[4], p.ret[3])).get("min_color_count", ("?",))[:3] == ("agg", "std::option::Option", "None") for p in P["image::OcTreeInfo::empty"])
    ctx.instance(R, {"OcTreeNode::info": "Empty -> OcTreeInfo::empty() whose min_color_count is None", "holds": ok_info})
    ch_ty = [f for a in [prog.adts.get("image::OcTree")] if a for v in a["variants"] for f in v.get("fields", []) if f.get("name") == "children"]
    ok_len = bool(ch_ty) and re.match(r"^\[image::OcTreeNode; 8\]$", ch_ty[0].get("ty", "")) is not None
    ctx.instance(R, {"OcTree.children": ch_ty[0].get("ty") if ch_ty else None, "has_8_elements": ok_len})
    # users of node_update / children[index]
    ok_users = True
    users = []
    for pth in ("image::OcTree::prune", "image::OcTree::prune::prune_rec", "image::OcTree::insert", "image::OcTree::insert::insert_rec"):
        for p in P[pth]:
            for c in p.calls:
                idx = None
                if c.matches(r"^image::OcTree::node_update$"):
                    idx = c.args[1]
                elif c.matches(r"^image::OcTreeNode::take$") and c.args[0][0] == "ix":
                    idx = c.args[0][2]
                    # the child taken is the one argmin selected on the same tree, with no write in between
                    am = [x for x in p.calls if x.matches(r"argmin_color_count$") and some_payload(x.term) == idx]
                    if not (am and am[0].args[0] == c.args[0][1][1] and c.args[0][1][2] == "children" and am[0].epoch == c.epoch):
                        ok_users = False
                if idx is None:
                    continue
                src = None
                if idx[0] == "f" and idx[2] == "0" and idx[1][0] == "dc" and idx[1][2] == "Some":
                    src = idx[1][1]
                elif is_call(idx, r"Option::<T>::(expect|unwrap)$"):
                    src = idx[2][0]
                good = src is not None and (src[0] == "call" and src[1] == NEXT or is_call(src, r"^image::OcTree::prune::argmin_color_count$"))
                users.append((pth.split("::")[-1], show(idx)[:70], bool(good)))
                ok_users = ok_users and good
    ctx.instance(R, {"children_index_sources": sorted(set(users))[:8], "all_from_OcTreePath::next_or_argmin": ok_users})
    nu = need["image::OcTree::node_update"]
    cg = prog.callgraph()
    nu_callers = sorted({owner(prog, c) for c in cg.callers(nu.path)})
    ok_callers = all(re.match(r"^image::OcTree::(insert|prune)", c) for c in nu_callers)
    ctx.instance(R, {"callers_of_node_update": nu_callers, "all_checked": ok_callers})
    if ok_next and ok_arg and ok_len and ok_users and ok_callers:
        lemmas[(nu.path, "BOUNDS")] = ("OCTREE-INV", "index is a 3-bit OcTreePath element or an enumerate() position over the 8 children")
        for pth in ("image::OcTree::prune", "image::OcTree::prune::prune_rec"):
            lemmas[(pth, "BOUNDS")] = ("OCTREE-INV", "index is an enumerate() position over the 8 children returned by argmin_color_count")
    else:
        ctx.violation(R, "image::OcTree", "child-index", "an index into OcTree.children is not provably below 8 (not an OcTreePath element masked with 7 / an enumerate position over children)", sites=[nu.loc])
    if ok_arg and ok_info and ok_users:
        for pth in ("image::OcTree::prune", "image::OcTree::prune::prune_rec"):
            lemmas[(pth, "PANIC")] = ("OCTREE-INV", "argmin_color_count only returns a child whose info().min_color_count is Some, which OcTreeNode::info never reports for Empty; the child is taken before any write to the tree")
    else:
        ctx.violation(R, "image::OcTree::prune", "argmin-nonempty", "the child selected by argmin_color_count is not provably non-empty when it is taken", sites=[need["image::OcTree::prune"].loc])
    # (4) who-writes for the two trusted invariants
    aggs, stores, muts = adt_writers(prog, "image::OcTreeNode")
    tree_sites = sorted({owner(prog, b_.path) for b_, s in aggs if s["rv"].get("variant") == "Tree"})
    leaf_sites = sorted({owner(prog, b_.path) for b_, s in aggs if s["rv"].get("variant") == "Leaf"})
    CLONE = "<image::OcTreeNode as std::clone::Clone>::clone"      # derived: replicates an existing node
    ok_tree = set(tree_sites) <= {"image::OcTree::insert::insert_rec", "image::OcTree::prune::prune_rec", CLONE}
    nxt = ("call", NEXT, (("arg", 2),), None)
    for p in P["image::OcTree::insert::insert_rec"]:
        if p.ret is not None and p.ret[0] == "agg" and p.ret[2] == "Tree":
            ok_tree = ok_tree and variant_known([strip(f) for f in p.facts], nxt, "1")
    ctx.instance(R, {"OcTreeNode::Tree_built_in": tree_sites, "insert_rec_builds_Tree_only_while_the_path_has_an_element": ok_tree})
    if ok_tree:
        trusts[("image::OcTree::insert::insert_rec", "PANIC")] = ("OCTREE-DEPTH", "every colour path has 8 elements, and a Tree node is only created (insert_rec) or re-wrapped (prune_rec) at a depth where the path still "
                                                                                  "has an element: no Tree exists at depth 8, where the path is exhausted")
    else:
        ctx.violation(R, "image::OcTreeNode", "tree-writers", "OcTreeNode::Tree is built outside insert_rec's non-exhausted arm / prune_rec: %s" % tree_sites, sites=[])
    laggs, lstores, lmuts = adt_writers(prog, "image::OcTreeLeaf")
    lsites = sorted({owner(prog, b_.path) for b_, s in laggs})
    fr = P["image::OcTreeLeaf::from_rgba"]
    ok_leaf = set(leaf_sites) <= {"image::OcTree::insert::insert_rec", "image::OcTree::prune::prune_rec", CLONE} and set(lsites) <= {"image::OcTreeLeaf::new", "image::OcTreeLeaf::from_rgba"} \
        and all((const_int(dict(zip(p.ret[4], p.ret[3])).get("color_count")) or 0) >= 1 for p in fr if p.ret is not None and p.ret[0] == "agg") \
        and all(x[2] in ("index",) or x[0].path.startswith("<image::OcTreeLeaf as std::ops::AddAssign") for x in lstores)
    ctx.instance(R, {"OcTreeNode::Leaf_built_in": leaf_sites, "OcTreeLeaf_built_in": lsites, "count_written_by": sorted({x[0].path for x in lstores if x[2] == "color_count"}), "ok": ok_leaf})
    if ok_leaf:
        trusts[("image::OcTreeLeaf::to_rgba", "DIV0")] = ("OCTREE-LEAF", "every Leaf stored in an octree has color_count >= 1: leaves start at from_rgba (count 1), only grow by += , and a removed-accumulator "
                                                                         "becomes a Leaf only after a leaf was added to it (a Tree always keeps a non-empty child)")
    else:
        ctx.violation(R, "image::OcTreeLeaf", "leaf-writers", "OcTreeLeaf / OcTreeNode::Leaf values are built or their count written outside the audited sites: %s %s" % (leaf_sites, lsites), sites=[])
