"""C05 mutants: breaking edits of src/encoder.rs / src/terminal.rs that still compile (must be reported with the
expected key fragment) and benign edits (must stay silent).  edits: (file, old text occurring exactly once, new)."""
E = "src/encoder.rs"
MUTANTS = [
    # ---------------- TEMPLATE: hole expressions ----------------
    {"id": "C05-cup-row-not-one-based", "prop": "C05", "expect": "TEMPLATE/CursorTo/hole-expr",
     "edits": [(E, 'write!(\n                out,\n                "\\x1b[{};{}H",\n                pos.row.saturating_add(1),\n                pos.col.saturating_add(1)\n            )?', 'write!(out, "\\x1b[{};{}H", pos.row, pos.col.saturating_add(1))?')]},
    {"id": "C05-cup-row-col-swapped", "prop": "C05", "expect": "TEMPLATE/CursorTo/hole-expr",
     "edits": [(E, 'write!(\n                out,\n                "\\x1b[{};{}H",\n                pos.row.saturating_add(1),\n                pos.col.saturating_add(1)\n            )?', 'write!(out, "\\x1b[{};{}H", pos.col.saturating_add(1), pos.row.saturating_add(1))?')]},
    {"id": "C05-cup-positional-swapped", "prop": "C05", "expect": "TEMPLATE/CursorTo/hole-expr",
     "edits": [(E, 'write!(\n                out,\n                "\\x1b[{};{}H",\n                pos.row.saturating_add(1),\n                pos.col.saturating_add(1)\n            )?', 'write!(out, "\\x1b[{1};{0}H", pos.row.saturating_add(1), pos.col.saturating_add(1))?')]},
    {"id": "C05-cub-not-negated", "prop": "C05", "expect": "TEMPLATE/CursorMove/hole-expr",
     "edits": [(E, 'Ordering::Less => write!(out, "\\x1b[{}D", col.unsigned_abs())?', 'Ordering::Less => write!(out, "\\x1b[{}D", col)?')]},
    {"id": "C05-move-row-uses-col", "prop": "C05", "expect": "TEMPLATE/CursorMove/hole-expr",
     "edits": [(E, 'Ordering::Greater => write!(out, "\\x1b[{}B", row)?', 'Ordering::Greater => write!(out, "\\x1b[{}B", col)?')]},
    {"id": "C05-decstbm-zero-based", "prop": "C05", "expect": "TEMPLATE/ScrollRegion/hole-expr",
     "edits": [(E, 'end.saturating_add(1)\n', 'end\n')]},
    {"id": "C05-palette-index-plus-one", "prop": "C05", "expect": "TEMPLATE/Color/hole-expr",
     "edits": [(E, 'write!(out, "4;{};", index)?', 'write!(out, "4;{};", index + 1)?')]},
    # ---------------- TEMPLATE: final bytes / literals / branches ----------------
    {"id": "C05-cuu-emits-B", "prop": "C05", "expect": "TEMPLATE/CursorMove/literal",
     "edits": [(E, 'Ordering::Less => write!(out, "\\x1b[{}A", row.unsigned_abs())?', 'Ordering::Less => write!(out, "\\x1b[{}B", row.unsigned_abs())?')]},
    {"id": "C05-move-branches-swapped", "prop": "C05", "expect": "TEMPLATE/CursorMove",
     "edits": [(E, "match row.cmp(&0) {\n                    Ordering::Greater =>", "match row.cmp(&0) {\n                    Ordering::Less =>"),
               (E, 'Ordering::Less => write!(out, "\\x1b[{}A", row.unsigned_abs())?', 'Ordering::Greater => write!(out, "\\x1b[{}A", row.unsigned_abs())?')]},
    {"id": "C05-decset-l-for-h", "prop": "C05", "expect": "TEMPLATE/DecModeSet/literal",
     "edits": [(E, 'let flag = if enable { "h" } else { "l" };', 'let flag = if enable { "l" } else { "h" };')]},
    {"id": "C05-decset-no-private-marker", "prop": "C05", "expect": "TEMPLATE/DecModeSet/literal",
     "edits": [(E, 'write!(out, "\\x1b[?{}{}", mode as usize, flag)?', 'write!(out, "\\x1b[{}{}", mode as usize, flag)?')]},
    {"id": "C05-decrqm-no-private-marker", "prop": "C05", "expect": "TEMPLATE/DecModeGet/literal",
     "edits": [(E, 'write!(out, "\\x1b[?{}$p", mode as usize)?', 'write!(out, "\\x1b[{}$p", mode as usize)?')]},
    {"id": "C05-scroll-up-down-swapped", "prop": "C05", "expect": "TEMPLATE/Scroll/literal",
     "edits": [(E, 'Ordering::Greater => write!(out, "\\x1b[{}S", count)?', 'Ordering::Greater => write!(out, "\\x1b[{}T", count)?')]},
    {"id": "C05-erase-line-left-is-2", "prop": "C05", "expect": "TEMPLATE/EraseLineLeft/literal",
     "edits": [(E, 'EraseLineLeft => out.write_all(b"\\x1b[1K")?', 'EraseLineLeft => out.write_all(b"\\x1b[2K")?')]},
    {"id": "C05-osc-fg-bg-swapped", "prop": "C05", "expect": "TEMPLATE/Color/literal",
     "edits": [(E, 'TerminalColor::Background => write!(out, "11;")?', 'TerminalColor::Background => write!(out, "10;")?')]},
    {"id": "C05-altscreen-level-before-leave-not-zero", "prop": "C05", "expect": "TEMPLATE/DecModeSet/literal",
     "edits": [(E, "self.kitty_level(&mut out, 0)?;", "self.kitty_level(&mut out, 1)?;")]},
    {"id": "C05-altscreen-bracketing-on-enter-missing", "prop": "C05", "expect": "TEMPLATE/DecModeSet/literal",
     "edits": [(E, "if enable && mode == DecMode::AltScreen {", "if enable && mode == DecMode::MouseSGR {")]},
    {"id": "C05-kitty-level-ignores-caps", "prop": "C05", "expect": "TEMPLATE/KeyboardLevel",
     "edits": [(E, "        if self.caps.kitty_keyboard {\n            write!(out, \"\\x1b[={}u\", level)?;\n        }", "        write!(out, \"\\x1b[={}u\", level)?;")]},
    {"id": "C05-sgr-joined-by-colon", "prop": "C05", "expect": "TEMPLATE/Face/literal",
     "edits": [(E, "                out.write_all(b\"\\x1b[\")?;\n                self.chunks.drain(b\";\", &mut out)?;\n                out.write_all(b\"m\")?;\n            }\n            FaceModify", "                out.write_all(b\"\\x1b[\")?;\n                self.chunks.drain(b\":\", &mut out)?;\n                out.write_all(b\"m\")?;\n            }\n            FaceModify")]},
    {"id": "C05-drain-separator-before-first", "prop": "C05", "expect": "TEMPLATE/Face",
     "edits": [(E, "            if index != 0 {\n                out.write_all(sep)?;\n            }\n            out.write_all(chunk)?", "            if index == 0 {\n                out.write_all(sep)?;\n            }\n            out.write_all(chunk)?")]},
    {"id": "C05-image-arm-writes", "prop": "C05", "expect": "TEMPLATE/ImageErase/structure",
     "edits": [(E, "Image(_, _) | ImageErase(_, _) => {", "Image(_, _) => {}\n            ImageErase(_, _) => {\n                out.write_all(b\"\\x1b[2J\")?;")]},
    # ---------------- TEMPLATE: format specs ----------------
    {"id": "C05-cup-hex-parameter", "prop": "C05", "expect": "TEMPLATE/CursorTo/hole-spec",
     "edits": [(E, 'write!(\n                out,\n                "\\x1b[{};{}H",\n                pos.row.saturating_add(1),\n                pos.col.saturating_add(1)\n            )?', 'write!(out, "\\x1b[{:x};{}H", pos.row.saturating_add(1), pos.col.saturating_add(1))?')]},
    {"id": "C05-ech-padded-parameter", "prop": "C05", "expect": "TEMPLATE/EraseChars/hole-spec",
     "edits": [(E, 'EraseChars(count) => write!(out, "\\x1b[{}X", count)?', 'EraseChars(count) => write!(out, "\\x1b[{:>3}X", count)?')]},
    {"id": "C05-orig-termcap-one-digit", "prop": "C05", "expect": "TEMPLATE/Termcap/hole-spec",
     "edits": [(E, 'write!(out, "{:02x}", b)?;', 'write!(out, "{:x}", b)?;')]},
    {"id": "C05-termcap-width-without-zero-fill", "prop": "C05", "expect": "TEMPLATE/Termcap/hole-spec",
     "edits": [(E, 'write!(out, "{:02x}", b)?;', 'write!(out, "{:2x}", b)?;')]},
    {"id": "C05-benign-termcap-upper-hex", "prop": "C05", "benign": True,
     "edits": [(E, 'write!(out, "{:02x}", b)?;', 'write!(out, "{:02X}", b)?;')]},
    {"id": "C05-termcap-semicolon-dropped", "prop": "C05", "expect": "TEMPLATE/Termcap/structure",
     "edits": [(E, "                    if index != 0 {\n                        out.write_all(b\";\")?;\n                    }\n", "                    let _ = index;\n")]},
    # ---------------- TEMPLATE: field types / no reference ----------------
    {"id": "C05-new-variant-without-reference", "prop": "C05", "expect": "TEMPLATE/Bell/no-reference",
     "edits": [("src/terminal.rs", "    /// Write raw data to terminal\n    Raw(Vec<u8>),", "    /// Ring the bell\n    Bell,\n    /// Write raw data to terminal\n    Raw(Vec<u8>),"),
               (E, "            Raw(data) => out.write_all(&data)?,", "            Bell => out.write_all(b\"\\x07\")?,\n            Raw(data) => out.write_all(&data)?,")]},
    # ---------------- COMPLETE ----------------
    {"id": "C05-title-missing-st", "prop": "C05", "expect": "COMPLETE/Title/unterminated-OSC",
     "edits": [(E, '                    write!(out, "{}", c)?;\n                }\n                out.write_all(b"\\x1b\\\\")?;', '                    write!(out, "{}", c)?;\n                }')]},
    {"id": "C05-color-query-returns-inside-osc", "prop": "C05", "expect": "COMPLETE/Color/failure-exit-inside-sequence",
     "edits": [(E, 'None => write!(out, "?")?,', "None => return Ok(()),")]},
    {"id": "C05-facemodify-fallible-call-inside-csi", "prop": "C05", "expect": "COMPLETE/FaceModify/failure-exit-inside-sequence",
     "edits": [(E, "                if !self.chunks.is_empty() {\n                    out.write_all(b\"\\x1b[\")?;\n", "                if !self.chunks.is_empty() {\n                    out.write_all(b\"\\x1b[\")?;\n                    color_sgr_encode(&mut self.chunks, crate::RGBA::new(0, 0, 0, 255), self.caps.depth, SGRColorType::Foreground)?;\n")]},
    {"id": "C05-faceget-dcs-not-terminated", "prop": "C05", "expect": "COMPLETE/FaceGet/unterminated-DCS",
     "edits": [(E, 'out.write_all(b"\\x1bP$qm\\x1b\\\\")?;', 'out.write_all(b"\\x1bP$qm")?;')]},
    {"id": "C05-termcap-st-missing", "prop": "C05", "expect": "COMPLETE/Termcap/unterminated-DCS",
     "edits": [(E, "                    }\n                }\n                write!(out, \"\\x1b\\\\\")?;\n            }\n            Color", "                    }\n                }\n            }\n            Color")]},
    # ---------------- STRING-PAYLOAD ----------------
    {"id": "C05-termcap-name-not-hex-encoded", "prop": "C05", "expect": "STRING-PAYLOAD/Termcap/",
     "edits": [(E, "                    for b in cap.as_bytes() {\n                        write!(out, \"{:02x}\", b)?;\n                    }\n", "                    write!(out, \"{}\", cap)?;\n")]},
    {"id": "C05-termcap-chars-unfiltered", "prop": "C05", "expect": "STRING-PAYLOAD/Termcap/unescaped-string-in-DCS",
     "edits": [(E, "                    for b in cap.as_bytes() {\n                        write!(out, \"{:02x}\", b)?;\n                    }\n", "                    for b in cap.chars() {\n                        write!(out, \"{}\", b)?;\n                    }\n")]},
    {"id": "C05-orig-title-unescaped", "prop": "C05", "expect": "STRING-PAYLOAD/Title/unescaped-string-in-OSC",
     "edits": [(E, "for c in title.chars().filter(|c| !c.is_control()) {", "for c in title.chars() {")]},
    {"id": "C05-title-filter-only-bel", "prop": "C05", "expect": "STRING-PAYLOAD/Title/unescaped-string-in-OSC",
     "edits": [(E, "for c in title.chars().filter(|c| !c.is_control()) {", "for c in title.chars().filter(|c| *c != '\\x07') {")]},
    # ---------------- DECMODE ----------------
    {"id": "C05-altscreen-1047", "prop": "C05", "expect": "DECMODE/terminal::DecMode/AltScreen",
     "edits": [("src/terminal.rs", "AltScreen = 1049,", "AltScreen = 1047,")]},
    {"id": "C05-mouse-sgr-1005", "prop": "C05", "expect": "DECMODE/terminal::DecMode/MouseSGR",
     "edits": [("src/terminal.rs", "MouseSGR = 1006,", "MouseSGR = 1005,")]},
    # ---------------- benign ----------------
    {"id": "C05-benign-split-write", "prop": "C05", "benign": True,
     "edits": [(E, 'CursorTo(pos) => write!(\n                out,\n                "\\x1b[{};{}H",\n                pos.row.saturating_add(1),\n                pos.col.saturating_add(1)\n            )?,',
                'CursorTo(pos) => {\n                out.write_all(b"\\x1b[")?;\n                write!(out, "{}", pos.row.saturating_add(1))?;\n                out.write_all(b";")?;\n                write!(out, "{}H", pos.col.saturating_add(1))?;\n            }')]},
    {"id": "C05-benign-rename-bindings", "prop": "C05", "benign": True,
     "edits": [(E, "CursorMove { row, col } => {\n                match col.cmp(&0) {\n                    Ordering::Greater => write!(out, \"\\x1b[{}C\", col)?,\n                    Ordering::Less => write!(out, \"\\x1b[{}D\", col.unsigned_abs())?,",
                "CursorMove { row, col: dx } => {\n                match dx.cmp(&0) {\n                    Ordering::Greater => write!(out, \"\\x1b[{}C\", dx)?,\n                    Ordering::Less => write!(out, \"\\x1b[{dx}D\", dx = dx.unsigned_abs())?,"),
               (E, 'let flag = if enable { "h" } else { "l" };\n                write!(out, "\\x1b[?{}{}", mode as usize, flag)?;', 'let suffix = if !enable { "l" } else { "h" };\n                let number = mode as usize;\n                write!(out, "\\x1b[?{number}{suffix}")?;')]},
    {"id": "C05-benign-reorder-arms", "prop": "C05", "benign": True,
     "edits": [(E, "            CursorSave => out.write_all(b\"\\x1b7\")?,\n            CursorRestore => out.write_all(b\"\\x1b8\")?,", "            CursorRestore => out.write_all(b\"\\x1b8\")?,\n            CursorSave => out.write_all(b\"\\x1b7\")?,"),
               (E, "                Ordering::Less => write!(out, \"\\x1b[{}T\", count.unsigned_abs())?,\n                Ordering::Greater => write!(out, \"\\x1b[{}S\", count)?,", "                Ordering::Greater => write!(out, \"\\x1b[{}S\", count)?,\n                Ordering::Less => write!(out, \"\\x1b[{}T\", count.unsigned_abs())?,")]},
    {"id": "C05-benign-if-instead-of-cmp", "prop": "C05", "benign": True,
     "edits": [(E, "            Scroll(count) => match count.cmp(&0) {\n                Ordering::Less => write!(out, \"\\x1b[{}T\", count.unsigned_abs())?,\n                Ordering::Greater => write!(out, \"\\x1b[{}S\", count)?,\n                _ => (),\n            },",
                "            Scroll(count) => {\n                if count < 0 {\n                    write!(out, \"\\x1b[{}T\", count.unsigned_abs())?\n                } else if 0 < count {\n                    write!(out, \"\\x1b[{}S\", count)?\n                }\n            }")]},
    {"id": "C05-benign-el0-explicit", "prop": "C05", "benign": True,
     "edits": [(E, 'EraseLineRight => out.write_all(b"\\x1b[K")?', 'EraseLineRight => out.write_all(b"\\x1b[0K")?')]},
]


# ---------------- (b) encoding never panics ----------------
MUTANTS += [
    {"id": "C05-orig-neg-col-min", "prop": "C05", "expect": "TOTAL",
     "edits": [(E, 'Ordering::Less => write!(out, "\\x1b[{}D", col.unsigned_abs())?,', 'Ordering::Less => write!(out, "\\x1b[{}D", 0 - col)?,')]},
    {"id": "C05-orig-scroll-neg-min", "prop": "C05", "expect": "TOTAL",
     "edits": [(E, 'Ordering::Less => write!(out, "\\x1b[{}T", count.unsigned_abs())?,', 'Ordering::Less => write!(out, "\\x1b[{}T", -count)?,')]},
    {"id": "C05-orig-cursor-to-plus-one", "prop": "C05", "expect": "TOTAL",
     "edits": [(E, "pos.row.saturating_add(1),", "pos.row + 1,")]},
    {"id": "C05-chunks-mark-past-end", "prop": "C05", "expect": "CHUNKS-INV",
     "edits": [(E, "self.offsets.push(self.buffer.len());", "self.offsets.push(self.buffer.len() + 1);")]},
    {"id": "C05-chunks-partial-clear", "prop": "C05", "expect": "CHUNKS-INV",
     "edits": [(E, "        self.buffer.clear();\n        self.offsets.clear();", "        self.buffer.clear();")]},
    {"id": "C05-chunks-truncate-elsewhere", "prop": "C05", "expect": "CHUNKS-INV",
     "edits": [(E, "            chunks.push(b\"2\");\n", "            chunks.push(b\"2\");\n            chunks.buffer.truncate(1);\n")]},
    {"id": "C05-nearest-returns-len", "prop": "C05", "expect": "TOTAL",
     "edits": [(E, "            } else if index >= vs.len() {\n                vs.len() - 1", "            } else if index >= vs.len() {\n                vs.len()")]},
    {"id": "C05-cube-index-unbounded", "prop": "C05", "expect": "TOTAL",
     "edits": [(E, "            let c_red = nearest(r, CUBE);", "            let c_red = nearest(r, GREYS);")]},
    {"id": "C05-benign-abs-then-print", "prop": "C05", "benign": True,
     "edits": [(E, 'Ordering::Less => write!(out, "\\x1b[{}T", count.unsigned_abs())?,', 'Ordering::Less => {\n                    let lines = count.unsigned_abs();\n                    write!(out, "\\x1b[{}T", lines)?\n                }')]},
]

MUTANTS += [
    {"id": "C05-face-chunks-not-cleared", "prop": "C05", "expect": "SCRATCH-RESET",
     "edits": [(E, "            Face(face) => {\n                self.chunks.clear();\n", "            Face(face) => {\n")]},
    {"id": "C05-facemodify-chunks-not-cleared", "prop": "C05", "expect": "SCRATCH-RESET",
     "edits": [(E, "            FaceModify(face_modify) => {\n                self.chunks.clear();\n", "            FaceModify(face_modify) => {\n")]},
]

# ---------------- behaviour-preserving refactorings the rules must stay silent on (robustness) ----------------
_NEAREST = "fn nearest(v: f32, vs: &[f32]) -> usize {"
_TITLE_LOOP = "                for c in title.chars().filter(|c| !c.is_control()) {\n                    write!(out, \"{}\", c)?;\n                }\n"
MUTANTS += [
    # named constant for a literal
    {"id": "C05-benign-csi-named-const", "prop": "C05", "benign": True,
     "edits": [(E, _NEAREST, "const CSI: &[u8] = b\"\\x1b[\";\nconst ST: &str = \"\\x1b\\\\\";\n\n" + _NEAREST),
               (E, "                out.write_all(b\"\\x1b[\")?;\n                self.chunks.drain(b\";\", &mut out)?;\n                out.write_all(b\"m\")?;\n            }\n            FaceModify",
                "                out.write_all(CSI)?;\n                self.chunks.drain(b\";\", &mut out)?;\n                out.write_all(b\"m\")?;\n            }\n            FaceModify"),
               (E, "                    None => write!(out, \"?\")?,\n                }\n                write!(out, \"\\x1b\\\\\")?;", "                    None => write!(out, \"?\")?,\n                }\n                write!(out, \"{}\", ST)?;")]},
    # loop <-> iterator chain
    {"id": "C05-benign-termcap-try-for-each", "prop": "C05", "benign": True,
     "edits": [(E, "                    for b in cap.as_bytes() {\n                        write!(out, \"{:02x}\", b)?;\n                    }\n",
                "                    cap.as_bytes().iter().try_for_each(|b| write!(out, \"{:02x}\", b))?;\n")]},
    {"id": "C05-benign-title-try-for-each", "prop": "C05", "benign": True,
     "edits": [(E, _TITLE_LOOP, "                title.chars().filter(|c| !c.is_control()).try_for_each(|c| write!(out, \"{}\", c))?;\n")]},
    # helper extracted as a free function
    {"id": "C05-benign-free-helper", "prop": "C05", "benign": True,
     "edits": [(E, _NEAREST, "fn write_st<W: Write>(mut out: W) -> Result<(), Error> {\n    out.write_all(b\"\\x1b\\\\\")?;\n    Ok(())\n}\n\n" + _NEAREST),
               (E, _TITLE_LOOP + "                out.write_all(b\"\\x1b\\\\\")?;", _TITLE_LOOP + "                write_st(&mut out)?;")]},
    # exact fast path (title without control characters written whole), in its spellings
    {"id": "C05-benign-title-fast-path-any", "prop": "C05", "benign": True,
     "edits": [(E, _TITLE_LOOP, "                if !title.chars().any(|c| c.is_control()) {\n                    out.write_all(title.as_bytes())?;\n                } else {\n    " + _TITLE_LOOP.replace("\n    ", "\n        ").rstrip(" ") + "                }\n")]},
    {"id": "C05-benign-title-fast-path-all", "prop": "C05", "benign": True,
     "edits": [(E, _TITLE_LOOP, "                if title.chars().all(|c| !c.is_control()) {\n                    write!(out, \"{}\", title)?;\n                } else {\n    " + _TITLE_LOOP.replace("\n    ", "\n        ").rstrip(" ") + "                }\n")]},
    # ... but a fast path guarded by the wrong test is not
    {"id": "C05-title-fast-path-wrong-guard", "prop": "C05", "expect": "STRING-PAYLOAD/Title/unescaped-string-in-OSC",
     "edits": [(E, _TITLE_LOOP, "                if !title.chars().any(|c| c == '\\x07') {\n                    out.write_all(title.as_bytes())?;\n                } else {\n    " + _TITLE_LOOP.replace("\n    ", "\n        ").rstrip(" ") + "                }\n")]},
    {"id": "C05-title-fast-path-inverted", "prop": "C05", "expect": "STRING-PAYLOAD/Title/unescaped-string-in-OSC",
     "edits": [(E, _TITLE_LOOP, "                if title.chars().any(char::is_control) {\n                    out.write_all(title.as_bytes())?;\n                } else {\n    " + _TITLE_LOOP.replace("\n    ", "\n        ").rstrip(" ") + "                }\n")]},
    # if/else <-> match, debug_assert! of something that holds, hoisted local
    {"id": "C05-benign-match-on-bool", "prop": "C05", "benign": True,
     "edits": [(E, 'let flag = if enable { "h" } else { "l" };', 'let flag = match enable {\n                    true => "h",\n                    false => "l",\n                };')]},
    {"id": "C05-benign-debug-assert-in-arm", "prop": "C05", "benign": True,
     "edits": [(E, "            ScrollRegion { start, end } => {\n                if end > start {", "            ScrollRegion { start, end } => {\n                debug_assert!(start <= end || end == 0 || start > end);\n                let region = end > start;\n                if region {")]},
    # scratch buffer reset / flush through extracted helpers
    {"id": "C05-benign-sgr-begin-flush-helpers", "prop": "C05", "benign": True,
     "edits": [(E, "    fn kitty_level<W: Write>(&self, mut out: W, level: usize) -> Result<(), Error> {",
                "    fn sgr_begin(&mut self) {\n        self.chunks.clear();\n    }\n\n    fn sgr_flush<W: Write>(&mut self, mut out: W) -> Result<(), Error> {\n        out.write_all(b\"\\x1b[\")?;\n        self.chunks.drain(b\";\", &mut out)?;\n        out.write_all(b\"m\")?;\n        Ok(())\n    }\n\n    fn kitty_level<W: Write>(&self, mut out: W, level: usize) -> Result<(), Error> {"),
               (E, "            Face(face) => {\n                self.chunks.clear();\n", "            Face(face) => {\n                self.sgr_begin();\n"),
               (E, "                out.write_all(b\"\\x1b[\")?;\n                self.chunks.drain(b\";\", &mut out)?;\n                out.write_all(b\"m\")?;\n            }\n            FaceModify(face_modify) => {\n                self.chunks.clear();\n",
                "                self.sgr_flush(&mut out)?;\n            }\n            FaceModify(face_modify) => {\n                self.sgr_begin();\n")]},
    # helper between color_sgr_encode and nearest
    {"id": "C05-benign-cube-index-helper", "prop": "C05", "benign": True,
     "edits": [(E, _NEAREST, "fn cube_index(v: f32) -> usize {\n    nearest(v, CUBE)\n}\n\n" + _NEAREST),
               (E, "            let c_red = nearest(r, CUBE);\n            let c_green = nearest(g, CUBE);\n            let c_blue = nearest(b, CUBE);",
                "            let c_red = cube_index(r);\n            let c_green = cube_index(g);\n            let c_blue = cube_index(b);")]},
    # debug_assert! with a closure (precondition of the binary search) and a pre-sized scratch buffer
    {"id": "C05-benign-debug-assert-closure", "prop": "C05", "benign": True,
     "edits": [(E, _NEAREST, _NEAREST + "\n    debug_assert!(vs.windows(2).all(|pair| pair[0] < pair[1]));")]},
]

MUTANTS += [
    # Chunks::iter: the walk over the offsets, decided on canonical terms
    {"id": "C05-chunks-iter-start-past-end", "prop": "C05", "expect": "CHUNKS-INV",
     "edits": [(E, "            start = end;\n            index += 1;\n", "            start = end + 1;\n            index += 1;\n")]},
    {"id": "C05-benign-chunks-iter-reordered", "prop": "C05", "benign": True,
     "edits": [(E, "            let end = self.offsets[index];\n            let chunk = &self.buffer[start..end];\n            start = end;\n            index += 1;\n            Some(chunk)",
                "            let stop = self.offsets[index];\n            index += 1;\n            let piece = &self.buffer[start..stop];\n            start = stop;\n            Some(piece)")]},
]

_DRAIN_LOOP = "        for (index, chunk) in self.iter().enumerate() {\n            if index != 0 {\n                out.write_all(sep)?;\n            }\n            out.write_all(chunk)?\n        }\n"
MUTANTS += [
    # separator idiom with a `first` flag instead of enumerate()
    {"id": "C05-benign-drain-first-flag", "prop": "C05", "benign": True,
     "edits": [(E, _DRAIN_LOOP, "        let mut first = true;\n        for chunk in self.iter() {\n            if !first {\n                out.write_all(sep)?;\n            }\n            first = false;\n            out.write_all(chunk)?\n        }\n")]},
    {"id": "C05-benign-drain-first-flag-else", "prop": "C05", "benign": True,
     "edits": [(E, _DRAIN_LOOP, "        let mut first = true;\n        for chunk in self.iter() {\n            if first {\n                first = false;\n            } else {\n                out.write_all(sep)?;\n            }\n            out.write_all(chunk)?\n        }\n")]},
    {"id": "C05-drain-first-flag-never-cleared", "prop": "C05", "expect": "TEMPLATE/Face",
     "edits": [(E, _DRAIN_LOOP, "        let first = true;\n        for chunk in self.iter() {\n            if !first {\n                out.write_all(sep)?;\n            }\n            out.write_all(chunk)?\n        }\n")]},
    {"id": "C05-drain-first-flag-inverted", "prop": "C05", "expect": "TEMPLATE/Face",
     "edits": [(E, _DRAIN_LOOP, "        let mut first = true;\n        for chunk in self.iter() {\n            if first {\n                out.write_all(sep)?;\n            }\n            first = false;\n            out.write_all(chunk)?\n        }\n")]},
]

MUTANTS += [
    # `==` on an enum value <-> matches!; operands of && swapped; arm body extracted into a method; pattern destructuring
    {"id": "C05-benign-matches-for-eq", "prop": "C05", "benign": True,
     "edits": [(E, "                if !enable && mode == DecMode::AltScreen {", "                if matches!(mode, DecMode::AltScreen) && !enable {"),
               (E, "                if enable && mode == DecMode::AltScreen {", "                if DecMode::AltScreen == mode && enable {")]},
    {"id": "C05-benign-title-arm-method", "prop": "C05", "benign": True,
     "edits": [(E, "    fn kitty_level<W: Write>(&self, mut out: W, level: usize) -> Result<(), Error> {",
                "    fn encode_title<W: Write>(&self, mut out: W, text: &str) -> Result<(), Error> {\n        out.write_all(b\"\\x1b]0;\")?;\n        for ch in text.chars().filter(|ch| !ch.is_control()) {\n            write!(out, \"{}\", ch)?;\n        }\n        out.write_all(b\"\\x1b\\\\\")?;\n        Ok(())\n    }\n\n    fn kitty_level<W: Write>(&self, mut out: W, level: usize) -> Result<(), Error> {"),
               (E, "                out.write_all(b\"\\x1b]0;\")?;\n                // control characters (BEL, ESC, ...) would terminate or corrupt the OSC string\n" + _TITLE_LOOP + "                out.write_all(b\"\\x1b\\\\\")?;\n",
                "                self.encode_title(out, &title)?;\n")]},
    {"id": "C05-title-arm-method-unfiltered", "prop": "C05", "expect": "STRING-PAYLOAD/Title/unescaped-string-in-OSC",
     "edits": [(E, "    fn kitty_level<W: Write>(&self, mut out: W, level: usize) -> Result<(), Error> {",
                "    fn encode_title<W: Write>(&self, mut out: W, text: &str) -> Result<(), Error> {\n        out.write_all(b\"\\x1b]0;\")?;\n        out.write_all(text.as_bytes())?;\n        out.write_all(b\"\\x1b\\\\\")?;\n        Ok(())\n    }\n\n    fn kitty_level<W: Write>(&self, mut out: W, level: usize) -> Result<(), Error> {"),
               (E, "                out.write_all(b\"\\x1b]0;\")?;\n                // control characters (BEL, ESC, ...) would terminate or corrupt the OSC string\n" + _TITLE_LOOP + "                out.write_all(b\"\\x1b\\\\\")?;\n",
                "                self.encode_title(out, &title)?;\n")]},
    {"id": "C05-benign-cursor-to-destructured", "prop": "C05", "benign": True,
     "edits": [(E, "            CursorTo(pos) => write!(\n                out,\n                \"\\x1b[{};{}H\",\n                pos.row.saturating_add(1),\n                pos.col.saturating_add(1)\n            )?,",
                "            CursorTo(crate::terminal::Position { row, col }) => {\n                let line = row.saturating_add(1);\n                let column = col.saturating_add(1);\n                write!(out, \"\\x1b[{line};{column}H\")?\n            }")]},
]

MUTANTS += [
    # a &mut to a Chunks field held in a local before the one allowed call
    {"id": "C05-benign-chunks-push-hoisted-ref", "prop": "C05", "benign": True,
     "edits": [(E, "        self.buffer.extend(chunk);\n        self.mark();", "        let buffer = &mut self.buffer;\n        buffer.extend(chunk);\n        self.mark();")]},
    {"id": "C05-benign-chunks-clear-helper-order", "prop": "C05", "benign": True,
     "edits": [(E, "        self.buffer.clear();\n        self.offsets.clear();", "        self.offsets.clear();\n        self.buffer.clear();")]},
]

MUTANTS += [
    # SGR-PARAMS: an empty SGR parameter (= reset) under a reduced colour depth (seeded/C05-A)
    {"id": "C05-gray-underline-empty-parameter", "prop": "C05", "expect": "SGR-PARAMS/TTYEncoder::encode/FaceModify/Gray-empty-parameter",
     "edits": [(E, "            let index = match sgr_color_type {\n                SGRColorType::Foreground => index,\n                SGRColorType::Background => index + 10,\n                SGRColorType::Underline => return Ok(()),\n            };\n            write!(chunks, \"{}\", index)?;\n            chunks.mark();",
                "            match sgr_color_type {\n                SGRColorType::Foreground => write!(chunks, \"{}\", index)?,\n                SGRColorType::Background => write!(chunks, \"{}\", index + 10)?,\n                SGRColorType::Underline => {}\n            }\n            chunks.mark();")]},
    {"id": "C05-eightbit-selector-missing-mark", "prop": "C05", "expect": "SGR-PARAMS/TTYEncoder::encode/FaceModify/EightBit",
     "edits": [(E, "            chunks.push(b\"5\");\n            write!(chunks, \"{}\", index)?;\n            chunks.mark();", "            chunks.push(b\"5\");\n            chunks.mark();\n            write!(chunks, \"{}\", index)?;\n            chunks.mark();")]},
]

# ---- Char written without the fmt machinery: the UTF-8 encoding through encode_utf8 / to_string (what Display of a char writes);
# ---- and the same shapes writing something else (first byte only, a buffer too small for 3- and 4-byte characters)
_CHAR_ARM = 'Char(c) => write!(out, "{}", c)?,'
MUTANTS += [
    {"id": "C05-benign-char-encode-utf8", "prop": "C05", "benign": True,
     "edits": [(E, _CHAR_ARM, "Char(c) => out.write_all(c.encode_utf8(&mut [0u8; 4]).as_bytes())?,")]},
    {"id": "C05-benign-char-to-string-bytes", "prop": "C05", "benign": True,
     "edits": [(E, _CHAR_ARM, "Char(c) => out.write_all(c.to_string().as_bytes())?,")]},
    {"id": "C05-benign-char-encode-utf8-larger-buffer", "prop": "C05", "benign": True,
     "edits": [(E, _CHAR_ARM, "Char(c) => out.write_all(c.encode_utf8(&mut [0; 8]).as_bytes())?,")]},
    {"id": "C05-char-first-byte-only", "prop": "C05", "expect": "TEMPLATE/Char/",
     "edits": [(E, _CHAR_ARM, "Char(c) => out.write_all(&c.encode_utf8(&mut [0u8; 4]).as_bytes()[..1])?,")]},
    {"id": "C05-char-encode-utf8-short-buffer", "prop": "C05", "expect": "TEMPLATE/Char/",
     "edits": [(E, _CHAR_ARM, "Char(c) => out.write_all(c.encode_utf8(&mut [0u8; 2]).as_bytes())?,")]},
]
MUTANTS += [
    {"id": "C05-benign-char-string-from-bytes", "prop": "C05", "benign": True,
     "edits": [(E, _CHAR_ARM, "Char(c) => out.write_all(String::from(c).as_bytes())?,")]},
    {"id": "C05-benign-char-to-string-into-bytes", "prop": "C05", "benign": True,
     "edits": [(E, _CHAR_ARM, "Char(c) => out.write_all(&c.to_string().into_bytes())?,")]},
    {"id": "C05-benign-char-display-of-encoded-str", "prop": "C05", "benign": True,
     "edits": [(E, _CHAR_ARM, 'Char(c) => write!(out, "{}", c.encode_utf8(&mut [0u8; 4]))?,')]},
    {"id": "C05-benign-char-inline-format-arg", "prop": "C05", "benign": True,
     "edits": [(E, _CHAR_ARM, 'Char(c) => write!(out, "{c}")?,')]},
    {"id": "C05-char-debug-of-encoded-str", "prop": "C05", "expect": "TEMPLATE/Char/",
     "edits": [(E, _CHAR_ARM, 'Char(c) => write!(out, "{:?}", c.encode_utf8(&mut [0u8; 4]))?,')]},
]
# ---- the same through a named scratch buffer (`let mut utf8 = [0u8; 4]`): the binding stands for its initialiser only while it is
# ---- used as nothing but the output buffer of encode_utf8
MUTANTS += [
    {"id": "C05-benign-char-encode-utf8-named-scratch", "prop": "C05", "benign": True,
     "edits": [(E, _CHAR_ARM, "Char(c) => {\n                let mut utf8 = [0u8; 4];\n                out.write_all(c.encode_utf8(&mut utf8).as_bytes())?;\n            }")]},
    {"id": "C05-benign-char-encode-utf8-named-scratch-hoisted-str", "prop": "C05", "benign": True,
     "edits": [(E, _CHAR_ARM, "Char(c) => {\n                let mut scratch = [0u8; 4];\n                let encoded = c.encode_utf8(&mut scratch);\n                out.write_all(encoded.as_bytes())?;\n            }")]},
    {"id": "C05-char-named-scratch-too-short", "prop": "C05", "expect": "TEMPLATE/Char/",
     "edits": [(E, _CHAR_ARM, "Char(c) => {\n                let mut utf8 = [0u8; 3];\n                out.write_all(c.encode_utf8(&mut utf8).as_bytes())?;\n            }")]},
    {"id": "C05-char-named-scratch-whole-buffer-written", "prop": "C05", "expect": "TEMPLATE/Char/",
     "edits": [(E, _CHAR_ARM, "Char(c) => {\n                let mut utf8 = [0u8; 4];\n                c.encode_utf8(&mut utf8);\n                out.write_all(&utf8)?;\n            }")]},
]

MUTANTS += [
    # separator idiom with the first iteration peeled off the loop (`if let Some(first) = it.next() { ITEM; for x in it { SEP; ITEM } }`)
    {"id": "C05-benign-drain-peeled-first", "prop": "C05", "benign": True,
     "edits": [(E, _DRAIN_LOOP, "        {\n            let mut chunks = self.iter();\n            if let Some(first) = chunks.next() {\n                out.write_all(first)?;\n                for chunk in chunks {\n                    out.write_all(sep)?;\n                    out.write_all(chunk)?;\n                }\n            }\n        }\n")]},
    {"id": "C05-benign-drain-peeled-first-match", "prop": "C05", "benign": True,
     "edits": [(E, _DRAIN_LOOP, "        {\n            let mut rest = self.iter();\n            match rest.next() {\n                None => {}\n                Some(head) => {\n                    out.write_all(head)?;\n                    for piece in rest.by_ref() {\n                        out.write_all(sep)?;\n                        out.write_all(piece)?;\n                    }\n                }\n            }\n        }\n")]},
    {"id": "C05-drain-peeled-trailing-separator", "prop": "C05", "expect": "TEMPLATE/Face",
     "edits": [(E, _DRAIN_LOOP, "        {\n            let mut chunks = self.iter();\n            if let Some(first) = chunks.next() {\n                out.write_all(first)?;\n                for chunk in chunks {\n                    out.write_all(chunk)?;\n                    out.write_all(sep)?;\n                }\n            }\n        }\n")]},
    {"id": "C05-drain-peeled-first-dropped", "prop": "C05", "expect": "TEMPLATE/Face",
     "edits": [(E, _DRAIN_LOOP, "        {\n            let mut chunks = self.iter();\n            if let Some(_first) = chunks.next() {\n                for chunk in chunks {\n                    out.write_all(sep)?;\n                    out.write_all(chunk)?;\n                }\n            }\n        }\n")]},
    {"id": "C05-drain-peeled-first-twice", "prop": "C05", "expect": "TEMPLATE/Face",
     "edits": [(E, _DRAIN_LOOP, "        {\n            let mut chunks = self.iter();\n            if let Some(first) = chunks.next() {\n                out.write_all(first)?;\n                for chunk in self.iter() {\n                    out.write_all(sep)?;\n                    out.write_all(chunk)?;\n                }\n            }\n        }\n")]},
    # hoisted field read / memcpy-path push / debug_assert of an invariant
    {"id": "C05-benign-face-depth-hoisted-extend-from-slice", "prop": "C05", "benign": True,
     "edits": [(E, "        self.buffer.extend(chunk);\n", "        self.buffer.extend_from_slice(chunk);\n"),
               (E, "        self.offsets.push(self.buffer.len());\n", "        let end = self.buffer.len();\n        debug_assert!(self.offsets.last().is_none_or(|last| *last <= end));\n        self.offsets.push(end);\n")]},
]

# ---------------- round 6: the same meaning through other constructs ----------------
_TERMCAP_LOOP = ("                for (index, cap) in caps.iter().enumerate() {\n                    if index != 0 {\n                        out.write_all(b\";\")?;\n"
                 "                    }\n                    for b in cap.as_bytes() {\n                        write!(out, \"{:02x}\", b)?;\n                    }\n                }\n")


def _termcap_chain(cond="index != 0", spec="{:02x}"):
    return ("                caps.iter().enumerate().try_for_each(|(index, cap)| {\n                    (" + cond + ")\n"
            "                        .then(|| out.write_all(b\";\"))\n                        .transpose()?;\n"
            "                    cap.bytes().try_for_each(|b| write!(out, \"" + spec + "\", b))\n                })?;\n")


_GRAY_MATCH = ("            let index = match nearest(luma, &[0.0, 0.33, 0.66, 1.0]) {\n                0 => 30,\n                1 => 90,\n"
               "                2 => 37,\n                _ => 97,\n            };\n")
_NEAREST_FN = "fn nearest(v: f32, vs: &[f32]) -> usize {\n"


def _gray_consts(ty, offset):
    return ("const GRAY_LEVELS: [f32; 4] = [0.0, 0.33, 0.66, 1.0];\nconst GRAY_SGR_FG: [" + ty + "; 4] = [30, 90, 37, 97];\n"
            "const SGR_BG_OFFSET: " + ty + " = " + offset + ";\n\n" + _NEAREST_FN)


_GRAY_TABLE_MATCH = ("            let level = nearest(luma, &GRAY_LEVELS);\n            debug_assert!(level < GRAY_LEVELS.len());\n"
                     "            let index = match level {\n                0 => GRAY_SGR_FG[0],\n                1 => GRAY_SGR_FG[1],\n"
                     "                2 => GRAY_SGR_FG[2],\n                _ => GRAY_SGR_FG[3],\n            };\n")
MUTANTS += [
    # separator of the enumerated loop asked with a literal pattern instead of a comparison
    {"id": "C05-benign-drain-match-index-zero", "prop": "C05", "benign": True,
     "edits": [(E, _DRAIN_LOOP, "        for (index, chunk) in self.iter().enumerate() {\n            match index {\n                0 => {}\n                _ => out.write_all(sep)?,\n            }\n            out.write_all(chunk)?\n        }\n")]},
    {"id": "C05-benign-drain-if-let-zero", "prop": "C05", "benign": True,
     "edits": [(E, _DRAIN_LOOP, "        for (index, chunk) in self.iter().enumerate() {\n            if let 0 = index {\n            } else {\n                out.write_all(sep)?;\n            }\n            out.write_all(chunk)?\n        }\n")]},
    {"id": "C05-drain-match-index-separator-only-first", "prop": "C05", "expect": "TEMPLATE/Face",
     "edits": [(E, _DRAIN_LOOP, "        for (index, chunk) in self.iter().enumerate() {\n            match index {\n                0 => out.write_all(sep)?,\n                _ => {}\n            }\n            out.write_all(chunk)?\n        }\n")]},
    {"id": "C05-drain-match-index-one", "prop": "C05", "expect": "TEMPLATE/Face",
     "edits": [(E, _DRAIN_LOOP, "        for (index, chunk) in self.iter().enumerate() {\n            match index {\n                1 => {}\n                _ => out.write_all(sep)?,\n            }\n            out.write_all(chunk)?\n        }\n")]},
    # nested loops that write to the sink as try_for_each chains; the separator through bool::then(..).transpose()?
    {"id": "C05-benign-termcap-try-for-each-then-transpose", "prop": "C05", "benign": True, "edits": [(E, _TERMCAP_LOOP, _termcap_chain())]},
    {"id": "C05-termcap-try-for-each-separator-first-only", "prop": "C05", "expect": "TEMPLATE/Termcap",
     "edits": [(E, _TERMCAP_LOOP, _termcap_chain(cond="index == 0"))]},
    {"id": "C05-termcap-try-for-each-one-digit-hex", "prop": "C05", "expect": "TEMPLATE/Termcap",
     "edits": [(E, _TERMCAP_LOOP, _termcap_chain(spec="{:x}"))]},
    # Gray depth: codes from a named table picked arm by arm, offset as a named constant (usize arithmetic)
    {"id": "C05-benign-gray-named-table-match", "prop": "C05", "benign": True,
     "edits": [(E, _NEAREST_FN, _gray_consts("usize", "10")), (E, _GRAY_MATCH, _GRAY_TABLE_MATCH),
               (E, "SGRColorType::Background => index + 10,", "SGRColorType::Background => index + SGR_BG_OFFSET,")]},
    {"id": "C05-gray-named-table-u8-offset-overflows", "prop": "C05", "expect": "TOTAL/encoder::color_sgr_encode/OVF",
     "edits": [(E, _NEAREST_FN, _gray_consts("u8", "200")), (E, _GRAY_MATCH, _GRAY_TABLE_MATCH),
               (E, "SGRColorType::Background => index + 10,", "SGRColorType::Background => index + SGR_BG_OFFSET,")]},
]
