// srcdump: syn-2 based dumper of Rust source files into a small JSON expression tree.
// usage: srcdump <root-dir> <out.json>   (dumps every *.rs under <root-dir>/src)
use proc_macro2::{Span, TokenStream, TokenTree};
use quote::ToTokens;
use serde_json::{json, Value};
use syn::parse::Parser;
use syn::punctuated::Punctuated;
use syn::spanned::Spanned;
use syn::*;

fn line(sp: Span) -> usize {
    sp.start().line
}

fn toks<T: ToTokens>(t: &T) -> String {
    t.to_token_stream().to_string()
}

fn path_str(p: &Path) -> String {
    let mut s = String::new();
    if p.leading_colon.is_some() {
        s.push_str("::");
    }
    for (i, seg) in p.segments.iter().enumerate() {
        if i > 0 {
            s.push_str("::");
        }
        s.push_str(&seg.ident.to_string());
    }
    s
}

fn path_generics(p: &Path) -> Value {
    let mut v = Vec::new();
    for seg in &p.segments {
        if let PathArguments::AngleBracketed(a) = &seg.arguments {
            for g in &a.args {
                v.push(Value::String(toks(g)));
            }
        }
    }
    Value::Array(v)
}

fn ty_str(t: &Type) -> String {
    toks(t).replace(' ', "")
}

fn lit(l: &Lit) -> Value {
    match l {
        Lit::Int(i) => json!({"k":"lit","t":"int","v":i.base10_digits(),"suffix":i.suffix(),"line":line(i.span()),"src":i.to_string()}),
        Lit::Float(f) => json!({"k":"lit","t":"float","v":f.base10_digits(),"suffix":f.suffix(),"line":line(f.span())}),
        Lit::Str(s) => json!({"k":"lit","t":"str","v":s.value(),"line":line(s.span())}),
        Lit::ByteStr(s) => json!({"k":"lit","t":"bytestr","v":s.value(),"line":line(s.span())}),
        Lit::Byte(b) => json!({"k":"lit","t":"byte","v":b.value(),"line":line(b.span())}),
        Lit::Char(c) => json!({"k":"lit","t":"char","v":c.value() as u32,"line":line(c.span())}),
        Lit::Bool(b) => json!({"k":"lit","t":"bool","v":b.value,"line":line(b.span())}),
        other => json!({"k":"lit","t":"other","v":toks(other)}),
    }
}

fn binop_str(op: &BinOp) -> String {
    toks(op).replace(' ', "")
}

fn block(b: &Block) -> Value {
    json!({"k":"block","stmts": b.stmts.iter().map(stmt).collect::<Vec<_>>(),"line":line(b.span())})
}

fn stmt(s: &Stmt) -> Value {
    match s {
        Stmt::Local(l) => {
            let (p, ty) = match &l.pat {
                Pat::Type(pt) => (pat(&pt.pat), Value::String(ty_str(&pt.ty))),
                other => (pat(other), Value::Null),
            };
            let (init, els) = match &l.init {
                Some(i) => (expr(&i.expr), i.diverge.as_ref().map(|(_, e)| expr(e)).unwrap_or(Value::Null)),
                None => (Value::Null, Value::Null),
            };
            json!({"k":"let","pat":p,"ty":ty,"init":init,"else":els,"line":line(l.span())})
        }
        Stmt::Item(i) => json!({"k":"item","item":item(i)}),
        Stmt::Expr(e, semi) => json!({"k":"expr","e":expr(e),"semi":semi.is_some(),"line":line(e.span())}),
        Stmt::Macro(m) => json!({"k":"expr","e":mac(&m.mac),"semi":m.semi_token.is_some(),"line":line(m.span())}),
    }
}

fn split_top_commas(ts: TokenStream) -> Vec<TokenStream> {
    let mut out = Vec::new();
    let mut cur = Vec::new();
    for tt in ts {
        match &tt {
            TokenTree::Punct(p) if p.as_char() == ',' => {
                out.push(cur.drain(..).collect());
            }
            _ => cur.push(tt),
        }
    }
    if !cur.is_empty() {
        out.push(cur.into_iter().collect());
    }
    out
}

fn mac(m: &Macro) -> Value {
    let name = path_str(&m.path);
    let short = name.rsplit("::").next().unwrap_or("").to_string();
    let mut args = Value::Null;
    let mut extra = json!({});
    if short == "matches" {
        let parts = split_top_commas(m.tokens.clone());
        if parts.len() >= 2 {
            if let Ok(e) = parse2::<Expr>(parts[0].clone()) {
                // pattern may contain `if guard`
                let rest: TokenStream = parts[1..]
                    .iter()
                    .enumerate()
                    .flat_map(|(i, p)| {
                        let mut v: Vec<TokenTree> = Vec::new();
                        if i > 0 {
                            v.push(TokenTree::Punct(proc_macro2::Punct::new(',', proc_macro2::Spacing::Alone)));
                        }
                        v.extend(p.clone());
                        v
                    })
                    .collect();
                let parser = |input: parse::ParseStream| -> Result<(Pat, Option<Expr>)> {
                    let p = Pat::parse_multi_with_leading_vert(input)?;
                    let g = if input.peek(Token![if]) {
                        input.parse::<Token![if]>()?;
                        Some(input.parse::<Expr>()?)
                    } else {
                        None
                    };
                    let _ = input.parse::<Option<Token![,]>>();
                    Ok((p, g))
                };
                if let Ok((p, g)) = parser.parse2(rest) {
                    extra = json!({"scrutinee": expr(&e), "pat": pat(&p), "guard": g.as_ref().map(expr).unwrap_or(Value::Null)});
                }
            }
        }
    } else {
        let parser = Punctuated::<Expr, Token![,]>::parse_terminated;
        if let Ok(p) = parser.parse2(m.tokens.clone()) {
            args = Value::Array(p.iter().map(expr).collect());
        } else if short == "vec" || short == "smallvec" {
            // vec![x; n]
            let parser = |input: parse::ParseStream| -> Result<(Expr, Expr)> {
                let a = input.parse::<Expr>()?;
                input.parse::<Token![;]>()?;
                let b = input.parse::<Expr>()?;
                Ok((a, b))
            };
            if let Ok((a, b)) = parser.parse2(m.tokens.clone()) {
                extra = json!({"repeat": [expr(&a), expr(&b)]});
            }
        }
    }
    json!({"k":"macro","name":name,"short":short,"args":args,"extra":extra,"tokens":m.tokens.to_string(),"line":line(m.span())})
}

fn expr(e: &Expr) -> Value {
    let ln = line(e.span());
    match e {
        Expr::Lit(l) => lit(&l.lit),
        Expr::Path(p) => json!({"k":"path","p":path_str(&p.path),"generics":path_generics(&p.path),"qself":p.qself.as_ref().map(|q| ty_str(&q.ty)),"line":ln}),
        Expr::Call(c) => json!({"k":"call","f":expr(&c.func),"args":c.args.iter().map(expr).collect::<Vec<_>>(),"line":ln}),
        Expr::MethodCall(m) => json!({"k":"mcall","recv":expr(&m.receiver),"m":m.method.to_string(),
            "turbofish": m.turbofish.as_ref().map(|t| toks(t)),
            "args":m.args.iter().map(expr).collect::<Vec<_>>(),"line":line(m.method.span())}),
        Expr::Binary(b) => json!({"k":"bin","op":binop_str(&b.op),"l":expr(&b.left),"r":expr(&b.right),"line":ln}),
        Expr::Unary(u) => json!({"k":"un","op":toks(&u.op),"e":expr(&u.expr),"line":ln}),
        Expr::Assign(a) => json!({"k":"assign","l":expr(&a.left),"r":expr(&a.right),"line":ln}),
        Expr::Field(f) => json!({"k":"field","e":expr(&f.base),"name":toks(&f.member),"line":ln}),
        Expr::Index(i) => json!({"k":"index","e":expr(&i.expr),"i":expr(&i.index),"line":ln}),
        Expr::Reference(r) => json!({"k":"ref","mut":r.mutability.is_some(),"e":expr(&r.expr),"line":ln}),
        Expr::Cast(c) => json!({"k":"cast","e":expr(&c.expr),"ty":ty_str(&c.ty),"line":ln}),
        Expr::If(i) => json!({"k":"if","cond":expr(&i.cond),"then":block(&i.then_branch),
            "else": i.else_branch.as_ref().map(|(_, e)| expr(e)).unwrap_or(Value::Null),"line":ln}),
        Expr::Let(l) => json!({"k":"letcond","pat":pat(&l.pat),"e":expr(&l.expr),"line":ln}),
        Expr::Match(m) => json!({"k":"match","e":expr(&m.expr),"arms":m.arms.iter().map(|a| json!({
            "pat":pat(&a.pat),"guard":a.guard.as_ref().map(|(_, g)| expr(g)).unwrap_or(Value::Null),"body":expr(&a.body),"line":line(a.span())})).collect::<Vec<_>>(),"line":ln}),
        Expr::Block(b) => {
            let mut v = block(&b.block);
            if let Some(l) = &b.label {
                v["label"] = Value::String(l.name.ident.to_string());
            }
            v
        }
        Expr::Unsafe(u) => json!({"k":"unsafe","block":block(&u.block),"line":ln}),
        Expr::Closure(c) => json!({"k":"closure","params":c.inputs.iter().map(pat).collect::<Vec<_>>(),"body":expr(&c.body),"move":c.capture.is_some(),"line":ln}),
        Expr::Array(a) => json!({"k":"array","elems":a.elems.iter().map(expr).collect::<Vec<_>>(),"line":ln}),
        Expr::Tuple(t) => json!({"k":"tuple","elems":t.elems.iter().map(expr).collect::<Vec<_>>(),"line":ln}),
        Expr::Repeat(r) => json!({"k":"repeat","e":expr(&r.expr),"n":expr(&r.len),"line":ln}),
        Expr::Struct(s) => json!({"k":"struct","path":path_str(&s.path),
            "fields": s.fields.iter().map(|f| json!({"name":toks(&f.member),"e":expr(&f.expr),"line":line(f.span())})).collect::<Vec<_>>(),
            "rest": s.rest.as_ref().map(|r| expr(r)).unwrap_or(Value::Null),"line":ln}),
        Expr::Range(r) => json!({"k":"range","lo":r.start.as_ref().map(|e| expr(e)).unwrap_or(Value::Null),
            "hi":r.end.as_ref().map(|e| expr(e)).unwrap_or(Value::Null),
            "incl": matches!(r.limits, RangeLimits::Closed(_)),"line":ln}),
        Expr::ForLoop(f) => json!({"k":"for","pat":pat(&f.pat),"iter":expr(&f.expr),"body":block(&f.body),"label":f.label.as_ref().map(|l| l.name.ident.to_string()),"line":ln}),
        Expr::While(w) => json!({"k":"while","cond":expr(&w.cond),"body":block(&w.body),"label":w.label.as_ref().map(|l| l.name.ident.to_string()),"line":ln}),
        Expr::Loop(l) => json!({"k":"loop","body":block(&l.body),"label":l.label.as_ref().map(|l| l.name.ident.to_string()),"line":ln}),
        Expr::Return(r) => json!({"k":"return","e":r.expr.as_ref().map(|e| expr(e)).unwrap_or(Value::Null),"line":ln}),
        Expr::Break(b) => json!({"k":"break","e":b.expr.as_ref().map(|e| expr(e)).unwrap_or(Value::Null),"label":b.label.as_ref().map(|l| l.ident.to_string()),"line":ln}),
        Expr::Continue(c) => json!({"k":"continue","label":c.label.as_ref().map(|l| l.ident.to_string()),"line":ln}),
        Expr::Try(t) => json!({"k":"try","e":expr(&t.expr),"line":ln}),
        Expr::Paren(p) => expr(&p.expr),
        Expr::Group(g) => expr(&g.expr),
        Expr::Macro(m) => mac(&m.mac),
        other => json!({"k":"other","tokens":toks(other),"line":ln}),
    }
}

fn pat(p: &Pat) -> Value {
    let ln = line(p.span());
    match p {
        Pat::Ident(i) => json!({"k":"ident","name":i.ident.to_string(),"by_ref":i.by_ref.is_some(),"mut":i.mutability.is_some(),
            "sub": i.subpat.as_ref().map(|(_, s)| pat(s)).unwrap_or(Value::Null),"line":ln}),
        Pat::Lit(l) => json!({"k":"lit","e":lit(&l.lit),"line":ln}),
        Pat::Range(r) => json!({"k":"range","lo":r.start.as_ref().map(|e| expr(e)).unwrap_or(Value::Null),
            "hi":r.end.as_ref().map(|e| expr(e)).unwrap_or(Value::Null),"incl":matches!(r.limits, RangeLimits::Closed(_)),"line":ln}),
        Pat::Or(o) => json!({"k":"or","cases":o.cases.iter().map(pat).collect::<Vec<_>>(),"line":ln}),
        Pat::Tuple(t) => json!({"k":"tuple","elems":t.elems.iter().map(pat).collect::<Vec<_>>(),"line":ln}),
        Pat::TupleStruct(t) => json!({"k":"tstruct","path":path_str(&t.path),"elems":t.elems.iter().map(pat).collect::<Vec<_>>(),"line":ln}),
        Pat::Struct(s) => json!({"k":"struct","path":path_str(&s.path),
            "fields":s.fields.iter().map(|f| json!({"name":toks(&f.member),"pat":pat(&f.pat)})).collect::<Vec<_>>(),
            "rest":s.rest.is_some(),"line":ln}),
        Pat::Wild(_) => json!({"k":"wild","line":ln}),
        Pat::Path(pp) => json!({"k":"path","p":path_str(&pp.path),"line":ln}),
        Pat::Reference(r) => json!({"k":"ref","pat":pat(&r.pat),"mut":r.mutability.is_some(),"line":ln}),
        Pat::Slice(s) => json!({"k":"slice","elems":s.elems.iter().map(pat).collect::<Vec<_>>(),"line":ln}),
        Pat::Rest(_) => json!({"k":"rest","line":ln}),
        Pat::Type(t) => {
            let mut v = pat(&t.pat);
            v["ty"] = Value::String(ty_str(&t.ty));
            v
        }
        Pat::Paren(p) => pat(&p.pat),
        Pat::Const(c) => json!({"k":"const","block":block(&c.block),"line":ln}),
        Pat::Macro(m) => json!({"k":"macro","m":mac(&m.mac),"line":ln}),
        other => json!({"k":"other","tokens":toks(other),"line":ln}),
    }
}

fn attrs_info(attrs: &[Attribute]) -> (Vec<String>, bool) {
    let mut v = Vec::new();
    let mut cfg_test = false;
    for a in attrs {
        let s = toks(&a.meta).replace(' ', "");
        if s.starts_with("cfg(") && s.contains("test") {
            cfg_test = true;
        }
        if !s.starts_with("doc") {
            v.push(s);
        }
    }
    (v, cfg_test)
}

fn vis_str(v: &Visibility) -> String {
    match v {
        Visibility::Public(_) => "pub".into(),
        Visibility::Restricted(r) => format!("pub({})", path_str(&r.path)),
        Visibility::Inherited => "".into(),
    }
}

fn sig(s: &Signature) -> Value {
    let inputs: Vec<Value> = s
        .inputs
        .iter()
        .map(|a| match a {
            FnArg::Receiver(r) => json!({"name":"self","ty":toks(r).replace(' ', "")}),
            FnArg::Typed(t) => json!({"name":toks(&t.pat),"ty":ty_str(&t.ty),"pat":pat(&t.pat)}),
        })
        .collect();
    let out = match &s.output {
        ReturnType::Default => Value::Null,
        ReturnType::Type(_, t) => Value::String(ty_str(t)),
    };
    json!({"inputs":inputs,"output":out,"unsafe":s.unsafety.is_some(),"generics":toks(&s.generics)})
}

fn fields(f: &Fields) -> Value {
    Value::Array(
        f.iter()
            .enumerate()
            .map(|(i, f)| {
                json!({"name": f.ident.as_ref().map(|i| i.to_string()).unwrap_or(format!("{}", i)), "ty": ty_str(&f.ty), "vis": vis_str(&f.vis)})
            })
            .collect(),
    )
}

fn item(i: &Item) -> Value {
    match i {
        Item::Fn(f) => {
            let (a, t) = attrs_info(&f.attrs);
            json!({"k":"fn","name":f.sig.ident.to_string(),"vis":vis_str(&f.vis),"sig":sig(&f.sig),"body":block(&f.block),
                "attrs":a,"cfg_test":t,"line":line(f.sig.ident.span()),"end_line":f.block.span().end().line})
        }
        Item::Impl(im) => {
            let (a, t) = attrs_info(&im.attrs);
            let items: Vec<Value> = im
                .items
                .iter()
                .map(|it| match it {
                    ImplItem::Fn(f) => {
                        let (a, t) = attrs_info(&f.attrs);
                        json!({"k":"fn","name":f.sig.ident.to_string(),"vis":vis_str(&f.vis),"sig":sig(&f.sig),"body":block(&f.block),
                            "attrs":a,"cfg_test":t,"line":line(f.sig.ident.span()),"end_line":f.block.span().end().line})
                    }
                    ImplItem::Const(c) => json!({"k":"const","name":c.ident.to_string(),"ty":ty_str(&c.ty),"expr":expr(&c.expr),"line":line(c.ident.span()),"vis":vis_str(&c.vis)}),
                    ImplItem::Type(t) => json!({"k":"type","name":t.ident.to_string(),"ty":ty_str(&t.ty)}),
                    ImplItem::Macro(m) => json!({"k":"macroitem","m":mac(&m.mac)}),
                    other => json!({"k":"other","tokens":toks(other)}),
                })
                .collect();
            json!({"k":"impl","self_ty":ty_str(&im.self_ty),"trait":im.trait_.as_ref().map(|(_, p, _)| toks(p).replace(' ', "")),
                "generics":toks(&im.generics),"items":items,"attrs":a,"cfg_test":t,"line":line(im.impl_token.span())})
        }
        Item::Const(c) => {
            let (a, t) = attrs_info(&c.attrs);
            json!({"k":"const","name":c.ident.to_string(),"ty":ty_str(&c.ty),"expr":expr(&c.expr),"vis":vis_str(&c.vis),"attrs":a,"cfg_test":t,"line":line(c.ident.span())})
        }
        Item::Static(c) => {
            let (a, t) = attrs_info(&c.attrs);
            json!({"k":"static","name":c.ident.to_string(),"ty":ty_str(&c.ty),"expr":expr(&c.expr),"vis":vis_str(&c.vis),"attrs":a,"cfg_test":t,"line":line(c.ident.span())})
        }
        Item::Mod(m) => {
            let (a, t) = attrs_info(&m.attrs);
            let items = m.content.as_ref().map(|(_, its)| Value::Array(its.iter().map(item).collect())).unwrap_or(Value::Null);
            json!({"k":"mod","name":m.ident.to_string(),"items":items,"attrs":a,"cfg_test":t,"line":line(m.ident.span())})
        }
        Item::Enum(e) => {
            let (a, t) = attrs_info(&e.attrs);
            let vs: Vec<Value> = e
                .variants
                .iter()
                .map(|v| json!({"name":v.ident.to_string(),"discr":v.discriminant.as_ref().map(|(_, d)| expr(d)).unwrap_or(Value::Null),"fields":fields(&v.fields),"line":line(v.ident.span())}))
                .collect();
            json!({"k":"enum","name":e.ident.to_string(),"variants":vs,"attrs":a,"cfg_test":t,"vis":vis_str(&e.vis),"line":line(e.ident.span())})
        }
        Item::Struct(s) => {
            let (a, t) = attrs_info(&s.attrs);
            json!({"k":"struct","name":s.ident.to_string(),"fields":fields(&s.fields),"attrs":a,"cfg_test":t,"vis":vis_str(&s.vis),"line":line(s.ident.span())})
        }
        Item::Trait(tr) => {
            let items: Vec<Value> = tr
                .items
                .iter()
                .map(|it| match it {
                    TraitItem::Fn(f) => json!({"k":"fn","name":f.sig.ident.to_string(),"sig":sig(&f.sig),
                        "body": f.default.as_ref().map(block).unwrap_or(Value::Null),"line":line(f.sig.ident.span())}),
                    other => json!({"k":"other","tokens":toks(other).chars().take(200).collect::<String>()}),
                })
                .collect();
            json!({"k":"trait","name":tr.ident.to_string(),"items":items,"line":line(tr.ident.span())})
        }
        Item::Macro(m) => {
            let name = m.ident.as_ref().map(|i| i.to_string());
            json!({"k":"macroitem","def_name":name,"m":mac(&m.mac),"line":line(m.span())})
        }
        Item::Use(u) => json!({"k":"use","tokens":toks(&u.tree)}),
        Item::Type(t) => json!({"k":"type","name":t.ident.to_string(),"ty":ty_str(&t.ty)}),
        other => json!({"k":"other","tokens":toks(other).chars().take(200).collect::<String>()}),
    }
}

fn walk(dir: &std::path::Path, out: &mut Vec<std::path::PathBuf>) {
    let mut ents: Vec<_> = std::fs::read_dir(dir).expect("read_dir").filter_map(|e| e.ok()).collect();
    ents.sort_by_key(|e| e.path());
    for e in ents {
        let p = e.path();
        if p.is_dir() {
            walk(&p, out);
        } else if p.extension().map(|x| x == "rs").unwrap_or(false) {
            out.push(p);
        }
    }
}

fn main() {
    let args: Vec<String> = std::env::args().collect();
    if args.len() < 3 {
        eprintln!("usage: srcdump <root> <out.json>");
        std::process::exit(2);
    }
    let root = std::path::Path::new(&args[1]);
    let mut files = Vec::new();
    walk(&root.join("src"), &mut files);
    let mut out = Vec::new();
    for f in files {
        let text = std::fs::read_to_string(&f).expect("read");
        let rel = f.strip_prefix(root).unwrap().display().to_string();
        match syn::parse_file(&text) {
            Ok(file) => {
                let items: Vec<Value> = file.items.iter().map(item).collect();
                out.push(json!({"path":rel,"items":items,"lines":text.lines().count()}));
            }
            Err(e) => {
                out.push(json!({"path":rel,"error":format!("{}", e)}));
            }
        }
    }
    let v = json!({"files": out});
    let tmp = format!("{}.tmp.{}", args[2], std::process::id());
    std::fs::write(&tmp, serde_json::to_vec(&v).unwrap()).expect("write");
    std::fs::rename(&tmp, &args[2]).expect("rename");
}
