"""Mutants for C04 (sa/rules/c04.py).  Run with the two genuine findings of the pinned tree tolerated:
    VERIF_KNOWN_EXTRA=<file with the two `finding:` lines> python3 selftest/run.py C04
Every breaking mutant compiles under #![deny(warnings)] (no unused variables / imports are introduced)."""
D = "src/decoder.rs"
T = "src/terminal.rs"
K = "src/keys.rs"

_MOUSE_BLOCK = """        let event = nums.next()?;
        // coordinates are 1-based, zero is not a valid report
        let col = nums.next()?.checked_sub(1)?;
        let row = nums.next()?.checked_sub(1)?;

        let mut mode = KeyMod::from_bits(((event >> 2) & 7) as u32);
        if data[data.len() - 1] == b'M' {
            mode |= KeyMod::PRESS;
        }

        let button = event & 3;
        let name = if event & 64 != 0 {"""

MUTANTS = [
    # ---- T1 key table -------------------------------------------------------------------------------------------
    {"id": "C04-swap-csi-tilde-5-6", "prop": "C04", "expect": "T1-XTERM",
     "edits": [(D, '(KeyName::PageUp, "5"),\n        (KeyName::PageDown, "6"),', '(KeyName::PageUp, "6"),\n        (KeyName::PageDown, "5"),')]},
    {"id": "C04-f5-is-16", "prop": "C04", "expect": "T1-",
     "edits": [(D, '(KeyName::F(5), "15"),', '(KeyName::F(5), "16"),')]},
    {"id": "C04-f11-is-22", "prop": "C04", "expect": "T1-XTERM",
     "edits": [(D, '(KeyName::F(11), "23"),', '(KeyName::F(11), "22"),')]},
    {"id": "C04-left-right-swapped", "prop": "C04", "expect": "T1-XTERM",
     "edits": [(D, '(KeyName::Right, "[", "C"),\n        (KeyName::Left, "[", "D"),', '(KeyName::Left, "[", "C"),\n        (KeyName::Right, "[", "D"),')]},
    {"id": "C04-duplicate-bytes-other-key", "prop": "C04", "expect": "T1-FUNCTION",
     "edits": [(D, 'cmds.push(basic_key("\\x7f", KeyName::Backspace));', 'cmds.push(basic_key("\\x7f", KeyName::Backspace));\n    cmds.push(basic_key("\\x7f", KeyName::Delete));')]},
    {"id": "C04-duplicate-f3-with-f13", "prop": "C04", "expect": "T1-FUNCTION",
     "edits": [(D, '(KeyName::F(3), "[", "R"),', '(KeyName::F(13), "[", "R"),')]},
    {"id": "C04-from-bits-m-tilde", "prop": "C04", "expect": "T1-XTERM/decoder::basic_events_nfa/mods",
     "edits": [(D, '&format!("\\x1b[{};{}~", code, mode + 1),\n                (*name, KeyMod::from_bits(mode)),', '&format!("\\x1b[{};{}~", code, mode + 1),\n                (*name, KeyMod::from_bits(mode + 1)),')]},
    {"id": "C04-modifier-param-is-m-letter", "prop": "C04", "expect": "T1-XTERM/decoder::basic_events_nfa/mods",
     "edits": [(D, '&format!("\\x1b[1;{}{}", mode + 1, code),', '&format!("\\x1b[1;{}{}", mode, code),')]},
    {"id": "C04-alt-upper-without-shift", "prop": "C04", "expect": "T1-XTERM/decoder::basic_events_nfa/mods",
     "edits": [(D, "                KeyName::Char(c.to_ascii_lowercase()),\n                KeyMod::ALT | KeyMod::SHIFT,", "                KeyName::Char(c.to_ascii_lowercase()),\n                KeyMod::ALT | KeyMod::CTRL,")]},
    {"id": "C04-ctrl-letter-mask-3f", "prop": "C04", "expect": "T1-",
     "edits": [(D, "&(char::from(byte & 0x1f)).to_string(),", "&(char::from(byte & 0x3f)).to_string(),")]},
    {"id": "C04-keymod-alt-ctrl-bits-swapped", "prop": "C04", "expect": "T1-KEYMOD",
     "edits": [(K, "pub const ALT: Self = KeyMod { bits: 2 };\n    pub const CTRL: Self = KeyMod { bits: 4 };", "pub const ALT: Self = KeyMod { bits: 4 };\n    pub const CTRL: Self = KeyMod { bits: 2 };")]},
    {"id": "C04-key-from-pair-adds-shift", "prop": "C04", "expect": "T1-KEYMOD",
     "edits": [(K, "            name: pair.0,\n            mode: pair.1,", "            name: pair.0,\n            mode: pair.1 | KeyMod::SHIFT,")]},
    # ---- T2 from_usize -------------------------------------------------------------------------------------------
    {"id": "C04-decmode-list-drops-mousesgr", "prop": "C04", "expect": "T2-FROM-USIZE/terminal::DecMode::from_usize/missing-MouseSGR",
     "edits": [(T, "            MouseSGR,\n            AltScreen,", "            AltScreen,")]},
    {"id": "C04-status-list-drops-disabled", "prop": "C04", "expect": "T2-FROM-USIZE/terminal::DecModeStatus::from_usize/missing-Disabled",
     "edits": [(T, "            Enabled,\n            Disabled,\n            PermanentlyEnabled,", "            Enabled,\n            PermanentlyEnabled,")]},
    {"id": "C04-from-usize-compares-offset", "prop": "C04", "expect": "T2-FROM-USIZE/terminal::DecModeStatus::from_usize/comparison",
     "edits": [(T, "if code == *status as usize {", "if code == *status as usize + 1 {")]},
    {"id": "C04-from-usize-returns-first", "prop": "C04", "expect": "T2-FROM-USIZE/terminal::DecMode::from_usize/returned-element",
     "edits": [(T, "            if code == *mode as usize {\n                return Some(*mode);", "            if code == *mode as usize {\n                return Some(VisibleCursor);")]},
    {"id": "C04-mouse-sgr-number-1005", "prop": "C04", "expect": "T2-DEC-NUMBERS",
     "edits": [(T, "    MouseSGR = 1006,", "    MouseSGR = 1005,")]},
    # ---- T3 colours ----------------------------------------------------------------------------------------------
    {"id": "C04-named-fg-off-by-one", "prop": "C04", "expect": "T3-NAMED",
     "edits": [(D, "Some(COLORS[v - 30])", "Some(COLORS[v - 31])")]},
    {"id": "C04-bright-fg-uses-normal", "prop": "C04", "expect": "T3-NAMED",
     "edits": [(D, "Some(COLORS[v - 82])", "Some(COLORS[v - 90])")]},
    {"id": "C04-bg-arm-sets-fg", "prop": "C04", "expect": "T3-NAMED",
     "edits": [(D, "Some(v @ 100..=107) => face.bg = Some(COLORS[v - 92]),", "Some(v @ 100..=107) => face.fg = Some(COLORS[v - 92]),")]},
    {"id": "C04-colors-red-is-blue", "prop": "C04", "expect": "T3-TABLES/decoder::COLORS",
     "edits": [(D, "    RGBA::new(128, 0, 0, 255),", "    RGBA::new(0, 0, 128, 255),")]},
    {"id": "C04-cube-level-5e", "prop": "C04", "expect": "T3-TABLES/decoder::CUBE",
     "edits": [(D, "const CUBE: [u8; 6] = [0x00, 0x5f,", "const CUBE: [u8; 6] = [0x00, 0x5e,")]},
    {"id": "C04-cube-channels-reversed", "prop": "C04", "expect": "T3-PALETTE",
     "edits": [(D, "Some(RGBA::new(CUBE[ri], CUBE[gi], CUBE[bi], 255))", "Some(RGBA::new(CUBE[bi], CUBE[gi], CUBE[ri], 255))")]},
    {"id": "C04-grey-base-231", "prop": "C04", "expect": "T3-PALETTE",
     "edits": [(D, "            } else if index < 232 {", "            } else if index < 231 {")]},
    # ---- T4 kitty ------------------------------------------------------------------------------------------------
    {"id": "C04-kitty-tab-is-8", "prop": "C04", "expect": "T4-KITTY/",
     "edits": [(D, "        9 => KeyName::Tab,", "        8 => KeyName::Tab,")]},
    {"id": "C04-kitty-f13-base-12", "prop": "C04", "expect": "T4-KITTY/",
     "edits": [(D, "KeyName::F(code - 57376 + 13)", "KeyName::F(code - 57376 + 12)")]},
    {"id": "C04-kitty-pua-block-short", "prop": "C04", "expect": "T4-KITTY/decoder::keyboard_decode_key/private-use-as-text",
     "edits": [(D, "!(57344..=63743).contains(&code)", "!(57344..=57398).contains(&code)")]},
    {"id": "C04-kitty-mods-not-minus-one", "prop": "C04", "expect": "T4-KITTY-MODS",
     "edits": [(D, "Some(mode) if mode > 1 => KeyMod::from_bits((mode - 1) as u32),", "Some(mode) if mode > 1 => KeyMod::from_bits(mode as u32),")]},
    {"id": "C04-keymod-super-hyper-swapped", "prop": "C04", "expect": "T4-KITTY-MODS",
     "edits": [(K, "pub const SUPER: Self = KeyMod { bits: 8 };\n    pub const HYPER: Self = KeyMod { bits: 16 };", "pub const SUPER: Self = KeyMod { bits: 16 };\n    pub const HYPER: Self = KeyMod { bits: 8 };")]},
    # ---- T5 mouse / utf8 -----------------------------------------------------------------------------------------
    {"id": "C04-mouse-mods-shift-3", "prop": "C04", "expect": "T5-MOUSE",
     "edits": [(D, "KeyMod::from_bits(((event >> 2) & 7) as u32)", "KeyMod::from_bits(((event >> 3) & 7) as u32)")]},
    {"id": "C04-mouse-mods-mask-3", "prop": "C04", "expect": "T5-MOUSE",
     "edits": [(D, "KeyMod::from_bits(((event >> 2) & 7) as u32)", "KeyMod::from_bits(((event >> 2) & 3) as u32)")]},
    {"id": "C04-mouse-wheel-bit-32", "prop": "C04", "expect": "T5-MOUSE-TABLE",
     "edits": [(D, "let name = if event & 64 != 0 {", "let name = if event & 32 != 0 {")]},
    {"id": "C04-mouse-press-on-lower-m", "prop": "C04", "expect": "T5-MOUSE-TABLE/decoder::MouseEventMatcher::decode/press-flag",
     "edits": [(D, "if data[data.len() - 1] == b'M' {\n            mode |= KeyMod::PRESS;", "if data[data.len() - 1] == b'm' {\n            mode |= KeyMod::PRESS;")]},
    {"id": "C04-mouse-middle-right-swapped", "prop": "C04", "expect": "T5-MOUSE-TABLE",
     "edits": [(D, "        } else if button == 1 {\n            KeyName::MouseMiddle\n        } else if button == 2 {\n            KeyName::MouseRight", "        } else if button == 1 {\n            KeyName::MouseRight\n        } else if button == 2 {\n            KeyName::MouseMiddle")]},
    {"id": "C04-mouse-both-wheels-up", "prop": "C04", "expect": "T5-MOUSE-BITS/decoder::MouseEventMatcher::decode/wheel-names",
     "edits": [(D, "            if button == 0 {\n                KeyName::MouseWheelDown", "            if button == 0 {\n                KeyName::MouseWheelUp")]},
    {"id": "C04-mouse-row-col-swapped", "prop": "C04", "expect": "T7-FIELD-ORDER",
     "edits": [(D, "        let col = nums.next()?.checked_sub(1)?;\n        let row = nums.next()?.checked_sub(1)?;\n\n        let mut mode", "        let row = nums.next()?.checked_sub(1)?;\n        let col = nums.next()?.checked_sub(1)?;\n\n        let mut mode")]},
    {"id": "C04-mouse-col-not-minus-one", "prop": "C04", "expect": "T5-MOUSE-TABLE/decoder::MouseEventMatcher::decode/coordinates",
     "edits": [(D, "        let col = nums.next()?.checked_sub(1)?;\n        let row = nums.next()?.checked_sub(1)?;\n\n        let mut mode", "        let col = nums.next()?.checked_sub(0)?;\n        let row = nums.next()?.checked_sub(1)?;\n\n        let mut mode")]},
    {"id": "C04-utf8-two-byte-lead-mask-15", "prop": "C04", "expect": "T5-UTF8/decoder::utf8_decode/layout-2",
     "edits": [(D, "        2 => first & 31,", "        2 => first & 15,")]},
    {"id": "C04-utf8-four-byte-lead-mask-15", "prop": "C04", "expect": "T5-UTF8/decoder::utf8_decode/layout-4",
     "edits": [(D, "        4 => first & 7,", "        4 => first & 31,")]},
    {"id": "C04-utf8-shift-5", "prop": "C04", "expect": "T5-UTF8",
     "edits": [(D, "        code <<= 6;", "        code <<= 5;")]},
    {"id": "C04-utf8-cont-mask-ff", "prop": "C04", "expect": "T5-UTF8",
     "edits": [(D, "        code |= (*byte as u32) & 63;", "        code |= (*byte as u32) & 255;")]},
    # ---- T6 self-delimitation ------------------------------------------------------------------------------------
    {"id": "C04-cpr-final-optional", "prop": "C04", "expect": "T6-SELF-DELIMIT/CursorPositionMatcher",
     "edits": [(D, '            NFA::number(),\n            NFA::from("R"),', '            NFA::number(),\n            NFA::from("R").optional(),')]},
    {"id": "C04-decmode-final-y-optional", "prop": "C04", "expect": "T6-SELF-DELIMIT/DecModeMatcher",
     "edits": [(D, '            NFA::from("$y"),', '            NFA::from("$"),\n            NFA::from("y").optional(),')]},
    {"id": "C04-mouse-final-repeatable", "prop": "C04", "expect": "T6-SELF-DELIMIT/MouseEventMatcher",
     "edits": [(D, "            NFA::predicate(|b| b == b'm' || b == b'M'),", "            NFA::predicate(|b| b == b'm' || b == b'M').some(),")]},
    # ---- T7 field order / forms ----------------------------------------------------------------------------------
    {"id": "C04-cpr-row-col-swapped", "prop": "C04", "expect": "T7-FIELD-ORDER/<decoder::CursorPositionMatcherasdecoder::Matcher>::decode/field-Position",
     "edits": [(D, "            row: nums.next()?.checked_sub(1)?,\n            col: nums.next()?.checked_sub(1)?,", "            col: nums.next()?.checked_sub(1)?,\n            row: nums.next()?.checked_sub(1)?,")]},
    {"id": "C04-cpr-row-not-minus-one", "prop": "C04", "expect": "T7-FIELD-ORDER/<decoder::CursorPositionMatcherasdecoder::Matcher>::decode/base-Position.row",
     "edits": [(D, "            row: nums.next()?.checked_sub(1)?,\n            col: nums.next()?.checked_sub(1)?,", "            row: nums.next()?.checked_sub(0)?,\n            col: nums.next()?.checked_sub(1)?,")]},
    {"id": "C04-termsize-width-before-height", "prop": "C04", "expect": "T7-FIELD-ORDER/<decoder::TermSizeMatcherasdecoder::Matcher>::decode/field-Size",
     "edits": [(D, "        let cell_height = nums.next()?;\n        let cell_width = nums.next()?;", "        let cell_width = nums.next()?;\n        let cell_height = nums.next()?;")]},
    {"id": "C04-termsize-reports-read-in-other-order", "prop": "C04", "expect": "T7-FIELD-ORDER/<decoder::TermSizeMatcherasdecoder::Matcher>::decode/chunk",
     "edits": [(D, "        let cell_size = chunks.next()?;\n", "        let pixel_size = chunks.next()?;\n        let cell_size = chunks.next()?;\n"),
               (D, "        let cell_width = nums.next()?;\n        let pixel_size = chunks.next()?;\n", "        let cell_width = nums.next()?;\n")]},
    {"id": "C04-decmode-status-before-mode", "prop": "C04", "expect": "T7-FIELD-ORDER/<decoder::DecModeMatcherasdecoder::Matcher>::decode/field",
     "edits": [(D, "            mode: crate::terminal::DecMode::from_usize(nums.next()?)?,\n            status: DecModeStatus::from_usize(nums.next()?)?,", "            status: DecModeStatus::from_usize(nums.next()?)?,\n            mode: crate::terminal::DecMode::from_usize(nums.next()?)?,")]},
    {"id": "C04-cpr-payload-offset-3", "prop": "C04", "expect": "T7-FIELD-ORDER/<decoder::CursorPositionMatcherasdecoder::Matcher>::decode/payload-slice",
     "edits": [(D, "let mut nums = numbers_decode(&data[2..data.len() - 1], b';');\n        Some(TerminalEvent::CursorPosition(", "let mut nums = numbers_decode(&data[3..data.len() - 1], b';');\n        Some(TerminalEvent::CursorPosition(")]},
    {"id": "C04-termsize-reports-in-other-order", "prop": "C04", "expect": "T7-FORM/TermSizeMatcher",
     "edits": [(D, 'NFA::sequence([NFA::from("\\x1b[8"), size.clone(), NFA::from("\\x1b[4"), size]);', 'NFA::sequence([NFA::from("\\x1b[4"), size.clone(), NFA::from("\\x1b[8"), size]);')]},
    {"id": "C04-cpr-separator-colon", "prop": "C04", "expect": "T7-FORM/CursorPositionMatcher",
     "edits": [(D, '            NFA::from("\\x1b["),\n            NFA::number(),\n            NFA::from(";"),\n            NFA::number(),\n            NFA::from("R"),', '            NFA::from("\\x1b["),\n            NFA::number(),\n            NFA::from(":"),\n            NFA::number(),\n            NFA::from("R"),')]},

    # ---- benign edits --------------------------------------------------------------------------------------------
    {"id": "C04-benign-rename-mouse-locals", "prop": "C04", "benign": True,
     "edits": [(D, _MOUSE_BLOCK, _MOUSE_BLOCK.replace("event", "code").replace("let col", "let column").replace("let row", "let line").replace("button", "low")),
               (D, "        } else if button == 0 {\n            KeyName::MouseLeft\n        } else if button == 1 {\n            KeyName::MouseMiddle\n        } else if button == 2 {",
                "        } else if low == 0 {\n            KeyName::MouseLeft\n        } else if low == 1 {\n            KeyName::MouseMiddle\n        } else if low == 2 {"),
               (D, "            if button == 0 {\n                KeyName::MouseWheelDown\n            } else if button == 1 {", "            if low == 0 {\n                KeyName::MouseWheelDown\n            } else if low == 1 {"),
               (D, "            pos: Position { row, col },", "            pos: Position { row: line, col: column },")]},
    {"id": "C04-benign-rename-cpr-iterator", "prop": "C04", "benign": True,
     "edits": [(D, "        let mut nums = numbers_decode(&data[2..data.len() - 1], b';');\n        Some(TerminalEvent::CursorPosition(Position {\n            // coordinates are 1-based, zero is not a valid report\n            row: nums.next()?.checked_sub(1)?,\n            col: nums.next()?.checked_sub(1)?,",
                "        let mut params = numbers_decode(&data[2..data.len() - 1], b';');\n        Some(TerminalEvent::CursorPosition(Position {\n            // coordinates are 1-based, zero is not a valid report\n            row: params.next()?.checked_sub(1)?,\n            col: params.next()?.checked_sub(1)?,")]},
    {"id": "C04-benign-cpr-locals-then-struct", "prop": "C04", "benign": True,
     "edits": [(D, "        Some(TerminalEvent::CursorPosition(Position {\n            // coordinates are 1-based, zero is not a valid report\n            row: nums.next()?.checked_sub(1)?,\n            col: nums.next()?.checked_sub(1)?,\n        }))",
                "        let line = nums.next()?.checked_sub(1)?;\n        let column = nums.next()?.checked_sub(1)?;\n        Some(TerminalEvent::CursorPosition(Position {\n            col: column,\n            row: line,\n        }))")]},
    {"id": "C04-benign-reorder-table-rows", "prop": "C04", "benign": True,
     "edits": [(D, '        (KeyName::Up, "[", "A"),\n        (KeyName::Down, "[", "B"),', '        (KeyName::Down, "[", "B"),\n        (KeyName::Up, "[", "A"),'),
               (D, '        (KeyName::F(6), "17"),\n        (KeyName::F(7), "18"),', '        (KeyName::F(7), "18"),\n        (KeyName::F(6), "17"),')]},
    {"id": "C04-benign-new-key-fresh-bytes", "prop": "C04", "benign": True,
     "edits": [(D, 'cmds.push(basic_key("\\x7f", KeyName::Backspace));', 'cmds.push(basic_key("\\x7f", KeyName::Backspace));\n    cmds.push(basic_key("\\x1b[Z", (KeyName::Tab, KeyMod::SHIFT)));')]},
    {"id": "C04-benign-new-f13-row", "prop": "C04", "benign": True,
     "edits": [(D, '        (KeyName::F(12), "24"),', '        (KeyName::F(12), "24"),\n        (KeyName::F(13), "25"),')]},
    {"id": "C04-benign-reorder-decmode-list", "prop": "C04", "benign": True,
     "edits": [(T, "            VisibleCursor,\n            AutoWrap,\n            SixelScrolling,", "            SixelScrolling,\n            AutoWrap,\n            VisibleCursor,")]},
    {"id": "C04-benign-bright-index-spelled-out", "prop": "C04", "benign": True,
     "edits": [(D, "Some(COLORS[v - 82])", "Some(COLORS[v - 90 + 8])")]},
    {"id": "C04-benign-utf8-lead-mask-63-equivalent", "prop": "C04", "benign": True,
     # bit 5 of a two-byte lead (110xxxxx) is always 0 for the bytes the grammars admit: `& 63` keeps exactly the same bits
     "edits": [(D, "        2 => first & 31,", "        2 => first & 63,")]},
    {"id": "C04-benign-mouse-mods-mask-before-shift", "prop": "C04", "benign": True,
     "edits": [(D, "KeyMod::from_bits(((event >> 2) & 7) as u32)", "KeyMod::from_bits(((event & 28) >> 2) as u32)")]},
    {"id": "C04-benign-kitty-rename", "prop": "C04", "benign": True,
     "edits": [(D, "        code @ 57376..=57398 => KeyName::F(code - 57376 + 13),", "        fkey @ 57376..=57398 => KeyName::F(fkey - 57376 + 13),")]},
]


MUTANTS += [
    {"id": "C04-color-16bit-rescaled", "prop": "C04", "expect": "T8-COLOR-COMPONENT",
     "edits": [("src/decoder.rs", "            4 => value / 256,", "            4 => value / 257,")]},
    {"id": "C04-color-12bit-low-byte", "prop": "C04", "expect": "T8-COLOR-COMPONENT",
     "edits": [("src/decoder.rs", "            3 => value / 16,", "            3 => value % 256,")]},
    {"id": "C04-color-1digit-shift", "prop": "C04", "expect": "T8-COLOR-COMPONENT",
     "edits": [("src/decoder.rs", "            1 => value * 17,", "            1 => value * 16,")]},
    {"id": "C04-benign-color-shift", "prop": "C04", "benign": True,
     "edits": [("src/decoder.rs", "            4 => value / 256,", "            4 => value >> 8,")]},
]


# ---- refactoring shapes the value-based rules see through (helper extraction, loop <-> iterator chain, if-chain <-> match,
# ---- shifts <-> divisions, clamp <-> min, un-nested helper) and breaking changes hidden in those shapes -----------------------------
_MOUSE_NAME_CHAIN = """        let button = event & 3;
        let name = if event & 64 != 0 {
            if button == 0 {
                KeyName::MouseWheelDown
            } else if button == 1 {
                KeyName::MouseWheelUp
            } else {
                KeyName::MouseMove
            }
        } else if button == 0 {
            KeyName::MouseLeft
        } else if button == 1 {
            KeyName::MouseMiddle
        } else if button == 2 {
            KeyName::MouseRight
        } else {
            KeyName::MouseMove
        };
"""
_XTGETTCAP_DOC = "/// Request Termcap/Terminfo String (XTGETTCAP)\n"
_MOUSE_NAME_HELPER = """/// Name of the button (or wheel direction) denoted by SGR mouse event code
fn mouse_key_name(event: usize) -> KeyName {
    let is_wheel = event & 64 != 0;
    match (is_wheel, event & 3) {
        (true, 0) => KeyName::MouseWheelDown,
        (true, 1) => KeyName::MouseWheelUp,
        (false, 0) => KeyName::MouseLeft,
        (false, 1) => KeyName::MouseMiddle,
        (false, 2) => KeyName::MouseRight,
        _ => KeyName::MouseMove,
    }
}

"""
_UTF8_LOOP = """    for byte in slice[1..].iter() {
        code <<= 6;
        code |= (*byte as u32) & 63;
    }
"""
_UTF8_HEAD = "    let mut code: u32 = match slice.len() {"
_COMPONENT_FN = """    fn parse_component(string: &str) -> Option<u8> {
        let value = usize::from_str_radix(string, 16).ok()?;
        let value = match string.len() {
            4 => value / 256,
            3 => value / 16,
            2 => value,
            1 => value * 17,
            _ => return None,
        };
        Some(value.clamp(0, 255) as u8)
    }
"""
_COMPONENT_FN_TOP = """fn parse_component(string: &str) -> Option<u8> {
    let value = usize::from_str_radix(string, 16).ok()?;
    let shift = match string.len() {
        4 => 8,
        3 => 4,
        2 => 0,
        1 => return Some((value << 4 | value) as u8),
        _ => return None,
    };
    u8::try_from((value >> shift).min(u8::MAX as usize)).ok()
}

"""
_SGR_INDEXED = """            let mut index = number_decode(cmds.next()?)?;
            if index < 16 {
                Some(COLORS[index])
            } else if index < 232 {
                index -= 16;
                let ri = index / 36;
                index -= ri * 36;
                let gi = index / 6;
                index -= gi * 6;
                let bi = index;
                Some(RGBA::new(CUBE[ri], CUBE[gi], CUBE[bi], 255))
            } else if index < 256 {
                let v = GREYS[index - 232];
                Some(RGBA::new(v, v, v, 255))
            } else {
                None
            }
"""
_SGR_INDEXED_MATCH = """            match number_decode(cmds.next()?)? {
                index @ 0..=15 => Some(COLORS[index]),
                index @ 16..=231 => {
                    let cube_index = index - CUBE_OFFSET;
                    let ri = cube_index / 36;
                    let gi = cube_index % 36 / 6;
                    let bi = cube_index % 6;
                    Some(RGBA::new(CUBE[ri], CUBE[gi], CUBE[bi], 255))
                }
                index @ 232..=255 => {
                    let v = GREYS[index - GREYS_OFFSET];
                    Some(RGBA::new(v, v, v, 255))
                }
                _ => None,
            }
"""
_SGR_INDEXED_DESC = """            let index = number_decode(cmds.next()?)?;
            if index >= 256 {
                None
            } else if index >= 232 {
                let v = GREYS[index - 232];
                Some(RGBA::new(v, v, v, 255))
            } else if index >= 16 {
                let cube = index - 16;
                let (ri, gi, bi) = (cube / 36, cube / 6 % 6, cube % 6);
                Some(RGBA::new(CUBE[ri], CUBE[gi], CUBE[bi], 255))
            } else {
                Some(COLORS[index])
            }
"""
_OFFSET_CONSTS = "const CUBE_OFFSET: usize = 16;\nconst GREYS_OFFSET: usize = 232;\n"
_KITTY_MODS = """                let mode = match modes.next() {
                    Some(mode) if mode > 1 => KeyMod::from_bits((mode - 1) as u32),
                    _ => KeyMod::EMPTY,
                };
"""
_KITTY_MODS_CHAIN = """                let mode = modes
                    .next()
                    .filter(|value| *value > 1)
                    .map_or(KeyMod::EMPTY, |value| KeyMod::from_bits((value - 1) as u32));
"""

MUTANTS += [
    {"id": "C04-benign-mouse-name-helper", "prop": "C04", "benign": True,
     "edits": [(D, _MOUSE_NAME_CHAIN, "        let name = mouse_key_name(event);\n"), (D, _XTGETTCAP_DOC, _MOUSE_NAME_HELPER + _XTGETTCAP_DOC)]},
    {"id": "C04-benign-mouse-mods-helper-alias", "prop": "C04", "benign": True,
     "edits": [(D, "        let mut mode = KeyMod::from_bits(((event >> 2) & 7) as u32);\n", "        let code = event;\n        let mut mode = mouse_mods(code);\n"),
               (D, _XTGETTCAP_DOC, "fn mouse_mods(event: usize) -> KeyMod {\n    KeyMod::from_bits(((event / 4) % 8) as u32)\n}\n\n" + _XTGETTCAP_DOC)]},
    {"id": "C04-benign-utf8-fold", "prop": "C04", "benign": True,
     "edits": [(D, _UTF8_HEAD, "    let head: u32 = match slice.len() {"),
               (D, _UTF8_LOOP, "    let code = slice[1..]\n        .iter()\n        .fold(head, |code, byte| (code << 6) | ((*byte as u32) & 63));\n")]},
    {"id": "C04-benign-utf8-ref-pattern-loop", "prop": "C04", "benign": True,
     "edits": [(D, _UTF8_LOOP, "    for &byte in &slice[1..] {\n        code = (code << 6) | (byte as u32 & 0x3f);\n    }\n")]},
    {"id": "C04-benign-color-shifts-min", "prop": "C04", "benign": True,
     "edits": [(D, "            4 => value / 256,\n            3 => value / 16,", "            4 => value >> 8,\n            3 => value >> 4,"),
               (D, "        Some(value.clamp(0, 255) as u8)", "        Some(value.min(u8::MAX as usize) as u8)")]},
    {"id": "C04-benign-color-component-unnested", "prop": "C04", "benign": True,
     "edits": [(D, _COMPONENT_FN, ""), (D, "fn parse_color(color_str: &str) -> Option<RGBA> {", _COMPONENT_FN_TOP + "fn parse_color(color_str: &str) -> Option<RGBA> {")]},
    {"id": "C04-benign-sgr-color-match-ranges", "prop": "C04", "benign": True,
     "edits": [(D, _SGR_INDEXED, _SGR_INDEXED_MATCH), (D, "const COLORS: [RGBA; 16] = [", _OFFSET_CONSTS + "const COLORS: [RGBA; 16] = [")]},
    {"id": "C04-benign-sgr-color-descending-chain", "prop": "C04", "benign": True, "edits": [(D, _SGR_INDEXED, _SGR_INDEXED_DESC)]},
    {"id": "C04-benign-kitty-mods-option-chain", "prop": "C04", "benign": True, "edits": [(D, _KITTY_MODS, _KITTY_MODS_CHAIN)]},
    {"id": "C04-benign-named-colour-helper", "prop": "C04", "benign": True,
     "edits": [(D, "            Some(v @ 30..=37) => face.fg = Some(COLORS[v - 30]),\n            Some(v @ 90..=97) => face.fg = Some(COLORS[v - 82]),\n",
                "            Some(v @ (30..=37 | 90..=97)) => face.fg = Some(named_color(v - 30)),\n"),
               (D, "fn sgr_face(data: &[u8]) -> FaceModify {", "fn named_color(offset: usize) -> RGBA {\n    COLORS[if offset >= 60 { offset - 52 } else { offset }]\n}\n\nfn sgr_face(data: &[u8]) -> FaceModify {")]},
    # ---- breaking, in refactored shapes
    {"id": "C04-mouse-helper-middle-right-swapped", "prop": "C04", "expect": "T5-MOUSE-TABLE",
     "edits": [(D, _MOUSE_NAME_CHAIN, "        let name = mouse_key_name(event);\n"),
               (D, _XTGETTCAP_DOC, _MOUSE_NAME_HELPER.replace("(false, 1) => KeyName::MouseMiddle", "(false, 1) => KeyName::MouseRight").replace("(false, 2) => KeyName::MouseRight", "(false, 2) => KeyName::MouseMiddle") + _XTGETTCAP_DOC)]},
    {"id": "C04-mouse-helper-looks-at-bit-7", "prop": "C04", "expect": "T5-MOUSE",
     "edits": [(D, _MOUSE_NAME_CHAIN, "        let name = mouse_key_name(event);\n"),
               (D, _XTGETTCAP_DOC, _MOUSE_NAME_HELPER.replace("let is_wheel = event & 64 != 0;", "let is_wheel = event & 192 == 64;") + _XTGETTCAP_DOC)]},
    {"id": "C04-mouse-mods-helper-shift-3", "prop": "C04", "expect": "T5-MOUSE",
     "edits": [(D, "        let mut mode = KeyMod::from_bits(((event >> 2) & 7) as u32);\n", "        let mut mode = mouse_mods(event);\n"),
               (D, _XTGETTCAP_DOC, "fn mouse_mods(event: usize) -> KeyMod {\n    KeyMod::from_bits(((event / 8) % 8) as u32)\n}\n\n" + _XTGETTCAP_DOC)]},
    {"id": "C04-utf8-fold-shift-5", "prop": "C04", "expect": "T5-UTF8",
     "edits": [(D, _UTF8_HEAD, "    let head: u32 = match slice.len() {"),
               (D, _UTF8_LOOP, "    let code = slice[1..]\n        .iter()\n        .fold(head, |code, byte| (code << 5) | ((*byte as u32) & 63));\n")]},
    {"id": "C04-utf8-fold-skips-first-continuation", "prop": "C04", "expect": "T5-UTF8",
     "edits": [(D, _UTF8_HEAD, "    let head: u32 = match slice.len() {"),
               (D, _UTF8_LOOP, "    let code = slice\n        .iter()\n        .skip(2)\n        .fold(head, |code, byte| (code << 6) | ((*byte as u32) & 63));\n")]},
    {"id": "C04-color-min-254", "prop": "C04", "expect": "T8-COLOR-COMPONENT",
     "edits": [(D, "        Some(value.clamp(0, 255) as u8)", "        Some(value.min(254) as u8)")]},
    {"id": "C04-color-unnested-12bit-shift-3", "prop": "C04", "expect": "T8-COLOR-COMPONENT/decoder::parse_color/digits-3",
     "edits": [(D, _COMPONENT_FN, ""), (D, "fn parse_color(color_str: &str) -> Option<RGBA> {", _COMPONENT_FN_TOP.replace("3 => 4,", "3 => 3,") + "fn parse_color(color_str: &str) -> Option<RGBA> {")]},
    {"id": "C04-color-green-blue-swapped", "prop": "C04", "expect": "T8-COLOR-COMPONENT/decoder::parse_color/channel-order",
     "edits": [(D, "    Some(RGBA::new(\n        parse_component(iter.next()?)?,\n        parse_component(iter.next()?)?,\n        parse_component(iter.next()?)?,\n        255,\n    ))",
                "    let red = parse_component(iter.next()?)?;\n    let blue = parse_component(iter.next()?)?;\n    let green = parse_component(iter.next()?)?;\n    Some(RGBA::new(red, green, blue, 255))")]},
    {"id": "C04-sgr-color-ranges-off-by-one", "prop": "C04", "expect": "T3-PALETTE",
     "edits": [(D, _SGR_INDEXED, _SGR_INDEXED_MATCH.replace("index @ 16..=231", "index @ 16..=230").replace("index @ 232..=255", "index @ 231..=255")),
               (D, "const COLORS: [RGBA; 16] = [", _OFFSET_CONSTS + "const COLORS: [RGBA; 16] = [")]},
    {"id": "C04-sgr-color-green-modulo-wrong", "prop": "C04", "expect": "T3-PALETTE",
     "edits": [(D, _SGR_INDEXED, _SGR_INDEXED_DESC.replace("cube / 6 % 6", "cube % 36 / 36"))]},
    {"id": "C04-kitty-mods-chain-no-minus-one", "prop": "C04", "expect": "T4-KITTY-MODS",
     "edits": [(D, _KITTY_MODS, _KITTY_MODS_CHAIN.replace("(value - 1) as u32", "value as u32"))]},
    {"id": "C04-named-colour-helper-bright-offset", "prop": "C04", "expect": "T3-NAMED",
     "edits": [(D, "            Some(v @ 30..=37) => face.fg = Some(COLORS[v - 30]),\n            Some(v @ 90..=97) => face.fg = Some(COLORS[v - 82]),\n",
                "            Some(v @ (30..=37 | 90..=97)) => face.fg = Some(named_color(v - 30)),\n"),
               (D, "fn sgr_face(data: &[u8]) -> FaceModify {", "fn named_color(offset: usize) -> RGBA {\n    COLORS[if offset >= 60 { offset - 53 } else { offset }]\n}\n\nfn sgr_face(data: &[u8]) -> FaceModify {")]},
]

_STATUS_LOOP = """        for status in [
            NotRecognized,
            Enabled,
            Disabled,
            PermanentlyEnabled,
            PermanentlyDisabled,
        ]
        .iter()
        {
            if code == *status as usize {
                return Some(*status);
            }
        }
        None
"""
_STATUS_MATCH = """        match code {
            0 => Some(NotRecognized),
            1 => Some(Enabled),
            2 => Some(Disabled),
            3 => Some(PermanentlyEnabled),
            4 => Some(PermanentlyDisabled),
            _ => None,
        }
"""
_DECMODE_TAIL = """        .iter()
        {
            if code == *mode as usize {
                return Some(*mode);
            }
        }
        None
"""
MUTANTS += [
    {"id": "C04-benign-status-from-usize-match", "prop": "C04", "benign": True, "edits": [(T, _STATUS_LOOP, _STATUS_MATCH)]},
    {"id": "C04-benign-decmode-from-usize-find", "prop": "C04", "benign": True,
     "edits": [(T, "        for mode in [\n            VisibleCursor,", "        [\n            VisibleCursor,"),
               (T, _DECMODE_TAIL, "        .iter()\n        .copied()\n        .find(|mode| *mode as usize == code)\n")]},
    {"id": "C04-status-match-two-swapped", "prop": "C04", "expect": "T2-FROM-USIZE/terminal::DecModeStatus::from_usize/returned-element",
     "edits": [(T, _STATUS_LOOP, _STATUS_MATCH.replace("1 => Some(Enabled)", "1 => Some(Disabled)").replace("2 => Some(Disabled)", "2 => Some(Enabled)"))]},
    {"id": "C04-decmode-find-off-by-one", "prop": "C04", "expect": "T2-FROM-USIZE/terminal::DecMode::from_usize/",
     "edits": [(T, "        for mode in [\n            VisibleCursor,", "        [\n            VisibleCursor,"),
               (T, _DECMODE_TAIL, "        .iter()\n        .copied()\n        .find(|mode| *mode as usize >= code)\n")]},
]

_CPR_FIELDS = "            row: nums.next()?.checked_sub(1)?,\n            col: nums.next()?.checked_sub(1)?,"
MUTANTS += [
    {"id": "C04-benign-cpr-one-based-helper", "prop": "C04", "benign": True,
     "edits": [(D, _CPR_FIELDS, "            row: cpr_coordinate(nums.next()?)?,\n            col: cpr_coordinate(nums.next()?)?,"),
               (D, _XTGETTCAP_DOC, "/// coordinates of a cursor position report are 1-based\nfn cpr_coordinate(value: usize) -> Option<usize> {\n    value.checked_sub(1)\n}\n\n" + _XTGETTCAP_DOC)]},
    {"id": "C04-cpr-helper-zero-based", "prop": "C04", "expect": "T7-FIELD-ORDER/<decoder::CursorPositionMatcherasdecoder::Matcher>::decode/base-Position",
     "edits": [(D, _CPR_FIELDS, "            row: cpr_coordinate(nums.next()?)?,\n            col: cpr_coordinate(nums.next()?)?,"),
               (D, _XTGETTCAP_DOC, "/// coordinates of a cursor position report are 1-based\nfn cpr_coordinate(value: usize) -> Option<usize> {\n    value.checked_sub(0)\n}\n\n" + _XTGETTCAP_DOC)]},
]

MUTANTS += [
    {"id": "C04-benign-mouse-numbers-tuple-let", "prop": "C04", "benign": True,
     "edits": [(D, "        let event = nums.next()?;\n        // coordinates are 1-based, zero is not a valid report\n        let col = nums.next()?.checked_sub(1)?;\n        let row = nums.next()?.checked_sub(1)?;\n",
                "        // coordinates are 1-based, zero is not a valid report\n        let (event, col, row) = (\n            nums.next()?,\n            nums.next()?.checked_sub(1)?,\n            nums.next()?.checked_sub(1)?,\n        );\n")]},
]

# ---- 256-colour branch as a `match` on range patterns whose bounds are named constants (`0..CUBE_OFFSET`, `GREYS_OFFSET..=255`),
# ---- cube decomposition by / and %, number_decode as try_fold with usize::from; and the same shape with a wrong constant
_PAL_OLD = '            let mut index = number_decode(cmds.next()?)?;\n            if index < 16 {\n                Some(COLORS[index])\n            } else if index < 232 {\n                index -= 16;\n                let ri = index / 36;\n                index -= ri * 36;\n                let gi = index / 6;\n                index -= gi * 6;\n                let bi = index;\n                Some(RGBA::new(CUBE[ri], CUBE[gi], CUBE[bi], 255))\n            } else if index < 256 {\n                let v = GREYS[index - 232];\n                Some(RGBA::new(v, v, v, 255))\n            } else {\n                None\n            }\n'
_PAL_NAMED = '            match number_decode(cmds.next()?)? {\n                index @ 0..CUBE_OFFSET => Some(COLORS[index]),\n                index @ CUBE_OFFSET..GREYS_OFFSET => {\n                    let index = index - CUBE_OFFSET;\n                    let (ri, gi, bi) = (index / 36, index / 6 % 6, index % 6);\n                    Some(RGBA::new(CUBE[ri], CUBE[gi], CUBE[bi], 255))\n                }\n                index @ GREYS_OFFSET..=255 => {\n                    let v = GREYS[index - GREYS_OFFSET];\n                    Some(RGBA::new(v, v, v, 255))\n                }\n                _ => None,\n            }\n'
_PAL_HDR = "fn sgr_color<'a>(mut cmds: impl Iterator<Item = &'a [u8]>) -> Option<RGBA> {\n"
_ND_OLD = "    let mut result = 0usize;\n    for b in data.iter() {\n        match b {\n            b'0'..=b'9' => {\n                // numbers that do not fit are reported as unrecognized\n                result = result.checked_mul(10)?.checked_add((b - b'0') as usize)?;\n            }\n            _ => return None,\n        }\n    }\n    Some(result)\n"
_ND_TRY_FOLD = "    data.iter().try_fold(0usize, |result, b| match b {\n        b'0'..=b'9' => result.checked_mul(10)?.checked_add(usize::from(b - b'0')),\n        _ => None,\n    })\n"
MUTANTS += [
    {"id": "C04-benign-palette-named-range-bounds", "prop": "C04", "benign": True,
     "edits": [(D, _PAL_OLD, _PAL_NAMED), (D, _PAL_HDR, "const CUBE_OFFSET: usize = 16;\nconst GREYS_OFFSET: usize = 232;\n\n" + _PAL_HDR), (D, _ND_OLD, _ND_TRY_FOLD)]},
    {"id": "C04-palette-named-range-bound-wrong", "prop": "C04", "expect": "T3-PALETTE/decoder::sgr_color/",
     "edits": [(D, _PAL_OLD, _PAL_NAMED), (D, _PAL_HDR, "const CUBE_OFFSET: usize = 16;\nconst GREYS_OFFSET: usize = 231;\n\n" + _PAL_HDR)]},
    {"id": "C04-palette-cube-green-not-reduced", "prop": "C04", "expect": "T3-PALETTE/decoder::sgr_color/",
     "edits": [(D, _PAL_OLD, _PAL_NAMED.replace("index / 6 % 6", "index % 36 / 5")), (D, _PAL_HDR, "const CUBE_OFFSET: usize = 16;\nconst GREYS_OFFSET: usize = 232;\n\n" + _PAL_HDR)]},
]

# ---- the 256-colour branch in further equivalent shapes: extracted helper with early returns, `(16..232).contains`, `[..].map(|i| CUBE[i])`,
# ---- `GREYS.get(index.checked_sub(232)?)`; index narrowed by u8::try_from and matched with `232..=u8::MAX`; guarded arms with shared quotient
_PAL_TAIL = "            }\n        }\n"
_FACE_DOC = "/// Apply SGR commands to the provided Face\n"
MUTANTS += [
    {"id": "C04-benign-palette-helper-contains-get", "prop": "C04", "benign": True,
     "edits": [(D, _PAL_OLD + "        }\n", '            palette_color(number_decode(cmds.next()?)?)\n        }\n'), (D, _FACE_DOC, 'fn palette_color(index: usize) -> Option<RGBA> {\n    if index < COLORS.len() {\n        return Some(COLORS[index]);\n    }\n    if (16..232).contains(&index) {\n        let cube = index - 16;\n        let levels = [cube / 36, cube / 6 % 6, cube % 6].map(|i| CUBE[i]);\n        return Some(RGBA::new(levels[0], levels[1], levels[2], 255));\n    }\n    let v = *GREYS.get(index.checked_sub(232)?)?;\n    Some(RGBA::new(v, v, v, 255))\n}\n' + "\n" + _FACE_DOC)]},
    {"id": "C04-benign-palette-u8-match", "prop": "C04", "benign": True,
     "edits": [(D, _PAL_OLD + "        }\n", '            let index = u8::try_from(number_decode(cmds.next()?)?).ok()?;\n            Some(match index {\n                0..=15 => COLORS[usize::from(index)],\n                16..=231 => {\n                    let cube = usize::from(index - 16);\n                    RGBA::new(CUBE[cube / 36], CUBE[cube / 6 % 6], CUBE[cube % 6], 255)\n                }\n                232..=u8::MAX => {\n                    let v = GREYS[usize::from(index - 232)];\n                    RGBA::new(v, v, v, 255)\n                }\n            })\n        }\n')]},
    {"id": "C04-benign-palette-guarded-arms", "prop": "C04", "benign": True,
     "edits": [(D, _PAL_OLD + "        }\n", '            let index = number_decode(cmds.next()?)?;\n            match index {\n                i if i < 16 => Some(COLORS[i]),\n                i if i < 232 => {\n                    let (hi, bi) = ((i - 16) / 6, (i - 16) % 6);\n                    Some(RGBA::new(CUBE[hi / 6], CUBE[hi % 6], CUBE[bi], 255))\n                }\n                i if i <= 0xff => {\n                    let v = GREYS[i - 232];\n                    Some(RGBA::new(v, v, v, 255))\n                }\n                _ => None,\n            }\n        }\n')]},
    {"id": "C04-benign-palette-get-or-else", "prop": "C04", "benign": True,
     "edits": [(D, _PAL_OLD + "        }\n", '            let index = number_decode(cmds.next()?)?;\n            COLORS.get(index).copied().or_else(|| {\n                let rest = index - COLORS.len();\n                if rest < 216 {\n                    Some(RGBA::new(CUBE[rest / 36], CUBE[(rest % 36) / 6], CUBE[rest % 6], 255))\n                } else {\n                    GREYS.get(rest - 216).map(|&v| RGBA::new(v, v, v, 255))\n                }\n            })\n        }\n')]},
]

# ---- T9-TEXT-SPAN: the free text of a kitty image response / bracketed paste is the whole span between the delimiters ---------------------
_KI_ITER = "        let mut iter = data[3..data.len() - 2].splitn(2, |b| *b == b';');\n"
_KI_FOR = "        for (key, value) in key_value_decode(b',', iter.next()?) {\n"
_KI_MSG = "        let msg = iter.next()?;\n"
_KI_ERR = '        let error = if msg == b"OK" {\n            None\n        } else {\n            Some(String::from_utf8_lossy(msg).to_string())\n        };\n'
_KV_OLD = "    data.split(move |b| *b == sep).filter_map(|kv| {\n        let mut iter = kv.splitn(2, |b| *b == b'=');\n        let key = iter.next()?;\n        let value = iter.next()?;\n        Some((key, value))\n    })\n}\n"
_KV_PAIR = "    data.split(move |b| *b == sep)\n        .filter_map(|kv| split_pair(b'=', kv))\n}\n\n/// Split data into the parts before and after separator\nfn split_pair(sep: u8, data: &[u8]) -> Option<(&[u8], &[u8])> {\n    let mut iter = data.%s;\n    Some((iter.next()?, iter.next()?))\n}\n"
_KI_PAIR = "        let (control, msg) = split_pair(b';', &data[3..data.len() - 2])?;\n"
_KI_FOR_CTL = "        for (key, value) in key_value_decode(b',', control) {\n"
_BP_OLD = "        let text = String::from_utf8(data[6..data.len() - 6].into()).ok()?;\n        Some(TerminalEvent::Paste(text))\n"
MUTANTS += [
    # the seed's essence: shared split_pair helper built on an unbounded `split` - the message ends at its first ';'
    {"id": "C04-kitty-text-split-pair-unbounded", "prop": "C04", "expect": "T9-TEXT-SPAN/decoder::KittyImageMatcher::decode/cut-at-semicolon",
     "edits": [(D, _KI_ITER, _KI_PAIR), (D, _KI_FOR, _KI_FOR_CTL), (D, _KI_MSG, ""), (D, _KV_OLD, _KV_PAIR % "split(move |b| *b == sep)")]},
    # near misses
    {"id": "C04-kitty-text-split-in-place", "prop": "C04", "expect": "T9-TEXT-SPAN/decoder::KittyImageMatcher::decode/cut-at-semicolon",
     "edits": [(D, _KI_ITER, "        let mut iter = data[3..data.len() - 2].split(|b| *b == b';');\n")]},
    {"id": "C04-kitty-text-splitn-3", "prop": "C04", "expect": "T9-TEXT-SPAN/decoder::KittyImageMatcher::decode/cut-at-semicolon",
     "edits": [(D, _KI_ITER, "        let mut iter = data[3..data.len() - 2].splitn(3, |b| *b == b';');\n")]},
    {"id": "C04-kitty-text-after-last-separator", "prop": "C04", "expect": "T9-TEXT-SPAN/decoder::KittyImageMatcher::decode/",
     "edits": [(D, _KI_MSG, ""), (D, _KI_ITER, "        let mut iter = data[3..data.len() - 2].rsplitn(2, |b| *b == b';');\n        let msg = iter.next()?;\n")]},
    {"id": "C04-kitty-text-trimmed", "prop": "C04", "expect": "T9-TEXT-SPAN/decoder::KittyImageMatcher::decode/text-differs",
     "edits": [(D, "Some(String::from_utf8_lossy(msg).to_string())", "Some(String::from_utf8_lossy(msg).trim().to_string())")]},
    {"id": "C04-kitty-ok-prefix-is-success", "prop": "C04", "expect": "T9-TEXT-SPAN/decoder::KittyImageMatcher::decode/reported-without-text",
     "edits": [(D, 'let error = if msg == b"OK" {', 'let error = if msg.starts_with(b"OK") {')]},
    {"id": "C04-paste-text-one-byte-short", "prop": "C04", "expect": "T9-TEXT-SPAN/decoder::BracketedPasteMatcher::decode/",
     "edits": [(D, "String::from_utf8(data[6..data.len() - 6].into())", "String::from_utf8(data[7..data.len() - 6].into())")]},
    {"id": "C04-paste-text-cut-at-semicolon", "prop": "C04", "expect": "T9-TEXT-SPAN/decoder::BracketedPasteMatcher::decode/cut-at-semicolon",
     "edits": [(D, _BP_OLD, "        let body = data[6..data.len() - 6].split(|b| *b == b';').next()?;\n        let text = String::from_utf8(body.into()).ok()?;\n        Some(TerminalEvent::Paste(text))\n")]},
    # behaviour-preserving rewrites
    {"id": "C04-benign-kitty-split-pair-bounded", "prop": "C04", "benign": True,          # the correct version of the refactoring the seed poses as
     "edits": [(D, _KI_ITER, _KI_PAIR), (D, _KI_FOR, _KI_FOR_CTL), (D, _KI_MSG, ""), (D, _KV_OLD, _KV_PAIR % "splitn(2, move |b| *b == sep)")]},
    {"id": "C04-benign-kitty-position-slices", "prop": "C04", "benign": True,
     "edits": [(D, _KI_ITER, "        let payload = &data[3..data.len() - 2];\n        let at = payload.iter().position(|b| *b == b';')?;\n        let (control, msg) = (&payload[..at], &payload[at + 1..]);\n"),
               (D, _KI_FOR, _KI_FOR_CTL), (D, _KI_MSG, "")]},
    {"id": "C04-benign-kitty-split-at", "prop": "C04", "benign": True,
     "edits": [(D, _KI_ITER, "        const SEP: u8 = b';';\n        let payload = &data[3..data.len() - 2];\n        let (control, rest) = payload.split_at(payload.iter().position(|&b| SEP == b)?);\n        debug_assert!(rest.first() == Some(&SEP));\n        let msg = &rest[1..];\n"),
               (D, _KI_FOR, _KI_FOR_CTL), (D, _KI_MSG, "")]},
    {"id": "C04-benign-kitty-error-match-into-owned", "prop": "C04", "benign": True,
     "edits": [(D, _KI_ERR, '        let error = match msg {\n            b"OK" => None,\n            text => Some(String::from_utf8_lossy(text).into_owned()),\n        };\n')]},
    {"id": "C04-benign-kitty-error-negated-hoisted", "prop": "C04", "benign": True,
     "edits": [(D, _KI_ERR, '        let failed = b"OK" != msg;\n        let error = failed.then(|| String::from_utf8_lossy(msg).to_string());\n')]},
    {"id": "C04-benign-paste-named-delimiters", "prop": "C04", "benign": True,
     "edits": [(D, _BP_OLD, '        let inner = &data[b"\\x1b[200~".len()..data.len() - b"\\x1b[201~".len()];\n        String::from_utf8(inner.to_vec()).ok().map(TerminalEvent::Paste)\n')]},
]


# ---- round 4 (C04-J): both halves of the size report decoded by one private helper
_TS_OLD = "        let mut chunks = data.split(|c| *c == b'\\x1b');\n        chunks.next()?; // empty\n        let cell_size = chunks.next()?;\n        let mut nums = numbers_decode(&cell_size[3..cell_size.len() - 1], b';');\n        let cell_height = nums.next()?;\n        let cell_width = nums.next()?;\n        let pixel_size = chunks.next()?;\n        let mut nums = numbers_decode(&pixel_size[3..pixel_size.len() - 1], b';');\n        let pixel_height = nums.next()?;\n        let pixel_width = nums.next()?;\n        Some(TerminalEvent::Size(TerminalSize {\n            cells: Size {\n                height: cell_height,\n                width: cell_width,\n            },\n            pixels: Size {\n                height: pixel_height,\n                width: pixel_width,\n            },\n        }))\n    }\n}\n\n"
MUTANTS += [
    {"id": 'C04-benign-termsize-shared-helper', "prop": "C04", "benign": True,
     "edits": [("src/decoder.rs", _TS_OLD, "        let mut reports = data.split(|c| *c == b'\\x1b');\n        reports.next()?; // empty\n        let cells = Self::decode_size(reports.next()?)?;\n        let pixels = Self::decode_size(reports.next()?)?;\n        Some(TerminalEvent::Size(TerminalSize { cells, pixels }))\n    }\n}\n\nimpl TermSizeMatcher {\n    fn decode_size(report: &[u8]) -> Option<Size> {\n        let mut nums = numbers_decode(&report[3..report.len() - 1], b';');\n        let height = nums.next()?;\n        let width = nums.next()?;\n        Some(Size { height, width })\n    }\n}\n\n")]},
    {"id": 'C04-termsize-shared-helper-swapped-fields', "prop": "C04", "expect": 'T7-FIELD-ORDER',
     "edits": [("src/decoder.rs", _TS_OLD, "        let mut reports = data.split(|c| *c == b'\\x1b');\n        reports.next()?; // empty\n        let cells = Self::decode_size(reports.next()?)?;\n        let pixels = Self::decode_size(reports.next()?)?;\n        Some(TerminalEvent::Size(TerminalSize { cells, pixels }))\n    }\n}\n\nimpl TermSizeMatcher {\n    fn decode_size(report: &[u8]) -> Option<Size> {\n        let mut nums = numbers_decode(&report[3..report.len() - 1], b';');\n        let width = nums.next()?;\n        let height = nums.next()?;\n        Some(Size { height, width })\n    }\n}\n\n")]},
    {"id": 'C04-termsize-shared-helper-swapped-reports', "prop": "C04", "expect": 'T7-FIELD-ORDER',
     "edits": [("src/decoder.rs", _TS_OLD, "        let mut reports = data.split(|c| *c == b'\\x1b');\n        reports.next()?; // empty\n        let pixels = Self::decode_size(reports.next()?)?;\n        let cells = Self::decode_size(reports.next()?)?;\n        Some(TerminalEvent::Size(TerminalSize { cells, pixels }))\n    }\n}\n\nimpl TermSizeMatcher {\n    fn decode_size(report: &[u8]) -> Option<Size> {\n        let mut nums = numbers_decode(&report[3..report.len() - 1], b';');\n        let height = nums.next()?;\n        let width = nums.next()?;\n        Some(Size { height, width })\n    }\n}\n\n")]},
]
