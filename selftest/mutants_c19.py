"""C19 mutants: breaking edits (still compile) that each rule family must catch, and benign edits that must stay silent.
edits: (file, old text occurring exactly once, new text).  Based on /repo after the fixes 4338187 (flex > 0 in every
FlexChild constructor) and 6217b05 (Image checked_mul); the "orig" mutants restore the original defects."""
I = "src/image.rs"
G = "src/glyph.rs"
F = "src/face.rs"
X = "src/view/flex.rs"
_SER_LOOP = ('        let mut writer = Base64Encoder::new(Vec::new());\n        for pixel in self.iter() {\n            writer.write_all(&pixel.to_rgba()).map_err(|err| {\n'
             '                ser::Error::custom(format!("[Image] faield to serialize data: {err}"))\n            })?;\n        }\n        let data = writer.finish().map_err(|err| {\n')
_SER_CALL = '        let data = base64_rgba(self).map_err(|err| {\n'
_KITTY_LOOP = ('            let mut payload_write = Base64Encoder::new(Vec::new());\n            for color in img.iter() {\n                payload_write.write_all(&color.to_rgba())?;\n            }\n'
               '            let payload = payload_write.finish()?;\n')
_DE_DOC = "/// [Image] deserializer encoding is `{ data: base64(deflate(image)), size: Size, channels: u8 }`\n"
_B64_HELPER = ('fn base64_rgba(img: &Image) -> std::io::Result<Vec<u8>> {\n    let mut encoder = Base64Encoder::new(Vec::new());\n    for pixel in img.iter() {\n        encoder.write_all(&pixel.%s)?;\n    }\n'
               '    encoder.finish()\n}\n\n')
MUTANTS = [
    # ---------------- SER-KEYS ----------------
    {"id": "C19-image-ser-key-channel", "prop": "C19", "expect": "SER-KEYS/Image::serialize/unaccepted:channel",
     "edits": [(I, 'image.serialize_field("channels", &4)?;', 'image.serialize_field("channel", &4)?;')]},
    {"id": "C19-image-visitor-key-channel", "prop": "C19", "expect": "SER-KEYS/Image::serialize/unaccepted:channels",
     "edits": [(I, '"channels" => {\n                            channels = map.next_value()?;', '"channel" => {\n                            channels = map.next_value()?;')]},
    {"id": "C19-glyph-ser-key-viewbox", "prop": "C19", "expect": "SER-KEYS/Glyph::serialize/unaccepted:viewbox",
     "edits": [(G, 'attrs.serialize_entry("view_box", &self.inner.view_box)?;', 'attrs.serialize_entry("viewbox", &self.inner.view_box)?;')]},
    {"id": "C19-glyphframe-derive-rename", "prop": "C19", "expect": "SER-KEYS/GlyphFrame::serialize/unaccepted:pad",
     "edits": [(G, '/// Padding (top height%, right width%, bottom height%, left width%)\n    #[serde(default, skip_serializing_if = "is_default")]',
                '/// Padding (top height%, right width%, bottom height%, left width%)\n    #[serde(default, rename = "pad", skip_serializing_if = "is_default")]')]},
    {"id": "C19-glyphframe-visitor-fields-swapped", "prop": "C19", "expect": "SER-KEYS/GlyphFrame::serialize/field:",
     "edits": [(G, "            margin: margin.unwrap_or_default(),", "            margin: padding.unwrap_or_default(),"),
               (G, "            padding: padding.unwrap_or_default(),", "            padding: margin.unwrap_or_default(),")]},
    {"id": "C19-glyphframe-visitor-arm-wrong-local", "prop": "C19", "expect": "SER-KEYS/GlyphFrame",
     "edits": [(G, '"border_width" => {\n                    border_width.replace(map.next_value()?);', '"border_width" => {\n                    border_width.take();\n                    border_radius.replace(map.next_value()?);')]},
    {"id": "C19-glyph-ser-fallback-under-wrong-key", "prop": "C19", "expect": "SER-KEYS/Glyph::serialize",
     "edits": [(G, 'attrs.serialize_entry("fallback", self.fallback_str())?;', 'attrs.serialize_entry("fill_rule", self.fallback_str())?;')]},
    # ---------------- SER-REQUIRED ----------------
    {"id": "C19-image-size-conditional", "prop": "C19", "expect": "SER-REQUIRED/Image::visit_map/required:size",
     "edits": [(I, 'image.serialize_field("size", &self.size())?;', 'if !self.size().is_empty() {\n            image.serialize_field("size", &self.size())?;\n        }')]},
    {"id": "C19-image-declared-length", "prop": "C19", "expect": "SER-REQUIRED/Image::serialize/declared-length",
     "edits": [(I, 'serializer.serialize_struct("Image", 3)?;', 'serializer.serialize_struct("Image", 2)?;')]},
    {"id": "C19-glyph-fill_rule-non-default-when-absent", "prop": "C19", "expect": "SER-REQUIRED/Glyph::visit_map/absent-default:fill_rule",
     "edits": [(G, "                fill_rule.unwrap_or_default(),", "                fill_rule.unwrap_or(FillRule::EvenOdd),")]},
    {"id": "C19-glyph-path-sometimes-omitted", "prop": "C19", "expect": "SER-REQUIRED/Glyph::serialize/exclusive:path+scene",
     "edits": [(G, '                attrs.serialize_entry("path", path)?;\n', '                if self.fallback_str().is_empty() {\n                    attrs.serialize_entry("path", path)?;\n                }\n')]},
    # ---------------- IMAGE-CHANNELS ----------------
    {"id": "C19-image-channels-3-but-4-bytes", "prop": "C19", "expect": "IMAGE-CHANNELS/Image::serialize/channels-vs-bytes",
     "edits": [(I, 'image.serialize_field("channels", &4)?;', 'image.serialize_field("channels", &3)?;')]},
    {"id": "C19-image-writes-3-bytes", "prop": "C19", "expect": "IMAGE-CHANNELS",
     "edits": [(I, "writer.write_all(&pixel.to_rgba()).map_err(|err| {", "writer.write_all(&pixel.to_rgba()[..3]).map_err(|err| {")]},
    {"id": "C19-image-visitor-rejects-4", "prop": "C19", "expect": "IMAGE-CHANNELS/Image::visit_map/rejects-own-output",
     "edits": [(I, "if !matches!(channels, 1 | 3 | 4) {", "if !matches!(channels, 1 | 3) {")]},
    {"id": "C19-image-layout4-ba-swapped", "prop": "C19", "expect": "IMAGE-CHANNELS/Image::visit_map/layout:4",
     "edits": [(I, "let b = data[offset + 2];\n                        let a = data[offset + 3];", "let b = data[offset + 3];\n                        let a = data[offset + 2];")]},
    {"id": "C19-image-layout3-stride-4", "prop": "C19", "expect": "IMAGE-CHANNELS/Image::visit_map/layout:3",
     "edits": [(I, "let offset = 3 * (pos.row * size.width + pos.col);", "let offset = 4 * (pos.row * size.width + pos.col);")]},
    {"id": "C19-image-layout1-column-major", "prop": "C19", "expect": "IMAGE-CHANNELS/Image::visit_map/layout:1",
     "edits": [(I, "let v = data[pos.row * size.width + pos.col];", "let v = data[pos.col * size.height + pos.row];")]},
    {"id": "C19-image-length-check-ignores-channels", "prop": "C19", "expect": "IMAGE-CHANNELS/Image::visit_map/length-check",
     "edits": [(I, "let expected_size = channels\n                    .checked_mul(size.height)", "let expected_size = 1usize\n                    .checked_mul(size.height)")]},
    {"id": "C19-image-default-channels-2", "prop": "C19", "expect": "IMAGE-CHANNELS/Image::visit_map/default-channels",
     "edits": [(I, "let mut channels: usize = 3;", "let mut channels: usize = 2;")]},
    # ---------------- FACE-NAMES ----------------
    {"id": "C19-face-names-drops-italic", "prop": "C19", "expect": "FACE-NAMES/Face::from_str_named/attr:italic",
     "edits": [(F, '            (Self::ITALIC, "italic"),\n', '')]},
    {"id": "C19-face-from_str-bold-sets-italic", "prop": "C19", "expect": "FACE-NAMES",
     "edits": [(F, '"bold" => face.attrs |= FaceAttrs::BOLD,', '"bold" => face.attrs |= FaceAttrs::ITALIC,')]},
    {"id": "C19-face-names-underline-double-dash", "prop": "C19", "expect": "FACE-NAMES/FaceAttrs::names/underline:underline-double",
     "edits": [(F, 'UnderlineStyle::Double => iter.push("underline_double"),', 'UnderlineStyle::Double => iter.push("underline-double"),')]},
    {"id": "C19-face-underline-names-swapped-in-parser", "prop": "C19", "expect": "FACE-NAMES",
     "edits": [(F, '"underline_dotted" => face.attrs |= FaceAttrs::UNDERLINE_DOTTED,\n                    "underline_dashed" => face.attrs |= FaceAttrs::UNDERLINE_DASHED,',
                '"underline_dotted" => face.attrs |= FaceAttrs::UNDERLINE_DASHED,\n                    "underline_dashed" => face.attrs |= FaceAttrs::UNDERLINE_DOTTED,')]},
    {"id": "C19-face-curly-const-bits", "prop": "C19", "expect": "FACE-NAMES",
     "edits": [(F, "pub const UNDERLINE_CURLY: Self = FaceAttrs { bits: 3 };", "pub const UNDERLINE_CURLY: Self = FaceAttrs { bits: 6 };")]},
    {"id": "C19-face-underline-decoder-swapped", "prop": "C19", "expect": "FACE-NAMES",
     "edits": [(F, "            2 => UnderlineStyle::Double,\n            3 => UnderlineStyle::Curly,", "            2 => UnderlineStyle::Curly,\n            3 => UnderlineStyle::Double,")]},
    {"id": "C19-face-display-key-foreground", "prop": "C19", "expect": "FACE-NAMES/Face::Display/key:foreground",
     "edits": [(F, 'write!(f, "fg={}", fg)?;', 'write!(f, "foreground={}", fg)?;')]},
    {"id": "C19-face-display-bg-debug-form", "prop": "C19", "expect": "FACE-NAMES/Face::Display/key:bg",
     "edits": [(F, 'write!(f, "bg={}", bg)?;', 'write!(f, "bg={:?}", bg)?;')]},
    {"id": "C19-face-parser-splits-semicolon", "prop": "C19", "expect": "FACE-NAMES/Face::Display/item-separator",
     "edits": [(F, "            .split(',')", "            .split(';')")]},
    {"id": "C19-face-serialize-debug-form", "prop": "C19", "expect": "FACE-NAMES/Face::serialize/serde-chain",
     "edits": [(F, "serializer.collect_str(self)", 'serializer.serialize_str(&format!("{:?}", self))')]},
    {"id": "C19-face-empty-item-rejected", "prop": "C19", "expect": "FACE-NAMES/Face::from_str_named/empty-item",
     "edits": [(F, '                    "" => {}\n                    _ => return Err(Error::ParseError("Face", string.to_string())),', '                    _ => return Err(Error::ParseError("Face", string.to_string())),')]},
    {"id": "C19-face-flag-overlaps-underline-bits", "prop": "C19", "expect": "FACE-NAMES/FaceAttrs/bits:BOLD",
     "edits": [(F, "    pub const BOLD: Self = FaceAttrs {\n        bits: 1 << Self::UNDERLINE_BITS,", "    pub const BOLD: Self = FaceAttrs {\n        bits: 1 << 2,")]},
    # ---------------- SIBLING-FILTER ----------------
    {"id": "C19-orig-json-flex-unfiltered", "prop": "C19", "expect": "SIBLING-FILTER/Flex::from_json_value/FlexChild.flex:unfiltered",
     "edits": [(X, 'let flex = value\n                            .get("flex")\n                            .map(f64::deserialize)\n                            .transpose()?\n                            .and_then(|flex| (flex > 0.0).then_some(flex));',
                'let flex = value.get("flex").map(f64::deserialize).transpose()?;')],
     "note": "original defect: JSON children with flex 2.0 and -1.0 panic in flex_layout"},
    {"id": "C19-orig-flexchild-builder-unfiltered", "prop": "C19", "expect": "SIBLING-FILTER/FlexChild::flex/FlexChild.flex:unfiltered",
     "edits": [(X, "            flex: (flex > 0.0).then_some(flex),\n            ..self", "            flex: Some(flex),\n            ..self")],
     "note": "original defect: FlexChild::new(v).flex(-1.0) next to .flex(2.0) panics in flex_layout"},
    {"id": "C19-all-flex-filters-removed", "prop": "C19", "expect": "SIBLING-FILTER/ANCHOR/FlexChild.flex-reference-filter",
     "edits": [(X, "flex: flex.and_then(|flex| (flex > 0.0).then_some(flex)),", "flex,"),
               (X, "            flex: (flex > 0.0).then_some(flex),\n            ..self", "            flex: Some(flex),\n            ..self"),
               (X, '                            .transpose()?\n                            .and_then(|flex| (flex > 0.0).then_some(flex));', '                            .transpose()?;')],
     "note": "no site establishes the invariant any more: only the fail-closed anchor can speak"},
    {"id": "C19-push_child_ext-filter-removed", "prop": "C19", "expect": "SIBLING-FILTER/Flex::push_child_ext/FlexChild.flex:unfiltered",
     "edits": [(X, "flex: flex.and_then(|flex| (flex > 0.0).then_some(flex)),", "flex,")]},
    {"id": "C19-json-plain-child-gets-raw-flex", "prop": "C19", "expect": "SIBLING-FILTER/Flex::from_json_value/FlexChild.flex:unfiltered",
     "edits": [(X, "                            view: seed.deserialize(value)?.boxed(),\n                            flex: None,", "                            view: seed.deserialize(value)?.boxed(),\n                            flex: value.get(\"flex\").and_then(|v| v.as_f64()),")]},
    # ---------------- benign ----------------
    {"id": "C19-benign-json-flex-filter-other-form", "prop": "C19", "benign": True,
     "edits": [(X, '                            .transpose()?\n                            .and_then(|flex| (flex > 0.0).then_some(flex));', '                            .transpose()?\n                            .filter(|flex| *flex > 0.0);')],
     "note": "Option::filter with the same predicate is the same validation"},
    {"id": "C19-benign-flexchild-builder-filter-other-form", "prop": "C19", "benign": True,
     "edits": [(X, "            flex: (flex > 0.0).then_some(flex),\n            ..self", "            flex: Some(flex).filter(|flex| *flex > 0.0),\n            ..self")]},
    {"id": "C19-benign-rename-visitor-local", "prop": "C19", "benign": True,
     "edits": [(G, "let mut margin: Option<[Scalar; 4]> = None;", "let mut mgn: Option<[Scalar; 4]> = None;"),
               (G, "margin.replace(map.next_value()?);", "mgn.replace(map.next_value()?);"),
               (G, "            margin: margin.unwrap_or_default(),", "            margin: mgn.unwrap_or_default(),")]},
    {"id": "C19-benign-reorder-visitor-arms", "prop": "C19", "benign": True,
     "edits": [(G, '                "margin" => {\n                    margin.replace(map.next_value()?);\n                }\n                "border_width" => {\n                    border_width.replace(map.next_value()?);\n                }\n',
                '                "border_width" => {\n                    border_width.replace(map.next_value()?);\n                }\n                "margin" => {\n                    margin.replace(map.next_value()?);\n                }\n')]},
    {"id": "C19-benign-image-new-key-both-sides", "prop": "C19", "benign": True,
     "edits": [(I, 'serializer.serialize_struct("Image", 3)?;', 'serializer.serialize_struct("Image", 4)?;'),
               (I, 'image.serialize_field("channels", &4)?;', 'image.serialize_field("channels", &4)?;\n        image.serialize_field("version", &1u32)?;'),
               (I, "let mut channels: usize = 3;", "let mut channels: usize = 3;\n                let mut version = 0u32;"),
               (I, '                        "size" => {\n                            size.replace(map.next_value()?);\n                        }',
                '                        "size" => {\n                            size.replace(map.next_value()?);\n                        }\n                        "version" => {\n                            version = map.next_value()?;\n                        }'),
               (I, "let data_size = data.len();", "let data_size = data.len();\n                let _ = version;")]},
    {"id": "C19-benign-image-rename-writer", "prop": "C19", "benign": True,
     "edits": [(I, "let mut writer = Base64Encoder::new(Vec::new());\n        for pixel in self.iter() {\n            writer.write_all(&pixel.to_rgba())", "let mut enc = Base64Encoder::new(Vec::new());\n        for pixel in self.iter() {\n            enc.write_all(&pixel.to_rgba())"),
               (I, "let data = writer.finish().map_err(|err| {\n            ser::Error::custom(format!(\"[Image] faield", "let data = enc.finish().map_err(|err| {\n            ser::Error::custom(format!(\"[Image] faield")]},
    {"id": "C19-benign-face-new-attr-both-sides", "prop": "C19", "benign": True,
     "edits": [(F, "    const ALL_FLAGS: u16 = 31;", "    pub const HIDDEN: Self = FaceAttrs {\n        bits: 32 << Self::UNDERLINE_BITS,\n    };\n\n    const ALL_FLAGS: u16 = 63;"),
               (F, "let mut iter: ArrayIter<&'static str, 6> = ArrayIter::new();", "let mut iter: ArrayIter<&'static str, 7> = ArrayIter::new();"),
               (F, '            (Self::STRIKE, "strike"),\n', '            (Self::STRIKE, "strike"),\n            (Self::HIDDEN, "hidden"),\n'),
               (F, '"strike" => face.attrs |= FaceAttrs::STRIKE,', '"strike" => face.attrs |= FaceAttrs::STRIKE,\n                    "hidden" => face.attrs |= FaceAttrs::HIDDEN,')]},
    {"id": "C19-benign-face-reorder-rows", "prop": "C19", "benign": True,
     "edits": [(F, '            (Self::BOLD, "bold"),\n            (Self::ITALIC, "italic"),\n', '            (Self::ITALIC, "italic"),\n            (Self::BOLD, "bold"),\n'),
               (F, '"fg" => face.fg = Some(RGBA::from_str_named(value, colors)?),\n                    "bg" => face.bg = Some(RGBA::from_str_named(value, colors)?),', '"bg" => face.bg = Some(RGBA::from_str_named(value, colors)?),\n                    "fg" => face.fg = Some(RGBA::from_str_named(value, colors)?),')]},
    {"id": "C19-benign-glyph-ser-local-rename", "prop": "C19", "benign": True,
     "edits": [(G, "let mut attrs = serializer.serialize_map(Some(6))?;", "let mut map = serializer.serialize_map(Some(6))?;\n        let attrs = &mut map;"),
               (G, "        attrs.end()\n", "        map.end()\n")]},
]


MUTANTS += [
    {"id": "C19-json-flex-nonzero-filter", "prop": "C19", "expect": "SIBLING-FILTER",
     "edits": [("src/view/flex.rs", ".and_then(|flex| (flex > 0.0).then_some(flex));", ".filter(|flex| *flex != 0.0);")]},
]

MUTANTS += [
    {"id": "C19-orig-image-size-unchecked-product", "prop": "C19", "expect": "IMAGE-SIZE",
     "edits": [("src/image.rs", "                let expected_size = channels\n                    .checked_mul(size.height)\n                    .and_then(|count| count.checked_mul(size.width));", "                let expected_size = Some(channels * size.height * size.width);")]},
    {"id": "C19-image-channels-accepts-2", "prop": "C19", "expect": "TOTAL",
     "edits": [("src/image.rs", "if !matches!(channels, 1 | 3 | 4) {", "if !matches!(channels, 1..=4) {")]},
    {"id": "C19-image-second-factor-unchecked", "prop": "C19", "expect": "IMAGE-SIZE",
     "edits": [("src/image.rs", "                    .and_then(|count| count.checked_mul(size.width));", "                    .map(|count| count * size.width);")]},
    {"id": "C19-benign-image-size-checked-other-order", "prop": "C19", "benign": True,
     "edits": [("src/image.rs", "                let expected_size = channels\n                    .checked_mul(size.height)\n                    .and_then(|count| count.checked_mul(size.width));", "                let expected_size = size\n                    .height\n                    .checked_mul(channels)\n                    .and_then(|count| count.checked_mul(size.width));")]},
]

MUTANTS += [
    {"id": "C19-keychord-borrowed-str", "prop": "C19", "expect": "OWNED-STR",
     "edits": [("src/keys.rs", "        let chord_str = std::borrow::Cow::<'de, str>::deserialize(deserializer)?;\n        KeyChord::from_str(chord_str.as_ref()).map_err(serde::de::Error::custom)", "        let chord_str = <&'de str>::deserialize(deserializer)?;\n        KeyChord::from_str(chord_str).map_err(serde::de::Error::custom)")]},
    {"id": "C19-benign-keychord-owned-string", "prop": "C19", "benign": True,
     "edits": [("src/keys.rs", "        let chord_str = std::borrow::Cow::<'de, str>::deserialize(deserializer)?;\n        KeyChord::from_str(chord_str.as_ref()).map_err(serde::de::Error::custom)", "        let chord_str = String::deserialize(deserializer)?;\n        KeyChord::from_str(chord_str.as_ref()).map_err(serde::de::Error::custom)")]},

    # ---------------- robustness: equivalent spellings of the image visitor ----------------
    {"id": "C19-benign-image-hoisted-width-debug-asserts", "prop": "C19", "benign": True,
     "edits": [('src/image.rs', '                let surf = match channels {\n', "                debug_assert_eq!(Some(data.len()), expected_size);\n                let width = size.width;\n" + '                let surf = match channels {\n'),
               ('src/image.rs', '                        let offset = 4 * (pos.row * size.width + pos.col);\n                        let r = data[offset];\n                        let g = data[offset + 1];\n                        let b = data[offset + 2];\n                        let a = data[offset + 3];\n                        RGBA::new(r, g, b, a)\n', '                        let offset = 4 * (pos.row * size.width + pos.col);\n                        let r = data[offset];\n                        let g = data[offset + 1];\n                        let b = data[offset + 2];\n                        let a = data[offset + 3];\n                        RGBA::new(r, g, b, a)\n'.replace("size.width", "width").replace("                        let r = data[offset];", "                        debug_assert!(offset + 3 < data.len());\n                        let r = data[offset];")),
               ('src/image.rs', '                        let offset = 3 * (pos.row * size.width + pos.col);\n', '                        let offset = 3 * (pos.row * size.width + pos.col);\n'.replace("size.width", "width")),
               ('src/image.rs', '                        let v = data[pos.row * size.width + pos.col];\n', "                        let offset = pos.row * width + pos.col;\n                        debug_assert!(offset < data.len());\n                        let v = data[offset];\n")]},
    {"id": "C19-benign-image-layout-operands-reordered", "prop": "C19", "benign": True,
     "edits": [('src/image.rs', '                        let offset = 4 * (pos.row * size.width + pos.col);\n                        let r = data[offset];\n                        let g = data[offset + 1];\n                        let b = data[offset + 2];\n                        let a = data[offset + 3];\n                        RGBA::new(r, g, b, a)\n', '                        let offset = 4 * (pos.row * size.width + pos.col);\n                        let r = data[offset];\n                        let g = data[offset + 1];\n                        let b = data[offset + 2];\n                        let a = data[offset + 3];\n                        RGBA::new(r, g, b, a)\n'.replace("4 * (pos.row * size.width + pos.col)", "(pos.col + size.width * pos.row) * 4")),
               ('src/image.rs', '                        let offset = 3 * (pos.row * size.width + pos.col);\n', '                        let offset = 3 * (pos.row * size.width + pos.col);\n'.replace("3 * (pos.row * size.width + pos.col)", "3 * pos.row * size.width + 3 * pos.col")),
               ('src/image.rs', '                        let v = data[pos.row * size.width + pos.col];\n', '                        let v = data[pos.row * size.width + pos.col];\n'.replace("pos.row * size.width + pos.col", "pos.col + pos.row * size.width"))]},
    {"id": "C19-benign-image-layout-shift-and-direct-index", "prop": "C19", "benign": True,
     "edits": [('src/image.rs', '                        let offset = 4 * (pos.row * size.width + pos.col);\n                        let r = data[offset];\n                        let g = data[offset + 1];\n                        let b = data[offset + 2];\n                        let a = data[offset + 3];\n                        RGBA::new(r, g, b, a)\n', """                        let pixel = pos.row * size.width + pos.col;
                        let offset = pixel << 2;
                        RGBA::new(data[offset], data[offset + 1], data[offset + 2], data[offset + 3])
""")]},
    {"id": "C19-image-layout4-shift-by-one", "prop": "C19", "expect": "IMAGE-CHANNELS/Image::visit_map/layout:4",
     "edits": [('src/image.rs', '                        let offset = 4 * (pos.row * size.width + pos.col);\n                        let r = data[offset];\n                        let g = data[offset + 1];\n                        let b = data[offset + 2];\n                        let a = data[offset + 3];\n                        RGBA::new(r, g, b, a)\n', """                        let pixel = pos.row * size.width + pos.col;
                        let offset = pixel << 1;
                        RGBA::new(data[offset], data[offset + 1], data[offset + 2], data[offset + 3])
""")]},
    {"id": "C19-image-layout-hoisted-height-as-stride", "prop": "C19", "expect": "IMAGE-CHANNELS/Image::visit_map/layout:1",
     "edits": [('src/image.rs', '                let surf = match channels {\n', "                let width = size.height;\n" + '                let surf = match channels {\n'),
               ('src/image.rs', '                        let v = data[pos.row * size.width + pos.col];\n', '                        let v = data[pos.row * size.width + pos.col];\n'.replace("size.width", "width"))]},
    {"id": "C19-benign-image-length-check-flipped", "prop": "C19", "benign": True,
     "edits": [('src/image.rs', "                if Some(data_size) != expected_size {", "                if expected_size != Some(data_size) {")]},

    {"id": "C19-benign-image-channels-contains", "prop": "C19", "benign": True,
     "edits": [("src/image.rs", "                            if !matches!(channels, 1 | 3 | 4) {", "                            if ![1, 3, 4].contains(&channels) {")]},
    {"id": "C19-image-channels-contains-2", "prop": "C19", "expect": "TOTAL",
     "edits": [("src/image.rs", "                            if !matches!(channels, 1 | 3 | 4) {", "                            if ![1, 2, 3, 4].contains(&channels) {")]},
    {"id": "C19-benign-image-serialize-try-for-each", "prop": "C19", "benign": True,
     "edits": [("src/image.rs", "        for pixel in self.iter() {\n            writer.write_all(&pixel.to_rgba()).map_err(|err| {\n                ser::Error::custom(format!(\"[Image] faield to serialize data: {err}\"))\n            })?;\n        }\n",
                "        self.iter()\n            .try_for_each(|pixel| writer.write_all(&pixel.to_rgba()))\n            .map_err(|err| {\n                ser::Error::custom(format!(\"[Image] faield to serialize data: {err}\"))\n            })?;\n")]},
]


# ---- robustness round 5: named constants for the accepted layouts, the checked product spelled as a match, split_once for the key/value cut ----
_SPLITN = "                let mut iter = attrs.splitn(2, '=');\n                let key = iter.next().unwrap_or_default().trim();\n                let value = iter.next().unwrap_or_default().trim();\n"
_EXPECTED = "                let expected_size = channels\n                    .checked_mul(size.height)\n                    .and_then(|count| count.checked_mul(size.width));\n"
_MATCHES = "                            if !matches!(channels, 1 | 3 | 4) {"
_CHDEF = "                let mut channels: usize = 3;\n"
MUTANTS += [
    {"id": "C19-benign-face-split-once", "prop": "C19", "benign": True,
     "edits": [("src/face.rs", _SPLITN, "                let (key, value) = attrs.split_once('=').unwrap_or((attrs, \"\"));\n                let (key, value) = (key.trim(), value.trim());\n")]},
    {"id": "C19-face-split-once-colon", "prop": "C19", "expect": "kv-separator",
     "edits": [("src/face.rs", _SPLITN, "                let (key, value) = attrs.split_once(':').unwrap_or((attrs, \"\"));\n                let (key, value) = (key.trim(), value.trim());\n")]},
    {"id": "C19-benign-image-named-channel-constants", "prop": "C19", "benign": True,
     "edits": [("src/image.rs", _MATCHES, "                            const SUPPORTED_CHANNELS: [usize; 3] = [1, 3, 4];\n                            if !SUPPORTED_CHANNELS.contains(&channels) {"),
               ("src/image.rs", _CHDEF, "                const DEFAULT_CHANNELS: usize = 3;\n                let mut channels: usize = DEFAULT_CHANNELS;\n")]},
    {"id": "C19-image-named-channel-constants-extra-layout", "prop": "C19", "expect": "IMAGE-CHANNELS",
     "edits": [("src/image.rs", _MATCHES, "                            const SUPPORTED_CHANNELS: [usize; 4] = [1, 2, 3, 4];\n                            if !SUPPORTED_CHANNELS.contains(&channels) {")]},
    {"id": "C19-image-named-default-not-accepted", "prop": "C19", "expect": "IMAGE-CHANNELS",
     "edits": [("src/image.rs", _CHDEF, "                const DEFAULT_CHANNELS: usize = 2;\n                let mut channels: usize = DEFAULT_CHANNELS;\n")]},
    {"id": "C19-benign-image-size-product-match", "prop": "C19", "benign": True,
     "edits": [("src/image.rs", _EXPECTED, "                let expected_size = match channels.checked_mul(size.height) {\n                    Some(count) => count.checked_mul(size.width),\n                    None => None,\n                };\n")]},
    {"id": "C19-image-size-product-match-unchecked-factor", "prop": "C19", "expect": "IMAGE-SIZE",
     "edits": [("src/image.rs", _EXPECTED, "                let expected_size = match channels.checked_mul(size.height) {\n                    Some(count) => Some(count.wrapping_mul(size.width)),\n                    None => None,\n                };\n")]},
    {"id": "C19-image-size-product-two-factors", "prop": "C19", "expect": "IMAGE-SIZE",
     "edits": [("src/image.rs", _EXPECTED, "                let expected_size = channels.checked_mul(size.height);\n")]},
    # ---------------- robustness round K6: flag test spellings of names(), encoding loop in a (shared) private helper ----------------
    {"id": "C19-benign-names-flag-test-eq-flag", "prop": "C19", "benign": True,
     "edits": [(F, "            if self.bits & flag.bits != 0 {\n", "            if self.bits & flag.bits == flag.bits {\n")]},
    {"id": "C19-benign-names-flag-test-flipped", "prop": "C19", "benign": True,
     "edits": [(F, "            if self.bits & flag.bits != 0 {\n", "            if 0 < flag.bits & self.bits {\n")]},
    {"id": "C19-benign-names-flag-test-continue", "prop": "C19", "benign": True,
     "edits": [(F, "            if self.bits & flag.bits != 0 {\n                iter.push(name);\n            }\n", "            if self.bits & flag.bits == 0 {\n                continue;\n            }\n            iter.push(name);\n")]},
    {"id": "C19-names-flag-test-negated", "prop": "C19", "expect": "FACE-NAMES",
     "edits": [(F, "            if self.bits & flag.bits != 0 {\n", "            if self.bits & flag.bits == 0 {\n")]},
    {"id": "C19-names-flag-test-other-flag", "prop": "C19", "expect": "FACE-NAMES",
     "edits": [(F, "            if self.bits & flag.bits != 0 {\n", "            if self.bits & Self::BOLD.bits == flag.bits {\n")]},
    {"id": "C19-benign-image-base64-helper-shared", "prop": "C19", "benign": True,
     "edits": [(I, _SER_LOOP, _SER_CALL), (I, _KITTY_LOOP, "            let payload = base64_rgba(img)?;\n"), (I, _DE_DOC, _B64_HELPER % "to_rgba()" + _DE_DOC)]},
    {"id": "C19-benign-image-base64-helper-single", "prop": "C19", "benign": True,
     "edits": [(I, _SER_LOOP, _SER_CALL), (I, _DE_DOC, _B64_HELPER % "to_rgba()" + _DE_DOC)]},
    {"id": "C19-image-base64-helper-writes-3-bytes", "prop": "C19", "expect": "IMAGE-CHANNELS",
     "edits": [(I, _SER_LOOP, _SER_CALL), (I, _KITTY_LOOP, "            let payload = base64_rgba(img)?;\n"), (I, _DE_DOC, _B64_HELPER % "to_rgba()[..3]" + _DE_DOC)]},
    {"id": "C19-image-base64-helper-writes-twice", "prop": "C19", "expect": "IMAGE-CHANNELS",
     "edits": [(I, _SER_LOOP, _SER_CALL), (I, _DE_DOC, (_B64_HELPER % "to_rgba()").replace("    }\n    encoder.finish()", "        encoder.write_all(&[0u8; 1])?;\n    }\n    encoder.finish()") + _DE_DOC)]},
]
