MUTANTS = [
    {"id": "C10-text-unclamped", "prop": "C10", "expect": "CLAMP-CONTRACT",
     "edits": [("src/view/text.rs", "        *layout = Layout::new().with_size(ct.clamp(size));\n        Ok(())\n    }\n}\n\nimpl View for String", "        *layout = Layout::new().with_size(size);\n        Ok(())\n    }\n}\n\nimpl View for String")]},
    {"id": "C10-container-shrink-unclamped", "prop": "C10", "expect": "CLAMP-CONTRACT",
     "edits": [("src/view/container.rs", "                .saturating_add(self.margins.top)\n                .saturating_add(self.margins.bottom)\n                .clamp(ct.min.height, ct.max.height)", "                .saturating_add(self.margins.top)\n                .saturating_add(self.margins.bottom)")]},
    {"id": "C10-fill-ignores-constraint", "prop": "C10", "expect": "CLAMP-CONTRACT",
     "edits": [("src/view/mod.rs", "        *layout = Layout::new().with_size(ct.max());\n        Ok(())\n    }\n}\n\nimpl View for SurfaceView", "        *layout = Layout::new().with_size(Size::new(ct.max().height + 1, ct.max().width));\n        Ok(())\n    }\n}\n\nimpl View for SurfaceView")]},
    {"id": "C10-orig-space-around-div-zero", "prop": "C10", "expect": "TOTAL",
     "edits": [("src/view/flex.rs", "let space = unused / children.len().max(1);", "let space = unused / children.len();")]},
    {"id": "C10-render-without-apply-to", "prop": "C10", "expect": "CONTAINMENT",
     "edits": [("src/view/mod.rs", "        let cell = Cell::new_char(Face::new(None, Some(*self), FaceAttrs::default()), ' ');\n        layout.apply_to(surf).fill(cell);", "        let cell = Cell::new_char(Face::new(None, Some(*self), FaceAttrs::default()), ' ');\n        let mut surf = surf;\n        surf.view_mut(..layout.size().height, ..layout.size().width).fill(cell);")]},
    {"id": "C10-child-constraint-min-above-max", "prop": "C10", "expect": "VALID-CT",
     "edits": [("src/view/container.rs", "            height: if self.align_vertical == Align::Expand {\n                child_size_max.height\n            } else {", "            height: if self.align_vertical == Align::Expand {\n                container_size.height\n            } else {")]},
    {"id": "C10-flex-remain-reduced-before-share", "prop": "C10", "expect": "FLEX-SHAPE",
     "edits": [("src/view/flex.rs", "                let child_major_max = ((major_remain as f64) * flex / flex_total).round() as usize;\n                flex_total -= flex;", "                flex_total -= flex;\n                let child_major_max = ((major_remain as f64) * flex / flex_total.max(1.0)).round() as usize;")]},
    {"id": "C10-size-cells-guard-dropped", "prop": "C10", "expect": "DIV-GUARD",
     "edits": [("src/image.rs", "        if pixels_per_cell.is_empty() || self.size().is_empty() {", "        if self.size().is_empty() {")]},
    {"id": "C10-fragment-index-out-of-table", "prop": "C10", "expect": "TOTAL",
     "edits": [("src/view/frame.rs", "    } else if index + 1 < size {\n        1\n    } else {\n        2\n    }", "    } else if index + 1 < size {\n        1\n    } else {\n        3\n    }")]},
    {"id": "C10-flex-sibling-advance-only-when-nonempty", "prop": "C10", "expect": "FLEX-SHAPE",
     "edits": [("src/view/flex.rs", "            major_offset += child_size.major(direction);\n            major_offset += space_between;\n\n            child_layout_opt = child_layout.sibling();", "            major_offset += child_size.major(direction);\n            major_offset += space_between;\n\n            child_layout_opt = if child_size.is_empty() {\n                Some(child_layout)\n            } else {\n                child_layout.sibling()\n            };")]},
    {"id": "C10-benign-rename", "prop": "C10", "benign": True,
     "edits": [("src/view/flex.rs", "let space = unused / children.len().max(1);", "let gap = unused / children.len().max(1);\n                let space = gap;")]},
]

L = "src/view/layout.rs"
MUTANTS += [
    {"id": "C10-hit-right-edge-inclusive", "prop": "C10", "expect": "HIT-TEST",
     "edits": [(L, "&& self.pos.col < child.pos.col + child.size.width", "&& self.pos.col <= child.pos.col + child.size.width")]},
    {"id": "C10-hit-bottom-edge-inclusive", "prop": "C10", "expect": "HIT-TEST",
     "edits": [(L, "&& self.pos.row < child.pos.row + child.size.height", "&& self.pos.row <= child.pos.row + child.size.height")]},
    {"id": "C10-hit-left-edge-exclusive", "prop": "C10", "expect": "HIT-TEST",
     "edits": [(L, "if child.pos.col <= self.pos.col", "if child.pos.col < self.pos.col")]},
    {"id": "C10-hit-width-height-swapped", "prop": "C10", "expect": "HIT-TEST",
     "edits": [(L, "&& self.pos.col < child.pos.col + child.size.width", "&& self.pos.col < child.pos.col + child.size.height"),
               (L, "&& self.pos.row < child.pos.row + child.size.height", "&& self.pos.row < child.pos.row + child.size.width")]},
    {"id": "C10-hit-rebase-swapped", "prop": "C10", "expect": "HIT-TEST",
     "edits": [(L, "                    row: self.pos.row - child.pos.row,\n                    col: self.pos.col - child.pos.col,", "                    row: self.pos.row - child.pos.col,\n                    col: self.pos.col - child.pos.row,")]},
    {"id": "C10-hit-no-rebase", "prop": "C10", "expect": "HIT-TEST",
     "edits": [(L, "                self.pos = Position {\n                    row: self.pos.row - child.pos.row,\n                    col: self.pos.col - child.pos.col,\n                };\n", "")]},
    {"id": "C10-hit-apply-to-inclusive", "prop": "C10", "expect": "HIT-TEST",
     "edits": [(L, "let cols = self.pos.col..self.pos.col + self.size.width;", "let cols = self.pos.col..self.pos.col + self.size.width + 1;")]},
    {"id": "C10-hit-first-child-only", "prop": "C10", "expect": "HIT-TEST",
     "edits": [(L, "                self.current.replace(child_id);\n                break;\n            }\n            child_id_opt = self.store[child_id.0].sibling;", "                self.current.replace(child_id);\n                break;\n            }\n            if child.size.is_empty() {\n                break;\n            }\n            child_id_opt = self.store[child_id.0].sibling;")]},
    {"id": "C10-hit-benign-flipped-operators", "prop": "C10", "benign": True,
     "edits": [(L, "if child.pos.col <= self.pos.col\n                && self.pos.col < child.pos.col + child.size.width", "if self.pos.col >= child.pos.col\n                && child.size.width + child.pos.col > self.pos.col")]},
    {"id": "C10-hit-benign-rows-first", "prop": "C10", "benign": True,
     "edits": [(L, "if child.pos.col <= self.pos.col\n                && self.pos.col < child.pos.col + child.size.width\n                && child.pos.row <= self.pos.row\n                && self.pos.row < child.pos.row + child.size.height",
                "if child.pos.row <= self.pos.row\n                && self.pos.row < child.pos.row + child.size.height\n                && child.pos.col <= self.pos.col\n                && self.pos.col < child.pos.col + child.size.width")]},
]

MUTANTS += [
    {"id": "C10-align-offset-abs-min", "prop": "C10", "expect": "TOTAL",
     "edits": [("src/view/container.rs", "(space - size).saturating_sub(offset.unsigned_abs() as usize)", "(space - size).saturating_sub(offset.abs() as usize)")]},
]

MUTANTS += [
    {"id": "C10-orig-container-margin-plain-add", "prop": "C10", "expect": "TOTAL",
     "edits": [("src/view/container.rs", "                .align(child_size.height, child_size_max.height)\n                .saturating_add(self.margins.top),", "                .align(child_size.height, child_size_max.height)\n                + self.margins.top,")]},
    {"id": "C10-orig-scrollbar-thumb-end", "prop": "C10", "expect": "TOTAL",
     "edits": [("src/view/scrollbar.rs", "index >= offset.saturating_add(size)", "index >= offset + size")]},
    {"id": "C10-orig-cell-layout-glyph-width", "prop": "C10", "expect": "TOTAL",
     "edits": [("src/render.rs", "        if cursor.col.saturating_add(cell_size.width) <= max_width {", "        if cursor.col + cell_size.width <= max_width {")]},
]

# ---- behaviour-preserving refactorings the rules must see through (robustness round) ----
C = "src/view/container.rs"
_CS = ("            height: if self.size.height == 0 {\n                ct.max().height\n            } else {\n                self.size.height.clamp(ct.min().height, ct.max().height)\n            },\n"
       "            width: if self.size.width == 0 {\n                ct.max().width\n            } else {\n                self.size.width.clamp(ct.min().width, ct.max().width)\n            },\n")
_JSON_DOC = "/// Construct [Container] object from JSON value\n"
_HELPER = ("/// Extent of the container along one axis\nfn resolve_extent(requested: usize, min: usize, max: usize) -> usize {\n    match requested {\n        0 => max,\n        _ => requested.clamp(min, max),\n    }\n}\n\n")
_FIND = ("            if child.pos.col <= self.pos.col\n                && self.pos.col < child.pos.col + child.size.width\n                && child.pos.row <= self.pos.row\n"
         "                && self.pos.row < child.pos.row + child.size.height\n            {")

MUTANTS += [
    # per-axis size computed by a private helper called twice
    {"id": "C10-benign-container-extent-helper", "prop": "C10", "benign": True,
     "edits": [(C, _CS, "            height: resolve_extent(self.size.height, ct.min().height, ct.max().height),\n            width: resolve_extent(self.size.width, ct.min().width, ct.max().width),\n"),
               (C, _JSON_DOC, _HELPER + _JSON_DOC)]},
    {"id": "C10-container-extent-helper-wrong-axis", "prop": "C10", "expect": "CLAMP-CONTRACT",
     "edits": [(C, _CS, "            height: resolve_extent(self.size.height, ct.min().height, ct.max().width),\n            width: resolve_extent(self.size.width, ct.min().width, ct.max().width),\n"),
               (C, _JSON_DOC, _HELPER + _JSON_DOC)]},
    {"id": "C10-container-extent-helper-unclamped", "prop": "C10", "expect": "CLAMP-CONTRACT",
     "edits": [(C, _CS, "            height: resolve_extent(self.size.height, ct.min().height, ct.max().height),\n            width: resolve_extent(self.size.width, ct.min().width, ct.max().width),\n"),
               (C, _JSON_DOC, _HELPER.replace("_ => requested.clamp(min, max)", "_ => requested.max(min)") + _JSON_DOC)]},
    # clamp(lo, hi) <-> max(lo).min(hi); hoisted bounds; match instead of if
    {"id": "C10-benign-container-max-min", "prop": "C10", "benign": True,
     "edits": [(C, "                .saturating_add(self.margins.top)\n                .saturating_add(self.margins.bottom)\n                .clamp(ct.min.height, ct.max.height)", "                .saturating_add(self.margins.top)\n                .saturating_add(self.margins.bottom)\n                .max(ct.min.height)\n                .min(ct.max.height)")]},
    {"id": "C10-container-max-only", "prop": "C10", "expect": "CLAMP-CONTRACT",
     "edits": [(C, "                .saturating_add(self.margins.top)\n                .saturating_add(self.margins.bottom)\n                .clamp(ct.min.height, ct.max.height)", "                .saturating_add(self.margins.top)\n                .saturating_add(self.margins.bottom)\n                .max(ct.min.height)")]},
    {"id": "C10-benign-container-hoisted-match", "prop": "C10", "benign": True,
     "edits": [(C, _CS, "            height: match self.size.height {\n                0 => ct.max().height,\n                height => {\n                    let (lo, hi) = (ct.min().height, ct.max().height);\n                    height.clamp(lo, hi)\n                }\n            },\n"
                       "            width: if self.size.width != 0 {\n                self.size.width.clamp(ct.min().width, ct.max().width)\n            } else {\n                ct.max().width\n            },\n")]},
    # flex share: locals renamed
    {"id": "C10-benign-flex-renamed-counters", "prop": "C10", "benign": True,
     "edits": [("src/view/flex.rs", "    let mut flex_total = 0.0;", "    let mut weights = 0.0;"),
               ("src/view/flex.rs", "            Some(flex) => flex_total += flex,", "            Some(flex) => weights += flex,"),
               ("src/view/flex.rs", "    let mut major_remain = direction.major(ct.max()).saturating_sub(major_non_flex);\n    let mut major_flex = 0;\n    if major_remain > 0 && flex_total > 0.0 {", "    let mut left = direction.major(ct.max()).saturating_sub(major_non_flex);\n    let mut major_flex = 0;\n    if left > 0 && weights > 0.0 {"),
               ("src/view/flex.rs", "                let child_major_max = ((major_remain as f64) * flex / flex_total).round() as usize;\n                flex_total -= flex;", "                let child_major_max = ((left as f64) * flex / weights).round() as usize;\n                weights -= flex;"),
               ("src/view/flex.rs", "                    major_remain -= child_major;", "                    left -= child_major;")]},
    # size_cells guard: positive form, is_empty spelled per component
    {"id": "C10-benign-size-cells-guard-positive", "prop": "C10", "benign": True,
     "edits": [("src/image.rs", "        if pixels_per_cell.is_empty() || self.size().is_empty() {\n            return Size::new(0, 0);\n        }\n        fn round_up(a: usize, b: usize) -> usize {\n            let c = a / b;\n            if a % b == 0 { c } else { c + 1 }\n        }\n        Size {\n            height: round_up(self.height(), pixels_per_cell.height),\n            width: round_up(self.width(), pixels_per_cell.width),\n        }",
                "        fn round_up(a: usize, b: usize) -> usize {\n            let c = a / b;\n            if a % b == 0 { c } else { c + 1 }\n        }\n        if !pixels_per_cell.is_empty() && !self.size().is_empty() {\n            Size {\n                height: round_up(self.height(), pixels_per_cell.height),\n                width: round_up(self.width(), pixels_per_cell.width),\n            }\n        } else {\n            Size::new(0, 0)\n        }")]},
    {"id": "C10-benign-is-empty-per-component", "prop": "C10", "benign": True,
     "edits": [("src/terminal.rs", "        self.height * self.width == 0\n", "        0 == self.width || self.height == 0\n")]},
    {"id": "C10-is-empty-and", "prop": "C10", "expect": "DIV-GUARD",
     "edits": [("src/terminal.rs", "        self.height * self.width == 0\n", "        self.width == 0 && self.height == 0\n")]},
    # hit test: containment predicate extracted into a private helper
    {"id": "C10-hit-benign-contains-helper", "prop": "C10", "benign": True,
     "edits": [(L, _FIND, "            if layout_contains(child, self.pos) {"),
               (L, "impl<'a> Iterator for FindPath<'a> {", "fn layout_contains(layout: &Layout, pos: Position) -> bool {\n    layout.pos.col <= pos.col\n        && pos.col < layout.pos.col + layout.size.width\n        && layout.pos.row <= pos.row\n        && pos.row < layout.pos.row + layout.size.height\n}\n\nimpl<'a> Iterator for FindPath<'a> {")]},
    {"id": "C10-hit-contains-helper-inclusive", "prop": "C10", "expect": "HIT-TEST",
     "edits": [(L, _FIND, "            if layout_contains(child, self.pos) {"),
               (L, "impl<'a> Iterator for FindPath<'a> {", "fn layout_contains(layout: &Layout, pos: Position) -> bool {\n    layout.pos.col <= pos.col\n        && pos.col <= layout.pos.col + layout.size.width\n        && layout.pos.row <= pos.row\n        && pos.row < layout.pos.row + layout.size.height\n}\n\nimpl<'a> Iterator for FindPath<'a> {")]},
    # hit test: early `continue` instead of one conjunction
    {"id": "C10-hit-benign-negated-continue", "prop": "C10", "benign": True,
     "edits": [(L, _FIND + "\n                self.pos = Position {\n                    row: self.pos.row - child.pos.row,\n                    col: self.pos.col - child.pos.col,\n                };\n                self.current.replace(child_id);\n                break;\n            }\n            child_id_opt = self.store[child_id.0].sibling;",
                "            let outside = self.pos.col < child.pos.col\n                || self.pos.col >= child.pos.col + child.size.width\n                || self.pos.row < child.pos.row\n                || self.pos.row >= child.pos.row + child.size.height;\n            if outside {\n                child_id_opt = self.store[child_id.0].sibling;\n                continue;\n            }\n            self.pos = Position {\n                row: self.pos.row - child.pos.row,\n                col: self.pos.col - child.pos.col,\n            };\n            self.current.replace(child_id);\n            break;")]},
]

MUTANTS += [
    # renderer hands its surface to a private helper that applies the layout
    {"id": "C10-benign-render-fill-helper", "prop": "C10", "benign": True,
     "edits": [("src/view/mod.rs", "        let cell = Cell::new_char(Face::new(None, Some(*self), FaceAttrs::default()), ' ');\n        layout.apply_to(surf).fill(cell);", "        let cell = Cell::new_char(Face::new(None, Some(*self), FaceAttrs::default()), ' ');\n        fill_layout(surf, layout, cell);"),
               ("src/view/mod.rs", "impl View for RGBA {", "fn fill_layout(surf: TerminalSurface<'_>, layout: ViewLayout<'_>, cell: Cell) {\n    layout.apply_to(surf).fill(cell);\n}\n\nimpl View for RGBA {")]},
    {"id": "C10-render-fill-helper-no-apply", "prop": "C10", "expect": "CONTAINMENT",
     "edits": [("src/view/mod.rs", "        let cell = Cell::new_char(Face::new(None, Some(*self), FaceAttrs::default()), ' ');\n        layout.apply_to(surf).fill(cell);", "        let cell = Cell::new_char(Face::new(None, Some(*self), FaceAttrs::default()), ' ');\n        fill_layout(surf, layout, cell);"),
               ("src/view/mod.rs", "impl View for RGBA {", "fn fill_layout(mut surf: TerminalSurface<'_>, _layout: ViewLayout<'_>, cell: Cell) {\n    surf.fill(cell);\n}\n\nimpl View for RGBA {")]},
    # the child's minimum size built by a private method
    {"id": "C10-benign-container-child-min-helper", "prop": "C10", "benign": True,
     "edits": [(C, "        let child_size_min = Size {\n            height: if self.align_vertical == Align::Expand {\n                child_size_max.height\n            } else {\n                0\n            },\n            width: if self.align_horizontal == Align::Expand {\n                child_size_max.width\n            } else {\n                0\n            },\n        };\n", "        let child_size_min = self.child_size_min(child_size_max);\n"),
               (C, "impl<V: View> View for Container<V> {", "impl<V> Container<V> {\n    fn child_size_min(&self, max: Size) -> Size {\n        Size {\n            width: match self.align_horizontal {\n                Align::Expand => max.width,\n                _ => 0,\n            },\n            height: match self.align_vertical {\n                Align::Expand => max.height,\n                _ => 0,\n            },\n        }\n    }\n}\n\nimpl<V: View> View for Container<V> {")]},
]

_CS_FULL = "        let mut container_size = Size {\n" + _CS + "        };\n"
_H = "if self.size.height == 0 {\n                ct.max().height\n            } else {\n                self.size.height.clamp(ct.min().height, ct.max().height)\n            }"
_W = "if self.size.width == 0 {\n                ct.max().width\n            } else {\n                self.size.width.clamp(ct.min().width, ct.max().width)\n            }"
MUTANTS += [
    # Size::new(h, w) instead of the struct literal
    {"id": "C10-benign-container-size-new", "prop": "C10", "benign": True,
     "edits": [(C, _CS_FULL, "        let mut container_size = Size::new(\n            " + _H + ",\n            " + _W + ",\n        );\n")]},
    {"id": "C10-container-size-new-swapped", "prop": "C10", "expect": "CLAMP-CONTRACT",
     "edits": [(C, _CS_FULL, "        let mut container_size = Size::new(\n            " + _W + ",\n            " + _H + ",\n        );\n")]},
]

MUTANTS += [
    {"id": "C10-hit-benign-debug-assert", "prop": "C10", "benign": True,
     "edits": [(L, "            let child = &self.store[child_id.0].value;\n", "            debug_assert!(child_id.0 < self.store.len());\n            let child = &self.store[child_id.0].value;\n")]},
]

# ---- CHILD-PAIRING: child number i is rendered with layout number i ----
F = "src/view/flex.rs"
_LOOP = ("    for (child, child_layout) in children.iter().zip(layout.children()) {\n        if child_layout.size().is_empty() {\n            continue;\n        }\n")
_CONT = "        let child_layout = layout.children().next().ok_or(Error::InvalidLayout)?;\n        self.child.render(ctx, surf, child_layout)"
_TAIL = ("            surf.erase(face);\n        }\n\n        child.view.render(ctx, surf.as_mut(), child_layout)?;\n    }\n    Ok(())\n}\n\npub trait FlexArray {")
MUTANTS += [
    # the seed's essence: empty layouts are dropped before the pairing, so later children get a sibling's layout
    {"id": "C10-pairing-filter-layouts-before-zip", "prop": "C10", "expect": "CHILD-PAIRING/view::flex::flex_render/layout-side:filter",
     "edits": [(F, _LOOP, "    let visible = layout.children().filter(|child_layout| !child_layout.size().is_empty());\n    for (child, child_layout) in children.iter().zip(visible) {\n")]},
    {"id": "C10-pairing-skip-first-layout", "prop": "C10", "expect": "CHILD-PAIRING/view::flex::flex_render/layout-side:skip",
     "edits": [(F, "children.iter().zip(layout.children()) {", "children.iter().zip(layout.children().skip(1)) {")]},
    {"id": "C10-pairing-filter-children-before-zip", "prop": "C10", "expect": "CHILD-PAIRING/view::flex::flex_render/child-side:filter",
     "edits": [(F, "children.iter().zip(layout.children()) {", "children.iter().filter(|child| child.flex.is_none()).zip(layout.children()) {")]},
    {"id": "C10-pairing-reversed-layouts", "prop": "C10", "expect": "CHILD-PAIRING/view::flex::flex_render/layout-side",
     "edits": [(F, "children.iter().zip(layout.children()) {", "children.iter().zip(layout.children().collect::<Vec<_>>().into_iter().rev()) {")]},
    # cursor form that skips only the layout (the same mistake spelled as a loop)
    {"id": "C10-pairing-cursor-skips-empty-layouts", "prop": "C10", "expect": "CHILD-PAIRING/view::flex::flex_render/lockstep",
     "edits": [(F, _LOOP, "    let mut layouts = layout.children();\n    for child in children.iter() {\n        let Some(mut child_layout) = layouts.next() else { break };\n        while child_layout.size().is_empty() {\n            match layouts.next() {\n                Some(next_layout) => child_layout = next_layout,\n                None => return Ok(()),\n            }\n        }\n")]},
    # cursor advanced only for children that are drawn
    {"id": "C10-pairing-cursor-not-advanced-on-skip", "prop": "C10", "expect": "CHILD-PAIRING/view::flex::flex_render/lockstep",
     "edits": [(F, _LOOP, "    let mut layouts = layout.children();\n    for child in children.iter() {\n        if child.flex.is_some() && child.face.is_none() {\n            continue;\n        }\n        let Some(child_layout) = layouts.next() else { break };\n        if child_layout.size().is_empty() {\n            continue;\n        }\n")]},
    # the correct version of the refactoring the seed imitates: the *pair* is filtered
    {"id": "C10-pairing-benign-filter-after-zip", "prop": "C10", "benign": True,
     "edits": [(F, _LOOP, "    let visible = children\n        .iter()\n        .zip(layout.children())\n        .filter(|(_, child_layout)| !child_layout.size().is_empty());\n    for (child, child_layout) in visible {\n")]},
    {"id": "C10-pairing-benign-zip-swapped", "prop": "C10", "benign": True,
     "edits": [(F, "for (child, child_layout) in children.iter().zip(layout.children()) {", "for (child_layout, child) in layout.children().zip(children.iter()) {")]},
    {"id": "C10-pairing-benign-lockstep-cursor", "prop": "C10", "benign": True,
     "edits": [(F, _LOOP, "    let mut layouts = layout.children();\n    for child in children.iter() {\n        let Some(child_layout) = layouts.next() else { break };\n        if child_layout.size().is_empty() {\n            continue;\n        }\n")]},
    {"id": "C10-pairing-benign-hoisted-sequences", "prop": "C10", "benign": True,
     "edits": [(F, _LOOP, "    let child_layouts = layout.children();\n    let views = children.iter();\n    let pairs = views.zip(child_layouts).enumerate();\n    for (index, (child, child_layout)) in pairs {\n        debug_assert!(index < children.len());\n        if child_layout.size().is_empty() {\n            continue;\n        }\n")]},
    {"id": "C10-pairing-benign-try-for-each", "prop": "C10", "benign": True,
     "edits": [(F, _LOOP, "    children.iter().zip(layout.children()).try_for_each(|(child, child_layout)| {\n        if child_layout.size().is_empty() {\n            return Ok(());\n        }\n"),
               (F, _TAIL, _TAIL.replace("child.view.render(ctx, surf.as_mut(), child_layout)?;\n    }\n    Ok(())\n}", "child.view.render(ctx, surf.as_mut(), child_layout)\n    })\n}"))]},
    {"id": "C10-pairing-try-for-each-filtered-layouts", "prop": "C10", "expect": "CHILD-PAIRING/view::flex::flex_render",
     "edits": [(F, _LOOP, "    children.iter().zip(layout.children().filter(|l| !l.size().is_empty())).try_for_each(|(child, child_layout)| {\n"),
               (F, _TAIL, _TAIL.replace("child.view.render(ctx, surf.as_mut(), child_layout)?;\n    }\n    Ok(())\n}", "child.view.render(ctx, surf.as_mut(), child_layout)\n    })\n}"))]},
    {"id": "C10-pairing-benign-container-hoisted-cursor", "prop": "C10", "benign": True,
     "edits": [("src/view/container.rs", _CONT, "        debug_assert!(layout.children().next().is_some());\n        let mut child_layouts = layout.children();\n        let child_layout = match child_layouts.next() {\n            Some(child_layout) => child_layout,\n            None => return Err(Error::InvalidLayout),\n        };\n        self.child.render(ctx, surf, child_layout)")]},
    {"id": "C10-pairing-container-second-layout", "prop": "C10", "expect": "Container<V>asview::View>::render/layout-side:skip",
     "edits": [("src/view/container.rs", _CONT, _CONT.replace("layout.children().next()", "layout.children().skip(1).next()"))]},
]

# size_cells: the rounded-up quotient helper is found by data flow from size_cells, not by its name
_RU = "        fn round_up(a: usize, b: usize) -> usize {\n            let c = a / b;\n            if a % b == 0 { c } else { c + 1 }\n        }\n        Size {\n            height: round_up(self.height(), pixels_per_cell.height),\n            width: round_up(self.width(), pixels_per_cell.width),\n        }\n"
_RU_FREE = "        let width = cells_to_cover(self.width(), pixels_per_cell.width);\n        let height = cells_to_cover(self.height(), pixels_per_cell.height);\n        Size { height, width }\n"
_FREE_FN = "fn cells_to_cover(pixels: usize, cell_pixels: usize) -> usize {\n    let whole = pixels / cell_pixels;\n    match pixels % cell_pixels {\n        0 => whole,\n        _ => whole + 1,\n    }\n}\n\nimpl PartialEq for Image {"
_GUARD = "        if pixels_per_cell.is_empty() || self.size().is_empty() {"
MUTANTS += [
    {"id": "C10-benign-round-up-free-fn", "prop": "C10", "benign": True,
     "edits": [("src/image.rs", _RU, _RU_FREE), ("src/image.rs", "impl PartialEq for Image {", _FREE_FN)]},
    {"id": "C10-benign-round-up-inlined-div-ceil", "prop": "C10", "benign": True,
     "edits": [("src/image.rs", _RU, "        Size {\n            height: self.height().div_ceil(pixels_per_cell.height),\n            width: self.width().div_ceil(pixels_per_cell.width),\n        }\n")]},
    {"id": "C10-benign-round-up-written-out", "prop": "C10", "benign": True,
     "edits": [("src/image.rs", _RU, "        let (ph, pw) = (pixels_per_cell.height, pixels_per_cell.width);\n        Size {\n            height: self.height() / ph + usize::from(self.height() % ph != 0),\n            width: self.width() / pw + usize::from(self.width() % pw != 0),\n        }\n")]},
    {"id": "C10-benign-size-cells-component-tests", "prop": "C10", "benign": True,
     "edits": [("src/image.rs", _GUARD, "        if pixels_per_cell.height == 0 || 0 == pixels_per_cell.width || self.size().is_empty() {")]},
    {"id": "C10-round-up-free-fn-guard-dropped", "prop": "C10", "expect": "DIV-GUARD",
     "edits": [("src/image.rs", _RU, _RU_FREE), ("src/image.rs", "impl PartialEq for Image {", _FREE_FN), ("src/image.rs", _GUARD, "        if self.size().is_empty() {")]},
    {"id": "C10-size-cells-guard-height-only", "prop": "C10", "expect": "DIV-GUARD",
     "edits": [("src/image.rs", _GUARD, "        if pixels_per_cell.height == 0 || self.size().is_empty() {")]},
    {"id": "C10-round-up-free-fn-second-unguarded-caller", "prop": "C10", "expect": "DIV-GUARD",
     "edits": [("src/image.rs", _RU, _RU_FREE), ("src/image.rs", "impl PartialEq for Image {", _FREE_FN),
               ("src/image.rs", "    /// Size in cells\n    pub fn size_cells(", "    /// Rows of cells\n    pub fn rows_cells(&self, pixels_per_cell: Size) -> usize {\n        cells_to_cover(self.height(), pixels_per_cell.height)\n    }\n\n    /// Size in cells\n    pub fn size_cells(")]},
]
