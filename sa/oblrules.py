"""Generic obligation rule: every may-panic / may-wrap / unsafe site reachable from a property's
entry points must be discharged (DESIGN §2.2).  Used by C02, C05, C08, C10, C14, C18, C19, ..."""
import re
from collections import defaultdict
from . import obligations
from .discharge import Engine, discharge_one, Outcome
from .mir import callee_name, op_local


def site_keys(obs):
    """stable per-function ordinal keys: KIND-sub-n (n = ordinal among same kind/sub in block order)"""
    cnt = defaultdict(int)
    out = {}
    for o in sorted(obs, key=lambda o: (o.line, o.bb, o.stmt_index or 0)):
        k = "%s-%s" % (o.kind, o.sub)
        cnt[k] += 1
        out[id(o)] = "%s-%d" % (k, cnt[k])
    return out


def address_taken(prog, reach):
    """bodies whose fn item is mentioned as a value (passed to map/filter_map/...) inside the reach set"""
    out = set()
    for p in reach:
        b = prog.body(p)
        if b is None:
            continue
        for i, si, s in b.assigns():
            rv = s["rv"]
            for key in ("a", "b"):
                o = rv.get(key)
                if isinstance(o, dict) and o.get("k") == "const" and "fn" in o["c"]:
                    out.add(o["c"]["fn"].get("resolved") or o["c"]["fn"]["path"])
            if rv["k"] == "agg":
                for f in rv["fields"]:
                    if f["k"] == "const" and "fn" in f["c"]:
                        out.add(f["c"]["fn"].get("resolved") or f["c"]["fn"]["path"])
        for bb, t in b.calls():
            for a in t["args"]:
                if a["k"] == "const" and "fn" in a["c"]:
                    out.add(a["c"]["fn"].get("resolved") or a["c"]["fn"]["path"])
    return out


def const_table_ranges(prog, src):
    """element range of every module-level const whose initialiser is a literal byte string / integer array
    (source dump): `TABLE[i]` then reads a value in [min, max] whatever the index"""
    from .src import lit_int, walk
    out = {}
    lens = {}
    cvals = {}
    for c in prog.consts.values():
        path = c["path"]
        mod, _, name = path.rpartition("::")
        if not re.match(r"^&?('static )?\[\w+(; \d+)?\]$", c.get("ty", "")):
            continue
        fstem = "src/" + mod.replace("::", "/")
        hit = src.const(name, file=fstem + ".rs") or src.const(name, file=fstem + "/mod.rs")
        if hit is None:
            # a const item written inside a function body: found by name in the file its span names
            sfile = (c.get("span") or "").split(":")[0]
            found = []

            def see(n, parents):
                if n.get("k") == "item" and isinstance(n.get("item"), dict) and n["item"].get("k") == "const" and n["item"].get("name") == name:
                    found.append(n["item"])
            for (f, s_, tr, it, t) in src.fns:
                if f == sfile and not t and it.get("body"):
                    walk(it["body"], see)
            if len(found) == 1:
                hit = (sfile, found[0])
        if hit is None:
            continue
        e = hit[1]["expr"]
        while e.get("k") in ("ref", "cast", "paren") or (e.get("k") == "un" and e.get("op") == "*"):
            e = e["e"]
        vals = None
        if e.get("k") == "lit" and e.get("t") == "bytestr":
            vals = list(e["v"])
            lens[path] = len(vals)
        elif e.get("k") == "array":
            vals = [lit_int(x) for x in e["elems"]]
            lens[path] = len(vals)
        elif e.get("k") == "repeat":
            vals = [lit_int(e["e"])]
        if vals and all(v is not None for v in vals) and re.search(r"\[(u8|u16|u32|u64|usize|i8|i16|i32|i64|isize)", c["ty"]):
            out[path] = (min(vals), max(vals))
            if e.get("k") != "repeat" and len(vals) <= 64:
                cvals[path] = list(vals)
    prog.const_lens = lens
    prog.const_vals = cvals
    return out


_DBG_EXP = re.compile(r"^bang:debug_assert(_eq|_ne)?:")


def debug_only_blocks(body):
    """blocks of `body` that run only inside a debug_assert!: the macro expands to `if cfg!(debug_assertions) { assert!(..) }`; in MIR the
    flag is a constant assigned by a statement of the macro's own expansion and switched on at once, so the region is everything
    dominated by the taken target of that switch (the join after the macro is also reached from the other edge)."""
    flags = {}
    for bb, blk in enumerate(body.blocks):
        for st in blk["stmts"]:
            if st["k"] == "assign" and not st["place"]["p"] and _DBG_EXP.match(st.get("expk") or "") and st["rv"]["k"] == "use" \
                    and st["rv"]["a"].get("k") == "const" and st["rv"]["a"]["c"].get("ty") == "bool":
                flags.setdefault(st["place"]["l"], []).append(bb)
    if not flags:
        return set()
    cfg = body.cfg()
    out = set()
    for bb, blk in enumerate(body.blocks):
        t = blk["term"]
        if t["k"] != "switch" or t["d"].get("k") not in ("copy", "move") or t["d"]["place"]["p"]:
            continue
        l = t["d"]["place"]["l"]
        if flags.get(l) != [bb] or len(body.defs_of(l)) != 1 or t.get("vals") != ["0"]:
            continue
        entry = t["otherwise"]
        if entry in t["targets"] or cfg.pred[entry] != [bb]:
            continue
        out |= {x for x in cfg.reach if cfg.dominates(entry, x)}
    return out


def _sole_caller_roots(prog, b):
    from . import inline
    root = b.closure_root or b.path
    rb = prog.body(root)
    if rb is None or rb.kind not in ("Fn", "AssocFn") or rb.impl_trait or len(rb.blocks) > inline.MAX_BLOCKS:
        return []
    roots = set()
    for c in prog.callgraph().callers(root):
        cb = prog.body(c)
        roots.add((cb.closure_root or cb.path) if cb is not None else c)
    roots.discard(root)
    return sorted(roots) if len(roots) == 1 else []


def run(ctx, rule, entries, *, lossy=False, entry_facts=None, lemmas=None, trusts=None, scope=None, skip=None,
        unsafe=True, lossy_filter=None, kinds=None, init_class="CONSTINIT", floor_bodies=0, desc=None, invariants=None, assume_filter=None):
    """entries: body paths. entry_facts: path -> {arg: {...}}. lemmas / trusts: (path, site_key or kind-prefix) -> (name, reason).
    scope: predicate(body) -> bool; obligations in bodies outside the scope are listed as notes only.
    Returns list of Outcome."""
    prog = ctx.prog
    cg = prog.callgraph()
    entry_facts = dict(entry_facts or {})
    lemmas = lemmas or {}
    trusts = trusts or {}
    missing = [e for e in entries if prog.body(e) is None]
    for e in missing:
        ctx.anchor(rule, "entry:" + e, "entry point %s not found" % e)
    entries = [e for e in entries if prog.body(e) is not None]
    dyn, init = cg.reach_split(entries)
    ctx.rule(rule, desc or "every panic/overflow/bounds/unsafe obligation reachable from the entry points is discharged", floor=floor_bodies)
    if getattr(prog, "const_ranges", None) is None:
        prog.const_ranges = const_table_ranges(prog, ctx.src) if getattr(ctx, "src", None) is not None else {}
        if prog.const_ranges:
            ctx.note("literal const tables with element ranges: %s" % prog.const_ranges)
    eng = Engine(prog, invariants=invariants)
    taken = address_taken(prog, dyn | init)
    outcomes = []
    n_bodies = 0
    failing_bodies = []
    per_body = {}
    # closures written inside debug_assert!(..) arguments run only in debug builds, as part of the assertion
    dbg_closures = set()
    dbg_regions = {}
    for p in dyn:
        b = prog.body(p)
        if b is None:
            continue
        for i, si, s_ in b.assigns():
            rv = s_["rv"]
            if rv["k"] == "agg" and rv.get("ak") == "closure" and re.match(r"^bang:debug_assert(_eq|_ne)?:", s_.get("expk") or ""):
                dbg_closures.add(rv.get("def"))
        region = debug_only_blocks(b)
        dbg_regions[p] = region
        for bb_ in region:
            for s_ in b.blocks[bb_]["stmts"]:
                if s_["k"] == "assign" and s_["rv"]["k"] == "agg" and s_["rv"].get("ak") == "closure" and s_["rv"].get("def"):
                    dbg_closures.add(s_["rv"]["def"])
    for p in sorted(dyn):
        b = prog.body(p)
        if b is None or (skip and skip(b)):
            continue
        if p in dbg_closures or (b.closure_root and any(p.startswith(c) for c in dbg_closures)):
            n_dbg = len([o for o in obligations.collect(b, lossy=False, unsafe=unsafe) if not o.exp])
            for _ in range(n_dbg):
                ctx.oblig(True, "DEBUGCHK")
            continue
        obs = [o for o in obligations.collect(b, lossy=lossy, unsafe=unsafe) if not o.exp]
        reg = dbg_regions.get(p) or ()
        if reg:
            for o in obs:
                if o.bb in reg:
                    ctx.oblig(True, "DEBUGCHK")
            obs = [o for o in obs if o.bb not in reg]
        if kinds:
            obs = [o for o in obs if o.kind in kinds]
        if lossy_filter:
            obs = [o for o in obs if o.kind != "LOSSY" or lossy_filter(b, o)]
        if not obs:
            continue
        n_bodies += 1
        per_body[p] = obs
    # pass 1: context-free
    res = {}
    for p, obs in per_body.items():
        an = eng.analyze(p, entry_facts.get(p))
        res[p] = [discharge_one(an, o) for o in obs]
    # pass 2 (two rounds): private helpers with failures get caller-derived entry facts
    for rnd in range(2):
        for p, outs in list(res.items()):
            if all(o.ok for o in outs) or p in entries or p in taken or p in entry_facts:
                continue
            b = prog.body(p)
            if b.kind == "Closure":
                ef = eng.closure_facts(p, entry_facts) if rnd == 0 else None
                if ef:
                    entry_facts[p] = ef
                    an = eng.analyze(p, ef)
                    res[p] = [discharge_one(an, o) for o in per_body[p]]
                    # a `+= 1` on a &mut-captured counter inside a closure driven by an iterator over an in-memory sequence
                    for k_, o_ in enumerate(res[p]):
                        if not o_.ok and o_.ob.kind == "OVF" and o_.ob.sub == "Add" and ef.get("counters"):
                            m_ = o_.ob.term["msg"]
                            if m_["b"].get("k") == "const" and m_["b"]["c"].get("int") == "1" and m_["a"].get("k") in ("copy", "move"):
                                st_ = an.results.get(o_.ob.bb)
                                if st_ is not None and an.pkey(st_, m_["a"]["place"]) in ef["counters"]:
                                    res[p][k_] = Outcome(o_.ob, True, "CNT", "counter captured by &mut, incremented once per call of a closure driven by an iterator over an in-memory sequence (< 2^63 calls)")
                    ctx.note("%s analysed with facts of its captures at the creating call: %s" % (p, ef))
                continue
            callers = [c for c in cg.callers(p) if c in dyn and c != p]
            if not callers:
                continue
            # all callers must call directly
            ef = eng.caller_facts(p, callers, entry_facts)
            if not ef:
                continue
            entry_facts[p] = ef
            an = eng.analyze(p, ef)
            res[p] = [discharge_one(an, o) for o in per_body[p]]
            ctx.note("%s analysed with caller-derived entry facts %s (callers: %s)" % (p, ef, ", ".join(callers)))
    # report
    for p, outs in sorted(res.items()):
        b = prog.body(p)
        keys = site_keys(per_body[p])
        in_scope = scope(b) if scope else True
        for o in outs:
            sk = keys[id(o.ob)]
            ok, cls, why = o.ok, o.cls, o.why
            if not ok:
                for table, kind in ((lemmas, "LEMMA"), (trusts, "TRUST")):
                    hit = table.get((p, sk)) or table.get((p, o.ob.kind)) or table.get((p, "*"))
                    if not hit:
                        # a small private helper whose call sites all lie in one function inherits that function's kind-level
                        # lemmas: extracting statements into a helper does not change what justifies them
                        for cp in _sole_caller_roots(prog, b):
                            hit = hit or table.get((cp, o.ob.kind)) or table.get((cp, "*"))
                    if hit and not ok:
                        ok, cls, why = True, "%s(%s)" % (kind, hit[0]), hit[1]
                        if kind == "TRUST":
                            ctx.trust(hit[0], "%s [%s %s]" % (hit[1], p, sk))
            if not ok and assume_filter is not None:
                hit = assume_filter(b, o.ob)
                if hit:
                    ok, cls, why = True, "ASSUME(%s)" % hit[0], hit[1]
            ctx.oblig(ok, cls)
            ctx.instance(rule, {"fn": p, "site": o.ob.site, "oblig": sk, "what": o.ob.desc[:80], "discharged": cls or "NO", "why": why[:160]})
            if not ok:
                if in_scope:
                    ctx.violation(rule, p, sk, "%s at %s (%s) is not discharged: %s" % (o.ob.kind, o.ob.site, o.ob.desc[:80], why), sites=[o.ob.site])
                else:
                    ctx.note("out-of-scope undischarged obligation %s %s at %s: %s" % (p, sk, o.ob.site, why))
            outcomes.append(o)
    # static-initialiser-only part: input independent
    n_init = 0
    for p in sorted(init):
        b = prog.body(p)
        if b is None:
            continue
        obs = [o for o in obligations.collect(b, lossy=False, unsafe=unsafe) if not o.exp]
        for o in obs:
            n_init += 1
            ctx.oblig(True, init_class)
    if n_init:
        ctx.trust(init_class, "%d obligations lie in bodies reachable only through lazy static initialisers (grammar compilation): they run once on "
                  "constant data, independent of any input, and are executed by the existing unit tests" % n_init)
    ctx.extra.setdefault("reach", {})[rule] = {"entries": entries, "dynamic_bodies": len(dyn), "init_only_bodies": len(init), "bodies_with_obligations": n_bodies}
    return outcomes, dyn, init
