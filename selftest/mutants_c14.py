"""C14 mutants: breaking edits that still compile (must be reported by the named rule) and benign
edits (must stay silent).  Based on /repo after the short-read repair (db96ff4): python3 selftest/run.py C14
edits: (file, old text occurring exactly once, new text)."""

I16 = " " * 16
I12 = " " * 12

WRITE_BLOCK = (
    I16 + "let [s0, s1, s2] = self.buffer;\n"
    + I16 + "let mut dst = [b'='; 4];\n"
    + I16 + "dst[0] = BASE64_ENCODE[(s0 >> 2) as usize];\n"
    + I16 + "dst[1] = BASE64_ENCODE[(((s0 << 4) | (s1 >> 4)) & 0x3f) as usize];\n"
    + I16 + "dst[2] = BASE64_ENCODE[(((s1 << 2) | (s2 >> 6)) & 0x3f) as usize];\n"
    + I16 + "dst[3] = BASE64_ENCODE[(s2 & 0x3f) as usize];\n"
)

DEC4_BODY = (
    "        let [i0, i1, i2, i3] = chunk;\n"
    "        let o0 = BASE64_DECODE[i0 as usize];\n"
    "        let o1 = BASE64_DECODE[i1 as usize];\n"
    "        let o2 = BASE64_DECODE[i2 as usize];\n"
    "        let o3 = BASE64_DECODE[i3 as usize];\n"
    "        let b0 = (o0 << 2) | (o1 >> 4);\n"
    "        let b1 = (o1 << 4) | (o2 >> 2);\n"
    "        let b2 = (o2 << 6) | o3;\n"
    "        [b0, b1, b2]\n"
)

# current text of buffer_fill (after the repair db96ff4 in /repo)
READ_NOW = (
    "            // the inner reader may return fewer bytes than requested: keep reading\n"
    "            // until a full quantum is collected or the end of input is reached\n"
    "            let mut filled = 0;\n"
    "            while filled < input.len() {\n"
    "                let size = self.read.read(&mut input[filled..])?;\n"
    "                if size == 0 {\n"
    "                    break;\n"
    "                }\n"
    "                filled += size;\n"
    "            }\n"
    "            if filled == 0 {\n"
    "                break;\n"
    "            } else if filled != 4 {\n"
)
# the original defect: one read, any count other than 0/4 is an error
READ_ORIG = (
    "            let size = self.read.read(&mut input)?;\n"
    "            if size == 0 {\n"
    "                break;\n"
    "            } else if size != 4 {\n"
)
READ_FIXED = (
    "            let mut filled = 0;\n"
    "            while filled < 4 {\n"
    "                let size = self.read.read(&mut input[filled..])?;\n"
    "                if size == 0 {\n"
    "                    break;\n"
    "                }\n"
    "                filled += size;\n"
    "            }\n"
    "            if filled == 0 {\n"
    "                break;\n"
    "            } else if filled != 4 {\n"
)
# accumulates but reads only once more instead of looping: still fails for 1-byte readers
READ_HALF_FIXED = READ_FIXED.replace("while filled < 4 {", "if filled < 4 {").replace(
    "                if size == 0 {\n                    break;\n                }\n", "")
# `match` form of the repair
READ_FIXED_MATCH = (
    "            let mut filled = 0;\n"
    "            while filled < input.len() {\n"
    "                match self.read.read(&mut input[filled..])? {\n"
    "                    0 => break,\n"
    "                    n => filled += n,\n"
    "                }\n"
    "            }\n"
    "            if filled == 0 {\n"
    "                break;\n"
    "            } else if filled < 4 {\n"
)

LEN_ERR = (
    "return Err(std::io::Error::other(Error::ParseError(\n"
    "                    \"Base64Decoder\",\n"
    "                    \"input length is not dividable by 4\".to_owned(),\n"
    "                )));"
)

COPY = (
    "            let size = buffer.len().min(out.len() - out_offset);\n"
    "            out[out_offset..out_offset + size].copy_from_slice(&buffer[..size]);\n"
    "            out_offset += size;\n"
    "            self.buffer_offset += size;\n"
)

MUTANTS = [
    # ---------------- (a) tables ----------------
    {"id": "C14-alphabet-swap", "prop": "C14", "expect": "ALPHABET",
     "edits": [("src/encoder.rs", 'b"ABCDEFGHIJKLMNOPQRSTUVWXYZabc', 'b"ABCDEFGHIJKLMNOPQRSTUVWXYZbac')]},
    {"id": "C14-alphabet-url-safe", "prop": "C14", "expect": "ALPHABET",
     "edits": [("src/encoder.rs", '0123456789+/";', '0123456789-_";')]},
    {"id": "C14-decode-entry", "prop": "C14", "expect": "DECODE-INVERSE",
     "edits": [("src/decoder.rs", "\\x01\\x02\\x03\\x04", "\\x01\\x02\\x02\\x04")]},
    {"id": "C14-decode-pad-nonzero", "prop": "C14", "expect": "DECODE-INVERSE/BASE64_DECODE/pad",
     "edits": [("src/decoder.rs", "?456789:;<=\\x00\\x00\\x00\\x00", "?456789:;<=\\x00\\x00\\x00\\x01")]},
    # ---------------- (b) bit regrouping ----------------
    {"id": "C14-enc-write-shift-4-not-6", "prop": "C14", "expect": "ENC-BITS",
     "edits": [("src/encoder.rs", "\n" + I16 + "dst[2] = BASE64_ENCODE[(((s1 << 2) | (s2 >> 6)) & 0x3f) as usize];",
                "\n" + I16 + "dst[2] = BASE64_ENCODE[(((s1 << 2) | (s2 >> 4)) & 0x3f) as usize];")]},
    {"id": "C14-enc-write-shift-drops-bit", "prop": "C14", "expect": "ENC-BITS/encoder::Base64Encoder::write/write-full:char1",
     "edits": [("src/encoder.rs", "usize];\n" + I16 + "dst[1] = BASE64_ENCODE[(((s0 << 4) | (s1 >> 4)) & 0x3f) as usize];\n" + I16 + "dst[2]",
                "usize];\n" + I16 + "dst[1] = BASE64_ENCODE[(((s0 << 4) | (s1 >> 5)) & 0x3f) as usize];\n" + I16 + "dst[2]")]},
    {"id": "C14-enc-finish-wrong-mask", "prop": "C14", "expect": "ENC-BITS/encoder::Base64Encoder::finish/finish-1:char1",
     "edits": [("src/encoder.rs", "dst[1] = BASE64_ENCODE[((s0 << 4) & 0x3f) as usize];", "dst[1] = BASE64_ENCODE[((s0 << 4) & 0x1f) as usize];")]},
    {"id": "C14-enc-finish-2-shift", "prop": "C14", "expect": "ENC-BITS/encoder::Base64Encoder::finish/finish-2:char2",
     "edits": [("src/encoder.rs", "dst[2] = BASE64_ENCODE[((s1 << 2) & 0x3f) as usize];", "dst[2] = BASE64_ENCODE[((s1 << 4) & 0x3f) as usize];")]},
    {"id": "C14-enc-write-wrong-octet", "prop": "C14", "expect": "ENC-BITS",
     "edits": [("src/encoder.rs", "let [s0, s1, s2] = self.buffer;", "let [s1, s0, s2] = self.buffer;")]},
    {"id": "C14-dec-shift-4-not-6", "prop": "C14", "expect": "DEC-BITS",
     "edits": [("src/decoder.rs", "let b2 = (o2 << 6) | o3;", "let b2 = (o2 << 4) | o3;")]},
    {"id": "C14-dec-shift-drops-bit", "prop": "C14", "expect": "DEC-BITS/decoder::Base64Decoder::decode_u8x4/byte0",
     "edits": [("src/decoder.rs", "let b0 = (o0 << 2) | (o1 >> 4);", "let b0 = (o0 << 2) | (o1 >> 5);")]},
    {"id": "C14-dec-wrong-sextet", "prop": "C14", "expect": "DEC-BITS",
     "edits": [("src/decoder.rs", "let o2 = BASE64_DECODE[i2 as usize];", "let o2 = BASE64_DECODE[i3 as usize];"),
               ("src/decoder.rs", "let o3 = BASE64_DECODE[i3 as usize];", "let o3 = BASE64_DECODE[i2 as usize];")]},
    # ---------------- padding ----------------
    {"id": "C14-finish-one-pad-for-one-octet", "prop": "C14", "expect": "ENC-PAD",
     "edits": [("src/encoder.rs", "dst[1] = BASE64_ENCODE[((s0 << 4) & 0x3f) as usize];",
                "dst[1] = BASE64_ENCODE[((s0 << 4) & 0x3f) as usize];\n                dst[2] = BASE64_ENCODE[0];")]},
    {"id": "C14-finish-pad-char", "prop": "C14", "expect": "ENC-PAD",
     "edits": [("src/encoder.rs", "        let mut dst = [b'='; 4];\n        let mut iter", "        let mut dst = [b'-'; 4];\n        let mut iter")]},
    {"id": "C14-decode-size-swapped", "prop": "C14", "expect": "PAD-AGREE",
     "edits": [("src/decoder.rs", "            1\n        } else if i3 == b'=' {\n            2\n", "            2\n        } else if i3 == b'=' {\n            1\n")]},
    {"id": "C14-finish-empty-emits-padding", "prop": "C14", "expect": "ENC-PAD",
     "edits": [("src/encoder.rs", "            inner.write_all(&dst)?;\n        }\n        Ok(inner)", "        }\n        inner.write_all(&dst)?;\n        Ok(inner)")]},
    # ---------------- (c) streaming state ----------------
    {"id": "C14-no-carry-reset", "prop": "C14", "expect": "CARRY",
     "edits": [("src/encoder.rs", I16 + "self.size = 0;\n", "")]},
    {"id": "C14-carry-reset-every-byte", "prop": "C14", "expect": "CARRY",
     "edits": [("src/encoder.rs", I16 + "self.size = 0;\n            }\n", "            }\n            self.size %= 3;\n            self.size = 0;\n")]},
    {"id": "C14-write-returns-zero", "prop": "C14", "expect": "CARRY/<encoder::Base64Encoder<W>asstd::io::Write>::write/ok-value",
     "edits": [("src/encoder.rs", "        Ok(buf.len())\n    }\n\n    fn flush(&mut self) -> std::io::Result<()> {\n        self.inner.flush()", "        Ok(buf.len().min(3))\n    }\n\n    fn flush(&mut self) -> std::io::Result<()> {\n        self.inner.flush()")]},
    {"id": "C14-copy-buf-len-not-min", "prop": "C14", "expect": "READ-MIN",
     "edits": [("src/decoder.rs", "let size = buffer.len().min(out.len() - out_offset);", "let size = buffer.len();")]},
    {"id": "C14-offset-not-advanced-by-size", "prop": "C14", "expect": "READ-MIN",
     "edits": [("src/decoder.rs", "            self.buffer_offset += size;\n", "            self.buffer_offset += buffer.len();\n")]},
    {"id": "C14-fill-size-plus-3", "prop": "C14", "expect": "DEC-USE",
     "edits": [("src/decoder.rs", "            self.buffer_size += out_size;\n", "            self.buffer_size += 3;\n")]},
    # ---------------- (d) short reads ----------------
    {"id": "C14-orig-short-read", "prop": "C14", "expect": "SHORT-READ/decoder::Base64Decoder::<R>::buffer_fill/short-read-is-error",
     "edits": [("src/decoder.rs", READ_NOW, READ_ORIG)]},
    {"id": "C14-orig-short-read-match", "prop": "C14", "expect": "SHORT-READ/decoder::Base64Decoder::<R>::buffer_fill/short-read-is-error",
     "edits": [("src/decoder.rs", READ_NOW + "                " + LEN_ERR + "\n            }\n",
                "            match self.read.read(&mut input)? {\n                0 => break,\n                4 => {}\n                _ => {\n"
                "                    " + LEN_ERR + "\n                }\n            }\n")]},
    {"id": "C14-half-fix-no-retry-loop", "prop": "C14", "expect": "SHORT-READ/decoder::Base64Decoder::<R>::buffer_fill/partial-count-without-retry-loop",
     "edits": [("src/decoder.rs", READ_NOW, READ_HALF_FIXED)]},
    {"id": "C14-retry-loop-stops-at-2", "prop": "C14", "expect": "SHORT-READ/decoder::Base64Decoder::<R>::buffer_fill/partial-count-without-retry-loop",
     "edits": [("src/decoder.rs", "while filled < input.len() {", "while filled < 2 {")]},
    # ---------------- (e) length error ----------------
    {"id": "C14-len-error-unreachable", "prop": "C14", "expect": "LEN-ERROR",
     "edits": [("src/decoder.rs", "} else if filled != 4 {", "} else if filled > 4 {")]},
    {"id": "C14-len-silent-truncate", "prop": "C14", "expect": "LEN-ERROR",
     "edits": [("src/decoder.rs", LEN_ERR, "break;")]},
    {"id": "C14-len-error-on-eof-too", "prop": "C14", "expect": "LEN-ERROR",
     "edits": [("src/decoder.rs", "            if filled == 0 {\n                break;\n            } else if filled != 4 {", "            if filled != 4 {")]},
    {"id": "C14-len-error-only-for-odd", "prop": "C14", "expect": "LEN-ERROR",
     "edits": [("src/decoder.rs", "} else if filled != 4 {", "} else if filled != 4 && filled != 2 {")]},
    {"id": "C14-read-swallows-fill-error", "prop": "C14", "expect": "LEN-ERROR",
     "edits": [("src/decoder.rs", "                self.buffer_fill()?;\n", "                let _ = self.buffer_fill();\n")]},

    # ---------------- benign ----------------
    {"id": "C14-benign-retry-loop-literal-4", "prop": "C14", "benign": True,
     "edits": [("src/decoder.rs", READ_NOW, READ_FIXED)]},
    {"id": "C14-benign-retry-loop-match", "prop": "C14", "benign": True,
     "edits": [("src/decoder.rs", READ_NOW, READ_FIXED_MATCH)]},
    {"id": "C14-benign-rename-encoder-locals", "prop": "C14", "benign": True,
     "edits": [("src/encoder.rs", WRITE_BLOCK,
                WRITE_BLOCK.replace("s0", "first").replace("s1", "second").replace("s2", "third").replace("dst", "quad")),
               ("src/encoder.rs", I16 + "self.inner.write_all(&dst)?;", I16 + "self.inner.write_all(&quad)?;")]},
    {"id": "C14-benign-rename-decoder-locals", "prop": "C14", "benign": True,
     "edits": [("src/decoder.rs", DEC4_BODY,
                DEC4_BODY.replace("o0", "sa").replace("o1", "sb").replace("o2", "sc").replace("o3", "sd").replace("chunk;", "chunk; // quantum"))]},
    {"id": "C14-benign-div-mul-for-shifts", "prop": "C14", "benign": True,
     "edits": [("src/encoder.rs", "\n" + I16 + "dst[0] = BASE64_ENCODE[(s0 >> 2) as usize];", "\n" + I16 + "dst[0] = BASE64_ENCODE[(s0 / 4) as usize];"),
               ("src/encoder.rs", "\n" + I16 + "dst[3] = BASE64_ENCODE[(s2 & 0x3f) as usize];", "\n" + I16 + "dst[3] = BASE64_ENCODE[(s2 % 64) as usize];"),
               ("src/decoder.rs", "let b0 = (o0 << 2) | (o1 >> 4);", "let b0 = (o0 * 4) + (o1 / 16);")]},
    {"id": "C14-benign-reorder-statements", "prop": "C14", "benign": True,
     "edits": [("src/encoder.rs",
                "\n" + I16 + "dst[0] = BASE64_ENCODE[(s0 >> 2) as usize];\n" + I16 + "dst[1] = BASE64_ENCODE[(((s0 << 4) | (s1 >> 4)) & 0x3f) as usize];",
                "\n" + I16 + "dst[1] = BASE64_ENCODE[(((s0 << 4) | (s1 >> 4)) & 0x3f) as usize];\n" + I16 + "dst[0] = BASE64_ENCODE[(s0 >> 2) as usize];"),
               ("src/decoder.rs", "        let o0 = BASE64_DECODE[i0 as usize];\n        let o1 = BASE64_DECODE[i1 as usize];\n",
                "        let o1 = BASE64_DECODE[i1 as usize];\n        let o0 = BASE64_DECODE[i0 as usize];\n"),
               ("src/decoder.rs", "            let out = Self::decode_u8x4(input);\n            let out_size = Self::decode_size(input);\n",
                "            let out_size = Self::decode_size(input);\n            let out = Self::decode_u8x4(input);\n")]},
    {"id": "C14-benign-decode-size-negated", "prop": "C14", "benign": True,
     "edits": [("src/decoder.rs",
                "        if i2 == b'=' {\n            1\n        } else if i3 == b'=' {\n            2\n        } else {\n            3\n        }\n",
                "        if i2 != b'=' && i3 != b'=' {\n            3\n        } else if b'=' != i2 {\n            2\n        } else {\n            1\n        }\n")]},
    {"id": "C14-benign-cmp-min-rename", "prop": "C14", "benign": True,
     "edits": [("src/decoder.rs", COPY,
                COPY.replace("buffer.len().min(out.len() - out_offset)", "std::cmp::min(out.len() - out_offset, buffer.len())").replace("size", "n"))]},
    {"id": "C14-benign-explicit-final-mask", "prop": "C14", "benign": True,
     "edits": [("src/encoder.rs", "\n" + I12 + "dst[0] = BASE64_ENCODE[(s0 >> 2) as usize];", "\n" + I12 + "dst[0] = BASE64_ENCODE[((s0 >> 2) & 0x3f) as usize];")]},
]

MUTANTS += [
    {"id": "C14-inv-fill-guard-plus-2", "prop": "C14", "expect": "TOTAL",
     "edits": [("src/decoder.rs", "while self.buffer_size + 3 <= self.buffer.len() {", "while self.buffer_size + 2 <= self.buffer.len() {")]},
    {"id": "C14-inv-offset-not-reset", "prop": "C14", "expect": "INV-DECODER",
     "edits": [("src/decoder.rs", "            self.buffer_offset = 0;\n            self.buffer_size = 0;", "            self.buffer_size = 0;")]},
    {"id": "C14-inv-carry-reset-late", "prop": "C14", "expect": "",
     "edits": [("src/encoder.rs", "            if self.size == 3 {\n                let [s0, s1, s2] = self.buffer;", "            if self.size == 4 {\n                let [s0, s1, s2] = self.buffer;")]},
]


MUTANTS += [
    {"id": "C14-read-drops-error-after-progress", "prop": "C14", "expect": "LEN-ERROR",
     "edits": [("src/decoder.rs", "                self.buffer_fill()?;\n", "                match self.buffer_fill() {\n                    Err(_) if out_offset > 0 => break,\n                    result => result?,\n                }\n")]},
    {"id": "C14-read-ignores-fill-result", "prop": "C14", "expect": "LEN-ERROR",
     "edits": [("src/decoder.rs", "                self.buffer_fill()?;\n", "                if self.buffer_fill().is_err() {\n                    break;\n                }\n")]},
    {"id": "C14-benign-fill-match-propagate", "prop": "C14", "benign": True,
     "edits": [("src/decoder.rs", "                self.buffer_fill()?;\n", "                match self.buffer_fill() {\n                    Ok(()) => {}\n                    Err(error) => return Err(error),\n                }\n")]},
]


# ---------------------------------------------------------------------------------------------------------------
# behaviour-preserving refactorings (robustness): every one must stay silent
# ---------------------------------------------------------------------------------------------------------------
I8 = " " * 8
FINISH_BODY = (
    I8 + "let mut dst = [b'='; 4];\n"
    + I8 + "let mut iter = buffer[..size].iter();\n"
    + I8 + "if let Some(s0) = iter.next() {\n"
    + I12 + "dst[0] = BASE64_ENCODE[(s0 >> 2) as usize];\n"
    + I12 + "if let Some(s1) = iter.next() {\n"
    + I16 + "dst[1] = BASE64_ENCODE[(((s0 << 4) | (s1 >> 4)) & 0x3f) as usize];\n"
    + I16 + "if let Some(s2) = iter.next() {\n"
    + I16 + "    dst[2] = BASE64_ENCODE[(((s1 << 2) | (s2 >> 6)) & 0x3f) as usize];\n"
    + I16 + "    dst[3] = BASE64_ENCODE[(s2 & 0x3f) as usize];\n"
    + I16 + "} else {\n"
    + I16 + "    dst[2] = BASE64_ENCODE[((s1 << 2) & 0x3f) as usize];\n"
    + I16 + "}\n"
    + I12 + "} else {\n"
    + I16 + "dst[1] = BASE64_ENCODE[((s0 << 4) & 0x3f) as usize];\n"
    + I12 + "}\n"
    + I12 + "inner.write_all(&dst)?;\n"
    + I8 + "}\n"
    + I8 + "Ok(inner)\n"
)
FINISH_MATCH = (
    I8 + "let mut dst = [b'='; 4];\n"
    + I8 + "match size {\n"
    + I12 + "0 => return Ok(inner),\n"
    + I12 + "1 => {\n"
    + I16 + "dst[0] = BASE64_ENCODE[(buffer[0] >> 2) as usize];\n"
    + I16 + "dst[1] = BASE64_ENCODE[((buffer[0] << 4) & 0x3f) as usize];\n"
    + I12 + "}\n"
    + I12 + "2 => {\n"
    + I16 + "dst[0] = BASE64_ENCODE[(buffer[0] >> 2) as usize];\n"
    + I16 + "dst[1] = BASE64_ENCODE[(((buffer[0] << 4) | (buffer[1] >> 4)) & 0x3f) as usize];\n"
    + I16 + "dst[2] = BASE64_ENCODE[((buffer[1] << 2) & 0x3f) as usize];\n"
    + I12 + "}\n"
    + I12 + "_ => {\n"
    + I16 + "dst[0] = BASE64_ENCODE[(buffer[0] >> 2) as usize];\n"
    + I16 + "dst[1] = BASE64_ENCODE[(((buffer[0] << 4) | (buffer[1] >> 4)) & 0x3f) as usize];\n"
    + I16 + "dst[2] = BASE64_ENCODE[(((buffer[1] << 2) | (buffer[2] >> 6)) & 0x3f) as usize];\n"
    + I16 + "dst[3] = BASE64_ENCODE[(buffer[2] & 0x3f) as usize];\n"
    + I12 + "}\n"
    + I8 + "}\n"
    + I8 + "inner.write_all(&dst)?;\n"
    + I8 + "Ok(inner)\n"
)
ENC_HELPER = (
    "    /// Encode 3 bytes into 4 base64 bytes\n"
    "    #[inline]\n"
    "    fn encode_u8x3(chunk: [u8; 3]) -> [u8; 4] {\n"
    "        let [s0, s1, s2] = chunk;\n"
    "        [\n"
    "            BASE64_ENCODE[(s0 >> 2) as usize],\n"
    "            BASE64_ENCODE[(((s0 << 4) | (s1 >> 4)) & 0x3f) as usize],\n"
    "            BASE64_ENCODE[(((s1 << 2) | (s2 >> 6)) & 0x3f) as usize],\n"
    "            BASE64_ENCODE[(s2 & 0x3f) as usize],\n"
    "        ]\n"
    "    }\n\n"
)
FINISH_DOC = "    /// finalize base64 stream, returning underlying stream\n"
WRITE_EMIT = WRITE_BLOCK + I16 + "self.inner.write_all(&dst)?;\n"
WRITE_LOOP_HEAD = "        for b in buf.iter().copied() {\n            self.buffer[self.size] = b;\n"
WRITE_LOOP = (
    WRITE_LOOP_HEAD
    + I12 + "self.size += 1;\n"
    + I12 + "if self.size == 3 {\n"
    + WRITE_EMIT
    + I16 + "self.size = 0;\n"
    + I12 + "}\n"
    + I8 + "}\n"
)
DECODE_SIZE_BODY = (
    "        let [_, _, i2, i3] = chunk;\n"
    "        if i2 == b'=' {\n            1\n        } else if i3 == b'=' {\n            2\n        } else {\n            3\n        }\n"
)
FILL_STORE = (
    "            let out = Self::decode_u8x4(input);\n"
    "            let out_size = Self::decode_size(input);\n"
    "            self.buffer[self.buffer_size..self.buffer_size + out_size]\n"
    "                .copy_from_slice(&out[..out_size]);\n"
    "            self.buffer_size += out_size;\n"
)
BUFFER_FN = "    fn buffer(&self) -> &[u8] {\n        &self.buffer[self.buffer_offset..self.buffer_size]\n    }\n"
READ_LOOP_HEAD = "        let mut out_offset = 0;\n        while out_offset < out.len() {\n"
READ_RETRY = (
    "            let mut filled = 0;\n"
    "            while filled < input.len() {\n"
    "                let size = self.read.read(&mut input[filled..])?;\n"
    "                if size == 0 {\n"
    "                    break;\n"
    "                }\n"
    "                filled += size;\n"
    "            }\n"
)

MUTANTS += [
    # seeded/benign C14-A: the 3 -> 4 computation extracted into a private helper returning an array literal, locals renamed
    {"id": "C14-benign-encode-helper", "prop": "C14", "benign": True,
     "edits": [("src/encoder.rs", FINISH_DOC, ENC_HELPER + FINISH_DOC),
               ("src/encoder.rs", WRITE_LOOP_HEAD, "        for byte in buf.iter().copied() {\n            self.buffer[self.size] = byte;\n"),
               ("src/encoder.rs", WRITE_EMIT, I16 + "let quantum = Self::encode_u8x3(self.buffer);\n" + I16 + "self.inner.write_all(&quantum)?;\n")]},
    # the helper shared by write and finish (two callers): finish zero-fills the missing octets and overwrites the tail with '='
    {"id": "C14-benign-encode-helper-shared", "prop": "C14", "benign": True,
     "edits": [("src/encoder.rs", FINISH_DOC, ENC_HELPER + FINISH_DOC),
               ("src/encoder.rs", WRITE_EMIT, I16 + "self.inner.write_all(&Self::encode_u8x3(self.buffer))?;\n"),
               ("src/encoder.rs", FINISH_BODY,
                I8 + "if size > 0 {\n"
                + I12 + "let mut chunk = [0u8; 3];\n"
                + I12 + "chunk[..size].copy_from_slice(&buffer[..size]);\n"
                + I12 + "let mut dst = Self::encode_u8x3(chunk);\n"
                + I12 + "for pad in size + 1..4 {\n"
                + I16 + "dst[pad] = b'=';\n"
                + I12 + "}\n"
                + I12 + "inner.write_all(&dst)?;\n"
                + I8 + "}\n"
                + I8 + "Ok(inner)\n")]},
    # seeded/benign C14-A: if / else-if chain -> match on array patterns
    {"id": "C14-benign-decode-size-match", "prop": "C14", "benign": True,
     "edits": [("src/decoder.rs", DECODE_SIZE_BODY,
                "        match chunk {\n            [_, _, b'=', _] => 1,\n            [_, _, _, b'='] => 2,\n            _ => 3,\n        }\n")]},
    {"id": "C14-benign-decode-size-early-return", "prop": "C14", "benign": True,
     "edits": [("src/decoder.rs", DECODE_SIZE_BODY,
                "        const PAD: u8 = b'=';\n        if chunk[2] == PAD {\n            return 1;\n        }\n        if PAD == chunk[3] {\n            return 2;\n        }\n        3\n")]},
    # seeded/benign C14-C: hoisted out.len(), exact fast path for an empty destination, debug_assert! of invariants
    {"id": "C14-benign-read-fast-path", "prop": "C14", "benign": True,
     "edits": [("src/decoder.rs", BUFFER_FN,
                "    fn buffer(&self) -> &[u8] {\n        debug_assert!(self.buffer_offset <= self.buffer_size);\n"
                "        debug_assert!(self.buffer_size <= self.buffer.len());\n        &self.buffer[self.buffer_offset..self.buffer_size]\n    }\n"),
               ("src/decoder.rs", "            let out_size = Self::decode_size(input);\n",
                "            let out_size = Self::decode_size(input);\n            debug_assert!((1..=3).contains(&out_size));\n"),
               ("src/decoder.rs", READ_LOOP_HEAD,
                "        let out_len = out.len();\n        if out_len == 0 {\n            return Ok(0);\n        }\n"
                "        let mut out_offset = 0;\n        while out_offset < out_len {\n"),
               ("src/decoder.rs", "let size = buffer.len().min(out.len() - out_offset);", "let size = buffer.len().min(out_len - out_offset);")]},
    {"id": "C14-benign-read-fast-path-is-empty", "prop": "C14", "benign": True,
     "edits": [("src/decoder.rs", READ_LOOP_HEAD, "        if out.is_empty() {\n            return Ok(0);\n        }\n" + READ_LOOP_HEAD)]},
    # seeded/benign C14-B: flipped comparisons, named constants, match on the count, cmp::min
    {"id": "C14-benign-fill-flipped-named", "prop": "C14", "benign": True,
     "edits": [("src/decoder.rs", "pub struct Base64Decoder<R> {", "const BASE64_QUANTUM: usize = 4;\nconst BASE64_QUANTUM_DECODED: usize = 3;\n\npub struct Base64Decoder<R> {"),
               ("src/decoder.rs", "while self.buffer_size + 3 <= self.buffer.len() {\n            let mut input = [0u8; 4];",
                "while self.buffer.len() >= self.buffer_size + BASE64_QUANTUM_DECODED {\n            let mut input = [0u8; BASE64_QUANTUM];"),
               ("src/decoder.rs", READ_RETRY + "            if filled == 0 {\n                break;\n            } else if filled != 4 {\n",
                "            let mut filled = 0;\n            while BASE64_QUANTUM > filled {\n                match self.read.read(&mut input[filled..])? {\n"
                "                    0 => break,\n                    size => filled += size,\n                }\n            }\n"
                "            if filled == 0 {\n                break;\n            }\n            if filled != BASE64_QUANTUM {\n"),
               ("src/decoder.rs", "while out_offset < out.len() {", "while out.len() > out_offset {"),
               ("src/decoder.rs", "let size = buffer.len().min(out.len() - out_offset);", "let size = std::cmp::min(buffer.len(), out.len() - out_offset);")]},
    # finish: iterator over the carry -> match on the carry index with indexed reads
    {"id": "C14-benign-finish-match-size", "prop": "C14", "benign": True,
     "edits": [("src/encoder.rs", FINISH_BODY, FINISH_MATCH)]},
    # write: `if index == 3 {..}` -> `if index < 3 { continue; }`, flipped comparison
    {"id": "C14-benign-write-continue-until-full", "prop": "C14", "benign": True,
     "edits": [("src/encoder.rs", WRITE_LOOP,
                WRITE_LOOP_HEAD + I12 + "self.size += 1;\n" + I12 + "if 3 > self.size {\n" + I16 + "continue;\n" + I12 + "}\n"
                + WRITE_EMIT.replace(I16, I12) + I12 + "self.size = 0;\n" + I8 + "}\n")]},
    # write: match on the carry index, hoisted index local, while-let loop instead of for
    {"id": "C14-benign-write-match-while-let", "prop": "C14", "benign": True,
     "edits": [("src/encoder.rs", WRITE_LOOP,
                I8 + "let mut bytes = buf.iter();\n" + I8 + "while let Some(&b) = bytes.next() {\n"
                + I12 + "let index = self.size;\n" + I12 + "self.buffer[index] = b;\n" + I12 + "self.size = index + 1;\n"
                + I12 + "match self.size {\n" + I16 + "3 => {\n"
                + WRITE_EMIT.replace(I16, I16 + "    ") + I16 + "    self.size = 0;\n" + I16 + "}\n" + I16 + "_ => continue,\n" + I12 + "}\n" + I8 + "}\n")]},
    # write: the carry length instead of the literal 3, flipped operands
    {"id": "C14-benign-write-len-not-literal", "prop": "C14", "benign": True,
     "edits": [("src/encoder.rs", "            if self.size == 3 {\n", "            if self.buffer.len() == self.size {\n")]},
    # named constants for the pad character and the sextet mask
    {"id": "C14-benign-named-constants", "prop": "C14", "benign": True,
     "edits": [("src/encoder.rs", "/// Writable object which encodes input to base64",
                "const BASE64_PAD: u8 = b'=';\nconst SEXTET_MASK: u8 = 0x3f;\n\n/// Writable object which encodes input to base64"),
               ("src/encoder.rs", WRITE_BLOCK, WRITE_BLOCK.replace("b'='", "BASE64_PAD").replace("0x3f", "SEXTET_MASK")),
               ("src/encoder.rs", FINISH_BODY, FINISH_BODY.replace("b'='", "BASE64_PAD").replace("0x3f", "SEXTET_MASK"))]},
    # 24-bit accumulator instead of byte-wise shifts
    {"id": "C14-benign-u32-accumulator", "prop": "C14", "benign": True,
     "edits": [("src/encoder.rs", WRITE_BLOCK,
                I16 + "let [s0, s1, s2] = self.buffer;\n"
                + I16 + "let group = ((s0 as u32) << 16) | ((s1 as u32) << 8) | (s2 as u32);\n"
                + I16 + "let dst = [\n"
                + I16 + "    BASE64_ENCODE[(group >> 18) as usize],\n"
                + I16 + "    BASE64_ENCODE[((group >> 12) & 0x3f) as usize],\n"
                + I16 + "    BASE64_ENCODE[((group >> 6) & 0x3f) as usize],\n"
                + I16 + "    BASE64_ENCODE[(group & 0x3f) as usize],\n"
                + I16 + "];\n")]},
    # decoder: table look-up helper with four call sites, result through a tuple
    {"id": "C14-benign-sextet-helper", "prop": "C14", "benign": True,
     "edits": [("src/decoder.rs", "    /// Decode 4 base64 bytes into 3 bytes\n",
                "    #[inline]\n    fn sextet(symbol: u8) -> u8 {\n        BASE64_DECODE[symbol as usize]\n    }\n\n    /// Decode 4 base64 bytes into 3 bytes\n"),
               ("src/decoder.rs", DEC4_BODY,
                "        let (o0, o1, o2, o3) = (\n            Self::sextet(chunk[0]),\n            Self::sextet(chunk[1]),\n"
                "            Self::sextet(chunk[2]),\n            Self::sextet(chunk[3]),\n        );\n"
                "        [(o0 << 2) | (o1 >> 4), (o1 << 4) | (o2 >> 2), (o2 << 6) | o3]\n")]},
    # buffer_fill: decode + store step extracted into a private helper
    {"id": "C14-benign-fill-store-helper", "prop": "C14", "benign": True,
     "edits": [("src/decoder.rs", BUFFER_FN,
                BUFFER_FN + "\n    fn push_quantum(&mut self, input: [u8; 4]) {\n" + FILL_STORE.replace(I12, I8) + "    }\n"),
               ("src/decoder.rs", FILL_STORE, "            self.push_quantum(input);\n")]},
    # buffer_fill: the retry loop extracted into a private helper returning the number of bytes collected
    {"id": "C14-benign-fill-read-helper", "prop": "C14", "benign": True,
     "edits": [("src/decoder.rs", BUFFER_FN,
                BUFFER_FN + "\n    fn read_quantum(&mut self, input: &mut [u8; 4]) -> std::io::Result<usize> {\n"
                + READ_RETRY.replace(I12, I8) + "        Ok(filled)\n    }\n"),
               ("src/decoder.rs", "            // the inner reader may return fewer bytes than requested: keep reading\n"
                "            // until a full quantum is collected or the end of input is reached\n" + READ_RETRY,
                "            let filled = self.read_quantum(&mut input)?;\n")]},
    # read: the copy step extracted into a private helper returning the number of bytes copied
    {"id": "C14-benign-read-copy-helper", "prop": "C14", "benign": True,
     "edits": [("src/decoder.rs", BUFFER_FN,
                BUFFER_FN + "\n    fn copy_out(&mut self, out: &mut [u8], out_offset: usize) -> usize {\n"
                "        let buffer = self.buffer();\n        let size = buffer.len().min(out.len() - out_offset);\n"
                "        out[out_offset..out_offset + size].copy_from_slice(&buffer[..size]);\n        self.buffer_offset += size;\n        size\n    }\n"),
               ("src/decoder.rs", "            let buffer = self.buffer();\n            if buffer.is_empty() {\n                break;\n            }\n" + COPY,
                "            if self.buffer().is_empty() {\n                break;\n            }\n            out_offset += self.copy_out(out, out_offset);\n")]},
    # read: `while cond` -> `loop { if !cond { break } .. }`
    {"id": "C14-benign-read-loop-break", "prop": "C14", "benign": True,
     "edits": [("src/decoder.rs", "        while out_offset < out.len() {\n            if self.buffer().is_empty() {",
                "        loop {\n            if out_offset >= out.len() {\n                break;\n            }\n            if self.buffer().is_empty() {")]},
]

MUTANTS += [
    # iterator chain with a closure (strictly the same function of the chunk: position of the first '=' among the last two characters)
    {"id": "C14-benign-decode-size-iterator", "prop": "C14", "benign": True,
     "edits": [("src/decoder.rs", DECODE_SIZE_BODY,
                "        match chunk[2..].iter().position(|&symbol| symbol == b'=') {\n            Some(0) => 1,\n            Some(1) => 2,\n            _ => 3,\n        }\n")]},
]

DEC_FNS = (
    "    /// Decode 4 base64 bytes into 3 bytes\n    #[inline]\n    fn decode_u8x4(chunk: [u8; 4]) -> [u8; 3] {\n" + DEC4_BODY + "    }\n\n"
    "    /// Decode number of encoded bytes based on the padding symbol\n    #[inline]\n    fn decode_size(chunk: [u8; 4]) -> usize {\n" + DECODE_SIZE_BODY + "    }\n"
)

MUTANTS += [
    # the two pure decode functions merged into one returning (bytes, count)
    {"id": "C14-benign-decode-merged", "prop": "C14", "benign": True,
     "edits": [("src/decoder.rs", DEC_FNS,
                "    /// Decode 4 base64 bytes into 3 bytes and the number of them that are data\n    #[inline]\n"
                "    fn decode_quantum(chunk: [u8; 4]) -> ([u8; 3], usize) {\n"
                + DEC4_BODY.replace("        [b0, b1, b2]\n", "")
                + "        let size = if i2 == b'=' {\n            1\n        } else if i3 == b'=' {\n            2\n        } else {\n            3\n        };\n"
                "        ([b0, b1, b2], size)\n    }\n"),
               ("src/decoder.rs", "            let out = Self::decode_u8x4(input);\n            let out_size = Self::decode_size(input);\n",
                "            let (out, out_size) = Self::decode_quantum(input);\n")]},
    # the private accessor buffer() inlined at its two call sites
    {"id": "C14-benign-buffer-accessor-inlined", "prop": "C14", "benign": True,
     "edits": [("src/decoder.rs", BUFFER_FN + "\n", ""),
               ("src/decoder.rs", "            if self.buffer().is_empty() {\n                self.buffer_fill()?;\n            }\n            let buffer = self.buffer();\n",
                "            if self.buffer_offset == self.buffer_size {\n                self.buffer_fill()?;\n            }\n"
                "            let buffer = &self.buffer[self.buffer_offset..self.buffer_size];\n")]},
]


FINISH_SLICE_MATCH = (
    I8 + "let tail = match buffer[..size] {\n"
    + I12 + "[] => return Ok(inner),\n"
    + I12 + "[s0] => [\n" + I16 + "BASE64_ENCODE[(s0 >> 2) as usize],\n" + I16 + "BASE64_ENCODE[((s0 << 4) & 0x3f) as usize],\n" + I16 + "b'=',\n" + I16 + "b'=',\n" + I12 + "],\n"
    + I12 + "[s0, s1] => [\n" + I16 + "BASE64_ENCODE[(s0 >> 2) as usize],\n" + I16 + "BASE64_ENCODE[(((s0 << 4) | (s1 >> 4)) & 0x3f) as usize],\n"
    + I16 + "BASE64_ENCODE[((s1 << 2) & 0x3f) as usize],\n" + I16 + "b'=',\n" + I12 + "],\n"
    + I12 + "[s0, s1, s2, ..] => Self::encode_u8x3([s0, s1, s2]),\n"
    + I8 + "};\n"
    + I8 + "inner.write_all(&tail)?;\n"
    + I8 + "Ok(inner)\n"
)
LEN_ERR_BRANCH = (
    "            if filled == 0 {\n                break;\n            } else if filled != 4 {\n"
    "                " + LEN_ERR + "\n            }\n"
)

MUTANTS += [
    # seeded/benign C14-D: finish as a match on slice patterns of the pending bytes (rest pattern for the full carry), shared helper
    {"id": "C14-benign-finish-slice-patterns", "prop": "C14", "benign": True,
     "edits": [("src/encoder.rs", FINISH_DOC, ENC_HELPER + FINISH_DOC),
               ("src/encoder.rs", WRITE_EMIT, I16 + "let quad = Self::encode_u8x3(self.buffer);\n" + I16 + "self.inner.write_all(&quad)?;\n"),
               ("src/encoder.rs", FINISH_BODY, FINISH_SLICE_MATCH)]},
    # seeded/benign C14-E: named constants used as *patterns* (constant patterns, not bindings), `n <= len - 3` guard, `out[a..][..n]`
    {"id": "C14-benign-const-patterns-suffix-prefix", "prop": "C14", "benign": True,
     "edits": [("src/decoder.rs", "pub struct Base64Decoder<R> {", "const BASE64_PAD: u8 = b'=';\nconst BASE64_QUANTUM: usize = 4;\n\npub struct Base64Decoder<R> {"),
               ("src/decoder.rs", DECODE_SIZE_BODY, "        match chunk {\n            [_, _, BASE64_PAD, _] => 1,\n            [_, _, _, BASE64_PAD] => 2,\n            _ => 3,\n        }\n"),
               ("src/decoder.rs", "while self.buffer_size + 3 <= self.buffer.len() {\n            let mut input = [0u8; 4];",
                "while self.buffer_size <= self.buffer.len() - 3 {\n            let mut input = [0u8; BASE64_QUANTUM];"),
               ("src/decoder.rs", LEN_ERR_BRANCH,
                "            match filled {\n                0 => break,\n                BASE64_QUANTUM => {}\n                _ => {\n                    " + LEN_ERR + "\n                }\n            }\n"),
               ("src/decoder.rs", "            let size = buffer.len().min(out.len() - out_offset);\n            out[out_offset..out_offset + size].copy_from_slice(&buffer[..size]);\n",
                "            let size = std::cmp::min(out.len() - out_offset, buffer.len());\n            out[out_offset..][..size].copy_from_slice(&buffer[..size]);\n")]},
    # seeded/benign C14-F: fast paths in read and finish, debug_assert!s inside the copy loop
    {"id": "C14-benign-fast-paths-asserts", "prop": "C14", "benign": True,
     "edits": [("src/decoder.rs", READ_LOOP_HEAD + "            if self.buffer().is_empty() {",
                "        if out.is_empty() {\n            return Ok(0);\n        }\n        let out_len = out.len();\n        let mut out_offset = 0;\n        while out_offset < out_len {\n"
                "            debug_assert!(self.buffer_offset <= self.buffer_size);\n            debug_assert!(self.buffer_size <= self.buffer.len());\n            if self.buffer().is_empty() {"),
               ("src/decoder.rs", "let size = buffer.len().min(out.len() - out_offset);", "let size = buffer.len().min(out_len - out_offset);"),
               ("src/decoder.rs", "            let out_size = Self::decode_size(input);\n", "            let out_size = Self::decode_size(input);\n            debug_assert!((1..=out.len()).contains(&out_size));\n"),
               ("src/encoder.rs", "        let mut dst = [b'='; 4];\n        let mut iter = buffer[..size].iter();\n",
                "        if size == 0 {\n            return Ok(inner);\n        }\n        let mut dst = [b'='; 4];\n        let mut iter = buffer[..size].iter();\n")]},
    # a const used as a pattern must be compared, not bound: here the wrong constant (3) is the pattern
    {"id": "C14-const-pattern-wrong-value", "prop": "C14", "expect": "LEN-ERROR",
     "edits": [("src/decoder.rs", "pub struct Base64Decoder<R> {", "const BASE64_QUANTUM: usize = 3;\n\npub struct Base64Decoder<R> {"),
               ("src/decoder.rs", LEN_ERR_BRANCH,
                "            match filled {\n                0 => break,\n                4 | BASE64_QUANTUM => {}\n                _ => {\n                    " + LEN_ERR + "\n                }\n            }\n")]},
    # `out[a..][..n]` without the minimum: the SUFFIX-PREFIX lemma must not apply
    {"id": "C14-suffix-prefix-no-min", "prop": "C14", "expect": "READ-MIN",
     "edits": [("src/decoder.rs", "            let size = buffer.len().min(out.len() - out_offset);\n            out[out_offset..out_offset + size].copy_from_slice(&buffer[..size]);\n",
                "            let size = buffer.len();\n            out[out_offset..][..size].copy_from_slice(&buffer[..size]);\n")]},
]


def _benign(mid):
    return [m for m in MUTANTS if m["id"] == mid][0]["edits"]


# breaking changes hidden behind the refactored shapes: seeing through helpers / other idioms must not hide them
MUTANTS += [
    {"id": "C14-helper-wrong-shift", "prop": "C14", "expect": "ENC-BITS/encoder::Base64Encoder::write/write-full:char2",
     "edits": _benign("C14-benign-encode-helper") + [("src/encoder.rs", "            BASE64_ENCODE[(((s1 << 2) | (s2 >> 6)) & 0x3f) as usize],\n", "            BASE64_ENCODE[(((s1 << 2) | (s2 >> 7)) & 0x3f) as usize],\n")]},
    {"id": "C14-shared-helper-pad-off-by-one", "prop": "C14", "expect": "ENC-",
     "edits": _benign("C14-benign-encode-helper-shared") + [("src/encoder.rs", "for pad in size + 1..4 {", "for pad in size + 2..4 {")]},
    {"id": "C14-finish-match-stale-byte", "prop": "C14", "expect": "ENC-BITS/encoder::Base64Encoder::finish/finish-2:char2",
     "edits": [("src/encoder.rs", FINISH_BODY, FINISH_MATCH.replace(
         I16 + "dst[2] = BASE64_ENCODE[((buffer[1] << 2) & 0x3f) as usize];\n", I16 + "dst[2] = BASE64_ENCODE[(((buffer[1] << 2) | (buffer[2] >> 6)) & 0x3f) as usize];\n"))]},
    # emission made to depend on a data byte: not evaluable -> fail closed
    {"id": "C14-write-data-dependent-emit", "prop": "C14", "expect": "ENC-BITS/ANCHOR",
     "edits": [("src/encoder.rs", I16 + "self.inner.write_all(&dst)?;\n" + I16 + "self.size = 0;\n",
                I16 + "if s0 != 0 {\n" + I16 + "    self.inner.write_all(&dst)?;\n" + I16 + "}\n" + I16 + "self.size = 0;\n")]},
    # `continue` form of write with the reset before the emission lost on the way
    {"id": "C14-write-continue-no-reset", "prop": "C14", "expect": "CARRY",
     "edits": [("src/encoder.rs", WRITE_LOOP,
                WRITE_LOOP_HEAD + I12 + "self.size += 1;\n" + I12 + "if 3 > self.size {\n" + I16 + "continue;\n" + I12 + "}\n"
                + WRITE_EMIT.replace(I16, I12) + I8 + "}\n")]},
    {"id": "C14-merged-decode-size-swapped", "prop": "C14", "expect": "DEC-USE",
     "edits": _benign("C14-benign-decode-merged") + [("src/decoder.rs", "        let size = if i2 == b'=' {\n            1\n        } else if i3 == b'=' {\n            2\n", "        let size = if i2 == b'=' {\n            2\n        } else if i3 == b'=' {\n            1\n")]},
    {"id": "C14-fill-helper-size-plus-3", "prop": "C14", "expect": "DEC-USE",
     "edits": _benign("C14-benign-fill-store-helper") + [("src/decoder.rs", "        self.buffer_size += out_size;\n", "        self.buffer_size += 3;\n")]},
    {"id": "C14-read-copy-helper-no-min", "prop": "C14", "expect": "READ-MIN",
     "edits": _benign("C14-benign-read-copy-helper") + [("src/decoder.rs", "        let size = buffer.len().min(out.len() - out_offset);\n        out[out_offset", "        let size = buffer.len();\n        out[out_offset")]},
    {"id": "C14-fill-read-helper-single-read", "prop": "C14", "expect": "SHORT-READ",
     "edits": _benign("C14-benign-fill-read-helper") + [("src/decoder.rs", "        while filled < input.len() {\n            let size = self.read.read(&mut input[filled..])?;\n            if size == 0 {\n                break;\n            }\n            filled += size;\n        }\n        Ok(filled)",
                                                          "        if filled < input.len() {\n            let size = self.read.read(&mut input[filled..])?;\n            filled += size;\n        }\n        Ok(filled)")]},
    {"id": "C14-fast-path-wrong-guard", "prop": "C14", "expect": "READ-MIN",
     "edits": [("src/decoder.rs", READ_LOOP_HEAD, "        if out.len() <= 1 {\n            return Ok(0);\n        }\n" + READ_LOOP_HEAD)]},
    {"id": "C14-fast-path-drops-buffered", "prop": "C14", "expect": "READ-MIN",
     "edits": [("src/decoder.rs", READ_LOOP_HEAD, "        if out.is_empty() {\n            self.buffer_offset = self.buffer_size;\n            return Ok(0);\n        }\n" + READ_LOOP_HEAD)]},
    {"id": "C14-accessor-inlined-wrong-window", "prop": "C14", "expect": "",
     "edits": _benign("C14-benign-buffer-accessor-inlined") + [("src/decoder.rs", "            let buffer = &self.buffer[self.buffer_offset..self.buffer_size];\n", "            let buffer = &self.buffer[..self.buffer_size];\n")]},
]

# ---- round G4: difference-form guards, private helper with a weaker entry (carry full), chunks_exact fast path ----------------------
FILL_GUARD = "        while self.buffer_size + 3 <= self.buffer.len() {\n"
WRITE_FN_HEAD = "impl<W: Write> Write for Base64Encoder<W> {\n"
TRIPLE_HELPER = (
    "impl<W: Write> Base64Encoder<W> {\n"
    "    fn write_triple(&mut self) -> std::io::Result<()> {\n"
    "        debug_assert_eq!(self.size, self.buffer.len());\n"
    + WRITE_EMIT.replace(I16, I8)
    + "        self.size = 0;\n        Ok(())\n    }\n}\n\n"
)
WRITE_LOOP_HELPER = (WRITE_LOOP_HEAD + I12 + "self.size += 1;\n" + I12 + "if self.size == 3 {\n" + I16 + "self.write_triple()?;\n" + I12 + "}\n" + I8 + "}\n")


def _fast_path(chunk, size_stmt="                self.size = 3;\n"):
    return (I8 + "let mut rest = buf;\n" + I8 + "if self.size == 0 {\n" + I12 + "let mut triples = buf.chunks_exact(%d);\n" % chunk
            + I12 + "for triple in triples.by_ref() {\n" + I16 + "self.buffer.copy_from_slice(triple);\n" + size_stmt
            + I16 + "self.write_triple()?;\n" + I12 + "}\n" + I12 + "rest = triples.remainder();\n" + I8 + "}\n"
            + WRITE_LOOP_HELPER.replace("for b in buf.iter().copied()", "for b in rest.iter().copied()"))


MUTANTS += [
    {"id": "C14-benign-fill-guard-difference", "prop": "C14", "benign": True,
     "edits": [("src/decoder.rs", FILL_GUARD, "        while self.buffer.len() - self.buffer_size >= 3 {\n")]},
    {"id": "C14-benign-fill-guard-difference-flipped", "prop": "C14", "benign": True,
     "edits": [("src/decoder.rs", FILL_GUARD, "        while 3 <= self.buffer.len() - self.buffer_size {\n")]},
    {"id": "C14-benign-fill-guard-difference-strict", "prop": "C14", "benign": True,
     "edits": [("src/decoder.rs", FILL_GUARD, "        while self.buffer.len() - self.buffer_size > 2 {\n")]},
    {"id": "C14-benign-fill-guard-negated-difference", "prop": "C14", "benign": True,
     "edits": [("src/decoder.rs", FILL_GUARD, "        while !(self.buffer.len() - self.buffer_size < 3) {\n")]},
    {"id": "C14-fill-guard-difference-too-small", "prop": "C14", "expect": "",
     "edits": [("src/decoder.rs", FILL_GUARD, "        while self.buffer.len() - self.buffer_size >= 2 {\n")]},
    {"id": "C14-benign-write-triple-helper", "prop": "C14", "benign": True,
     "edits": [("src/encoder.rs", WRITE_FN_HEAD, TRIPLE_HELPER + WRITE_FN_HEAD), ("src/encoder.rs", WRITE_LOOP, WRITE_LOOP_HELPER)]},
    {"id": "C14-benign-write-chunks-exact-fast-path", "prop": "C14", "benign": True,
     "edits": [("src/encoder.rs", WRITE_FN_HEAD, TRIPLE_HELPER + WRITE_FN_HEAD), ("src/encoder.rs", WRITE_LOOP, _fast_path(3))]},
    {"id": "C14-write-triple-helper-no-reset", "prop": "C14", "expect": "",
     "edits": [("src/encoder.rs", WRITE_FN_HEAD, TRIPLE_HELPER.replace("        self.size = 0;\n", "") + WRITE_FN_HEAD), ("src/encoder.rs", WRITE_LOOP, WRITE_LOOP_HELPER)]},
    {"id": "C14-write-fast-path-chunks-of-2", "prop": "C14", "expect": "",
     "edits": [("src/encoder.rs", WRITE_FN_HEAD, TRIPLE_HELPER + WRITE_FN_HEAD), ("src/encoder.rs", WRITE_LOOP, _fast_path(2))]},
    {"id": "C14-write-fast-path-when-carry-nonempty", "prop": "C14", "expect": "",
     "edits": [("src/encoder.rs", WRITE_FN_HEAD, TRIPLE_HELPER + WRITE_FN_HEAD), ("src/encoder.rs", WRITE_LOOP, _fast_path(3).replace("if self.size == 0 {", "if self.size <= 1 {"))]},
]

# Behaviour-preserving edits on which the C14 *rules* are silent but the shared numeric engine (sa/absint.py, sa/summaries.py, sa/structinv.py:
# TOTAL / INV-* of `obligations()`) cannot discharge its obligations yet.  Not part of MUTANTS; move them there when the engine has
#   - a summary for `<uN as From<uM>>::from` (lossless widening: result = argument),
#   - a bound `Iterator::count() <= len` for adaptor chains over a slice of known length,
#   - struct invariants that are inductive across the calls of a closure capturing `&mut self` (try_for_each / for_each bodies).
ENGINE_LIMITED = [
    {"id": "C14-benign-sextet-helper-from", "prop": "C14", "benign": True,
     "edits": [("src/decoder.rs", "    /// Decode 4 base64 bytes into 3 bytes\n",
                "    #[inline]\n    fn sextet(symbol: u8) -> u8 {\n        BASE64_DECODE[usize::from(symbol)]\n    }\n\n    /// Decode 4 base64 bytes into 3 bytes\n"),
               ("src/decoder.rs", DEC4_BODY,
                "        let (o0, o1, o2, o3) = (\n            Self::sextet(chunk[0]),\n            Self::sextet(chunk[1]),\n"
                "            Self::sextet(chunk[2]),\n            Self::sextet(chunk[3]),\n        );\n"
                "        [(o0 << 2) | (o1 >> 4), (o1 << 4) | (o2 >> 2), (o2 << 6) | o3]\n")]},
    {"id": "C14-benign-decode-size-count", "prop": "C14", "benign": True,
     "edits": [("src/decoder.rs", DECODE_SIZE_BODY, "        1 + chunk[2..].iter().take_while(|&&symbol| symbol != b'=').count()\n")]},
    {"id": "C14-benign-write-try-for-each", "prop": "C14", "benign": True,
     "edits": [("src/encoder.rs", WRITE_LOOP + "        Ok(buf.len())\n",
                I8 + "buf.iter().copied().try_for_each(|b| -> std::io::Result<()> {\n"
                + I12 + "self.buffer[self.size] = b;\n" + I12 + "self.size += 1;\n" + I12 + "if self.size == 3 {\n"
                + WRITE_EMIT + I16 + "self.size = 0;\n" + I12 + "}\n" + I12 + "Ok(())\n" + I8 + "})?;\n" + I8 + "Ok(buf.len())\n")]},
]

# seeded/benign C11-K: finish through a local `sextet` closure (mask folded into the closure, named mask constant), slice patterns,
# quad as an array literal; write with `for &b in buf`, `== self.buffer.len()`.  The same with a wrong shift / no mask is caught.
FINISH_SEXTET = (
    I8 + "let sextet = |index: u8| BASE64_ENCODE[(index & BASE64_MASK) as usize];\n"
    + I8 + "let dst = match buffer[..size] {\n"
    + I12 + "[] => return Ok(inner),\n"
    + I12 + "[s0] => [sextet(s0 >> 2), sextet(s0 << 4), b'=', b'='],\n"
    + I12 + "[s0, s1] => [sextet(s0 >> 2), sextet((s0 << 4) | (s1 >> 4)), sextet(s1 << 2), b'='],\n"
    + I12 + "[s0, s1, s2, ..] => [sextet(s0 >> 2), sextet((s0 << 4) | (s1 >> 4)), sextet((s1 << 2) | (s2 >> 6)), sextet(s2)],\n"
    + I8 + "};\n"
    + I8 + "inner.write_all(&dst)?;\n"
    + I8 + "Ok(inner)\n"
)
_MASK_CONST = ("src/encoder.rs", "/// Writable object which encodes input to base64", "const BASE64_MASK: u8 = 0x3f;\n\n/// Writable object which encodes input to base64")
MUTANTS += [
    {"id": "C14-benign-finish-sextet-closure", "prop": "C14", "benign": True,
     "edits": [_MASK_CONST, ("src/encoder.rs", FINISH_BODY, FINISH_SEXTET),
               ("src/encoder.rs", "        for b in buf.iter().copied() {\n            self.buffer[self.size] = b;\n", "        for &b in buf {\n            self.buffer[self.size] = b;\n"),
               ("src/encoder.rs", "            if self.size == 3 {\n", "            if self.size == self.buffer.len() {\n")]},
    {"id": "C14-finish-sextet-closure-wrong-shift", "prop": "C14", "expect": "ENC-BITS/encoder::Base64Encoder::finish",
     "edits": [_MASK_CONST, ("src/encoder.rs", FINISH_BODY, FINISH_SEXTET.replace("[s0, s1] => [sextet(s0 >> 2), sextet((s0 << 4) | (s1 >> 4)), sextet(s1 << 2), b'=']",
                                                                                  "[s0, s1] => [sextet(s0 >> 2), sextet((s0 << 4) | (s1 >> 4)), sextet(s1 << 4), b'=']"))]},
    {"id": "C14-finish-sextet-closure-narrow-mask", "prop": "C14", "expect": "ENC-BITS/encoder::Base64Encoder::finish",
     "edits": [("src/encoder.rs", "/// Writable object which encodes input to base64", "const BASE64_MASK: u8 = 0x1f;\n\n/// Writable object which encodes input to base64"),
               ("src/encoder.rs", FINISH_BODY, FINISH_SEXTET)]},
]

_DEC4_LETS = ("        let [i0, i1, i2, i3] = chunk;\n        let o0 = BASE64_DECODE[i0 as usize];\n        let o1 = BASE64_DECODE[i1 as usize];\n"
              "        let o2 = BASE64_DECODE[i2 as usize];\n        let o3 = BASE64_DECODE[i3 as usize];\n")
_DSIZE_IF = ("        let [_, _, i2, i3] = chunk;\n        if i2 == b'=' {\n            1\n        } else if i3 == b'=' {\n            2\n        } else {\n            3\n        }\n")
MUTANTS += [
    # `[T; 4]::map` with a table-lookup closure instead of four lets; size-from-padding as a match on array patterns; difference guard with a named const
    {"id": "C14-benign-decode-array-map", "prop": "C14", "benign": True,
     "edits": [("src/decoder.rs", _DEC4_LETS, "        let [o0, o1, o2, o3] = chunk.map(|symbol| BASE64_DECODE[usize::from(symbol)]);\n")]},
    {"id": "C14-decode-array-map-swapped", "prop": "C14", "expect": "DEC-BITS",
     "edits": [("src/decoder.rs", _DEC4_LETS, "        let [o1, o0, o2, o3] = chunk.map(|symbol| BASE64_DECODE[usize::from(symbol)]);\n")]},
    {"id": "C14-benign-decode-size-array-match", "prop": "C14", "benign": True,
     "edits": [("src/decoder.rs", _DSIZE_IF, "        match chunk {\n            [_, _, b'=', _] => 1,\n            [_, _, _, b'='] => 2,\n            _ => 3,\n        }\n")]},
    {"id": "C14-decode-size-array-match-swapped", "prop": "C14", "expect": "C14/",
     "edits": [("src/decoder.rs", _DSIZE_IF, "        match chunk {\n            [_, _, b'=', _] => 2,\n            [_, _, _, b'='] => 1,\n            _ => 3,\n        }\n")]},
    {"id": "C14-benign-fill-guard-difference-const", "prop": "C14", "benign": True,
     "edits": [("src/decoder.rs", "impl<R: Read> Base64Decoder<R> {\n    pub fn new(read: R)", "impl<R: Read> Base64Decoder<R> {\n    const QUANTUM_DECODED: usize = 3;\n\n    pub fn new(read: R)"),
               ("src/decoder.rs", "while self.buffer_size + 3 <= self.buffer.len() {", "while self.buffer.len() - self.buffer_size >= Self::QUANTUM_DECODED {")]},
]

# ---- round M7: size-from-padding through position().map_or(..) (Option combinators in the evaluator; decision-table view for the interval
# engine), cell-by-cell copy into the buffer
_DSIZE_POS = "        chunk[2..]\n            .iter()\n            .position(|symbol| *symbol == b'=')\n            .map_or(3, |index| index + 1)\n"
_COPY_OLD = "            self.buffer[self.buffer_size..self.buffer_size + out_size]\n                .copy_from_slice(&out[..out_size]);\n"
_COPY_ZIP = "            self.buffer[self.buffer_size..]\n                .iter_mut()\n                .zip(&out[..out_size])\n                .for_each(|(dst, src)| *dst = *src);\n"
MUTANTS += [
    {"id": "C14-benign-decode-size-position-map-or", "prop": "C14", "benign": True, "edits": [("src/decoder.rs", _DSIZE_IF, _DSIZE_POS)]},
    {"id": "C14-benign-decode-size-position-map-unwrap-or", "prop": "C14", "benign": True,
     "edits": [("src/decoder.rs", _DSIZE_IF, "        chunk[2..].iter().position(|symbol| *symbol == b'=').map(|index| index + 1).unwrap_or(3)\n")]},
    {"id": "C14-benign-decode-size-position-and-zip-copy", "prop": "C14", "benign": True,
     "edits": [("src/decoder.rs", _DSIZE_IF, _DSIZE_POS), ("src/decoder.rs", _COPY_OLD, _COPY_ZIP)]},
    {"id": "C14-decode-size-position-off-by-one", "prop": "C14", "expect": "C14/",
     "edits": [("src/decoder.rs", _DSIZE_IF, _DSIZE_POS.replace("index + 1", "index + 2"))]},
    {"id": "C14-decode-size-position-default-two", "prop": "C14", "expect": "C14/",
     "edits": [("src/decoder.rs", _DSIZE_IF, _DSIZE_POS.replace("map_or(3,", "map_or(2,"))]},
    {"id": "C14-decode-size-position-from-one", "prop": "C14", "expect": "C14/",
     "edits": [("src/decoder.rs", _DSIZE_IF, _DSIZE_POS.replace("chunk[2..]", "chunk[1..]"))]},
]
